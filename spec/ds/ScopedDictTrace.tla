--------------------------- MODULE ScopedDictTrace ---------------------------
(* Trace validation for ScopedDict: replays logged calls through the model's operators. *)
EXTENDS ScopedDict, Json, IOUtils

Traces == JsonDeserialize(IOEnv.TRACE_FILE)
VARIABLES t, l
tvars == <<parent, local, ret, t, l>>

Exp(e) == CASE e.op = "new" -> RNone
            [] e.op = "set" -> RNone
            [] e.op = "index" -> IndexRet(parent, local, e.s, e.k)
            [] e.op = "get" -> GetRet(parent, local, e.s, e.k, NoneV)
            [] e.op = "getd" -> GetRet(parent, local, e.s, e.k, e.v)
            [] e.op = "contains" -> ContainsRet(parent, local, e.s, e.k)

TInit == Init /\ t = 1 /\ l = 1
TNext == /\ t <= Len(Traces)
         /\ IF l > Len(Traces[t])
            THEN t' = t + 1 /\ l' = 1 /\ parent' = <<0>> /\ local' = << <<>> >> /\ ret' = RNone
            ELSE LET e == Traces[t][l] IN
                 /\ t' = t /\ l' = l + 1
                 /\ ret' = Exp(e)
                 /\ parent' = IF e.op = "new" THEN Append(parent, e.s) ELSE parent
                 /\ local' = CASE e.op = "new" -> Append(local, <<>>)
                               [] e.op = "set" -> SetF(local, e.s, e.k, e.v)
                               [] OTHER -> local
                 /\ (Exp(e) # e.ret => PrintT(<<"VERIF", "mismatch", t, l, e.op, Exp(e), e.ret>>))
TSpec == TInit /\ [][TNext]_tvars
Done == (t > Len(Traces)) => PrintT(<<"VERIF", "done", Len(Traces)>>)
=============================================================================
