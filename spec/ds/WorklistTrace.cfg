SPECIFICATION TSpec
CONSTANTS
  Item = {1,2,3,4,5,6,7,8,9,10,11,12}
INVARIANT TypeOK
INVARIANT Done
