---------------------------- MODULE WorklistTrace ----------------------------
(* Trace validation for Worklist: replays call logs recorded from the real
   xdsl.utils.worklist.Worklist through the abstract model's operators and compares every
   return value.  Input: JSON file [[{op, x, ret}, ...], ...] (one inner list per trace). *)
EXTENDS Worklist, Json, IOUtils, TLC

Traces == JsonDeserialize(IOEnv.TRACE_FILE)
VARIABLES t, l
tvars == <<items, ret, t, l>>

Exp(e) == CASE e.op = "push" -> RNone
            [] e.op = "remove" -> RNone
            [] e.op = "pop" -> PopRet(items)
            [] e.op = "bool" -> BoolRet(items)
Nxt(e) == CASE e.op = "push" -> PushF(items, e.x)
            [] e.op = "remove" -> RemoveF(items, e.x)
            [] e.op = "pop" -> IF items = <<>> THEN items ELSE PopF(items)
            [] e.op = "bool" -> items

TInit == items = <<>> /\ ret = RNone /\ t = 1 /\ l = 1
TNext == /\ t <= Len(Traces)
         /\ IF l > Len(Traces[t])
            THEN t' = t + 1 /\ l' = 1 /\ items' = <<>> /\ ret' = RNone
            ELSE LET e == Traces[t][l] IN
                 /\ t' = t /\ l' = l + 1
                 /\ ret' = Exp(e)
                 /\ items' = Nxt(e)
                 /\ (Exp(e) # e.ret => PrintT(<<"VERIF", "mismatch", t, l, e.op, Exp(e), e.ret>>))
TSpec == TInit /\ [][TNext]_tvars
Done == (t > Len(Traces)) => PrintT(<<"VERIF", "done", Len(Traces)>>)
=============================================================================
