SPECIFICATION Spec
CONSTANTS
  MaxScopes = 3
  Key = {1, 2}
  Value = {0, 1, 2}
  NoneV = 2
  MaxDepth = 6
INVARIANT Consistent
CONSTRAINT DepthBound
