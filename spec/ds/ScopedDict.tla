----------------------------- MODULE ScopedDict -----------------------------
(* Abstract model of xdsl.utils.scoped_dict.ScopedDict (property C12): a tree of scopes; every
   key resolves to the value in the innermost scope (walking towards the root) that defines it,
   consistently for d[k], d.get(k), d.get(k, default) and `k in d`.
   Values are small integers; value NoneV stands for Python's None stored as a value. *)
EXTENDS Naturals, Sequences, FiniteSets, TLC

CONSTANTS MaxScopes, Key, Value, NoneV, MaxDepth
VARIABLES parent,  \* Seq: parent[s] = parent scope id, 0 for a root
          local,   \* Seq: local[s] = function from a subset of Key to Value
          ret

vars == <<parent, local, ret>>
Scopes == 1 .. Len(parent)

RNone == <<"none", 0>>
RVal(v) == <<"val", v>>
RBool(b) == <<"bool", IF b THEN 1 ELSE 0>>
RRaise == <<"raise", 0>>

\* the innermost scope at or above s defining k, or 0
RECURSIVE Definer(_, _, _, _)
Definer(par, loc, s, k) == IF s = 0 THEN 0
                           ELSE IF k \in DOMAIN loc[s] THEN s
                           ELSE Definer(par, loc, par[s], k)

\* pure result operators (shared with the trace spec)
IndexRet(par, loc, s, k) == LET d == Definer(par, loc, s, k) IN IF d = 0 THEN RRaise ELSE RVal(loc[d][k])
GetRet(par, loc, s, k, dflt) == LET d == Definer(par, loc, s, k) IN IF d = 0 THEN RVal(dflt) ELSE RVal(loc[d][k])
ContainsRet(par, loc, s, k) == RBool(Definer(par, loc, s, k) # 0)
SetF(loc, s, k, v) == [loc EXCEPT ![s] = [x \in DOMAIN loc[s] \cup {k} |-> IF x = k THEN v ELSE loc[s][x]]]

Init == parent = <<0>> /\ local = << <<>> >> /\ ret = RNone

NewScope(p) == /\ p \in Scopes /\ Len(parent) < MaxScopes
               /\ parent' = Append(parent, p) /\ local' = Append(local, <<>>) /\ ret' = RNone
Set(s, k, v) == /\ s \in Scopes /\ local' = SetF(local, s, k, v) /\ ret' = RNone /\ UNCHANGED parent
Index(s, k) == /\ s \in Scopes /\ ret' = IndexRet(parent, local, s, k) /\ UNCHANGED <<parent, local>>
Get(s, k) == /\ s \in Scopes /\ ret' = GetRet(parent, local, s, k, NoneV) /\ UNCHANGED <<parent, local>>
GetDefault(s, k, d) == /\ s \in Scopes /\ ret' = GetRet(parent, local, s, k, d) /\ UNCHANGED <<parent, local>>
Contains(s, k) == /\ s \in Scopes /\ ret' = ContainsRet(parent, local, s, k) /\ UNCHANGED <<parent, local>>

Next == \E s \in 1 .. MaxScopes : \E k \in Key :
          \/ NewScope(s)
          \/ Index(s, k) \/ Get(s, k) \/ Contains(s, k)
          \/ \E v \in Value : Set(s, k, v) \/ GetDefault(s, k, v)
Spec == Init /\ [][Next]_vars

\* all lookup forms agree (a theorem of the model; on the implementation it is checked through ret)
Consistent == \A s \in Scopes : \A k \in Key :
   /\ (ContainsRet(parent, local, s, k) = RBool(TRUE)) <=> (IndexRet(parent, local, s, k) # RRaise)
   /\ IndexRet(parent, local, s, k) # RRaise => \A d \in Value : GetRet(parent, local, s, k, d) = IndexRet(parent, local, s, k)
DepthBound == TLCGet("level") <= MaxDepth
=============================================================================
