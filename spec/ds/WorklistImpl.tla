---------------------------- MODULE WorklistImpl ----------------------------
(* Implementation-shaped model of xdsl/utils/worklist.py: a stack with MISSING tombstones
   and an item -> index map.  Each action transcribes one method.  TLC checks the
   representation invariants and that this module refines Worklist (items = the
   non-tombstone entries of the stack) including every return value. *)
EXTENDS Sequences, Naturals, FiniteSets, TLC

CONSTANTS Item, MaxDepth
MISSING == 0

VARIABLES stack,   \* Seq(Item \cup {MISSING})
          map,     \* [subset of Item -> 0-based index into stack]
          ret

ivars == <<stack, map, ret>>

Abs == INSTANCE Worklist WITH items <- SelectSeq(stack, LAMBDA y : y # MISSING)

RNone == Abs!RNone
RItem(x) == Abs!RItem(x)
RBool(b) == Abs!RBool(b)
RRaise == Abs!RRaise

\* longest prefix of s that does not end in MISSING
RECURSIVE Trim(_)
Trim(s) == IF s # <<>> /\ s[Len(s)] = MISSING THEN Trim(SubSeq(s, 1, Len(s) - 1)) ELSE s

Init == stack = <<>> /\ map = <<>> /\ ret = RNone

\* def __bool__: while self._stack and self._stack[-1] is _MISSING: pop; return bool(self._stack)
Bool == /\ stack' = Trim(stack)
        /\ ret' = RBool(Trim(stack) # <<>>)
        /\ UNCHANGED map

\* def push: if item not in self._map: self._map[item] = len(self._stack); self._stack.append(item)
Push(x) == /\ IF x \in DOMAIN map
              THEN UNCHANGED <<stack, map>>
              ELSE /\ map' = map @@ (x :> Len(stack))
                   /\ stack' = Append(stack, x)
           /\ ret' = RNone

\* def pop: while (item := self._stack.pop()) is _MISSING: pass; del self._map[item]; return item
\*          IndexError when the stack runs out (the tombstones popped on the way stay popped)
Pop == LET t == Trim(stack) IN
       IF t = <<>>
       THEN stack' = <<>> /\ ret' = RRaise /\ UNCHANGED map
       ELSE LET x == t[Len(t)] IN
            /\ stack' = SubSeq(t, 1, Len(t) - 1)
            /\ map' = [y \in DOMAIN map \ {x} |-> map[y]]
            /\ ret' = RItem(x)

\* def remove: if item in self._map: self._stack[self._map[item]] = _MISSING; del self._map[item]
Remove(x) == /\ IF x \in DOMAIN map
                THEN /\ stack' = [stack EXCEPT ![map[x] + 1] = MISSING]
                     /\ map' = [y \in DOMAIN map \ {x} |-> map[y]]
                ELSE UNCHANGED <<stack, map>>
             /\ ret' = RNone

Next == (\E x \in Item : Push(x) \/ Remove(x)) \/ Pop \/ Bool
Spec == Init /\ [][Next]_ivars

\* representation invariants
MapMatchesStack == \A x \in DOMAIN map : map[x] + 1 \in DOMAIN stack /\ stack[map[x] + 1] = x
StackInMap == \A i \in DOMAIN stack : stack[i] # MISSING => (stack[i] \in DOMAIN map /\ map[stack[i]] = i - 1)
ImplInv == MapMatchesStack /\ StackInMap /\ Abs!TypeOK

\* refinement: every step of the implementation is a step (or stutter) of the abstract worklist
Refines == Abs!Spec

DepthBound == TLCGet("level") <= MaxDepth
=============================================================================
