---------------------------- MODULE DisjointSet ----------------------------
(* Abstract model of xdsl.utils.disjoint_set (property C12): the structure represents exactly
   the partition induced by the unions performed; find returns the class representative, which
   is a member of the class; union may pick any member of the merged class as the new
   representative; union_left keeps the representative of the left class. *)
EXTENDS Naturals, FiniteSets, Sequences

CONSTANTS MaxElems, InitElems
VARIABLES n,     \* number of elements; elements are 0 .. n-1
          rep,   \* [0..n-1 -> 0..n-1] : representative of the element's class
          ret

vars == <<n, rep, ret>>
Elems == 0 .. n - 1
Class(x) == {y \in Elems : rep[y] = rep[x]}

RNone == <<"none", 0>>
RVal(x) == <<"val", x>>
RBool(b) == <<"bool", IF b THEN 1 ELSE 0>>
RRaise == <<"raise", 0>>

Init == n = InitElems /\ rep = [x \in 0 .. InitElems - 1 |-> x] /\ ret = RNone

Add == /\ n < MaxElems
       /\ n' = n + 1
       /\ rep' = [x \in 0 .. n |-> IF x = n THEN n ELSE rep[x]]
       /\ ret' = RVal(n)

Find(x) == /\ x \in Elems /\ ret' = RVal(rep[x]) /\ UNCHANGED <<n, rep>>
FindBad(x) == /\ x \notin Elems /\ ret' = RRaise /\ UNCHANGED <<n, rep>>

Merge(a, b, r) == [y \in Elems |-> IF rep[y] = rep[a] \/ rep[y] = rep[b] THEN r ELSE rep[y]]

Union(a, b) == /\ a \in Elems /\ b \in Elems
               /\ IF rep[a] = rep[b]
                  THEN ret' = RBool(FALSE) /\ UNCHANGED <<n, rep>>
                  ELSE /\ \E r \in Class(a) \cup Class(b) : rep' = Merge(a, b, r)
                       /\ ret' = RBool(TRUE) /\ UNCHANGED n

UnionLeft(a, b) == /\ a \in Elems /\ b \in Elems
                   /\ IF rep[a] = rep[b]
                      THEN ret' = RBool(FALSE) /\ UNCHANGED <<n, rep>>
                      ELSE /\ rep' = Merge(a, b, rep[a])
                           /\ ret' = RBool(TRUE) /\ UNCHANGED n

Connected(a, b) == /\ a \in Elems /\ b \in Elems
                   /\ ret' = RBool(rep[a] = rep[b]) /\ UNCHANGED <<n, rep>>

Next == \/ Add
        \/ \E x \in 0 .. MaxElems : Find(x) \/ FindBad(x)
        \/ \E a, b \in 0 .. MaxElems : Union(a, b) \/ UnionLeft(a, b) \/ Connected(a, b)
Spec == Init /\ [][Next]_vars

\* the representative is a member of its own class, and classes partition the elements
RepInv == \A x \in Elems : rep[x] \in Elems /\ rep[rep[x]] = rep[x]
=============================================================================
