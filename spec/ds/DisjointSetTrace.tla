-------------------------- MODULE DisjointSetTrace --------------------------
(* Trace validation for IntDisjointSet / DisjointSet.  This is the subset construction of
   DisjointSet!Next: instead of guessing which member Union chose as representative, the
   monitor keeps for every class the set `cand` of members that may still be its
   representative (all members after Union, the left class's candidates after UnionLeft, a
   single element once Find has revealed it) and checks every logged return value. *)
EXTENDS Naturals, Sequences, FiniteSets, Json, IOUtils, TLC

Traces == JsonDeserialize(IOEnv.TRACE_FILE)
VARIABLES n, cls, cand, t, l
tvars == <<n, cls, cand, t, l>>

Elems == 0 .. n - 1
In(x) == x \in Elems
Bool(b) == IF b THEN 1 ELSE 0

\* verdict of event e in the current state: "ok" or the name of the failing clause
Verdict(e) ==
  CASE e.op = "add" -> IF e.ret = <<"val", n>> THEN "ok" ELSE "AddReturnsPreviousSize"
    [] e.op = "find" ->
         IF ~In(e.x) THEN (IF e.ret[1] = "raise" THEN "ok" ELSE "FindUnknownRaises")
         ELSE IF e.ret[1] # "val" THEN "FindReturnsValue"
         ELSE IF e.ret[2] \notin cls[e.x] THEN "RepresentativeIsMember"
         ELSE IF e.ret[2] \notin cand[e.x] THEN "RepresentativeStableOrLeftKept"
         ELSE "ok"
    [] e.op \in {"union", "union_left"} ->
         IF e.ret = <<"bool", Bool(cls[e.a] # cls[e.b])>> THEN "ok" ELSE "UnionReturnsMerged"
    [] e.op = "connected" ->
         IF e.ret = <<"bool", Bool(cls[e.a] = cls[e.b])>> THEN "ok" ELSE "ConnectedIffSameClass"

TInit == n = 0 /\ cls = <<>> /\ cand = <<>> /\ t = 1 /\ l = 1

Apply(e) ==
  CASE e.op = "add" ->
         /\ n' = n + 1
         /\ cls' = [x \in 0 .. n |-> IF x = n THEN {n} ELSE cls[x]]
         /\ cand' = [x \in 0 .. n |-> IF x = n THEN {n} ELSE cand[x]]
    [] e.op = "find" ->
         /\ UNCHANGED <<n, cls>>
         /\ cand' = IF In(e.x) /\ e.ret[1] = "val" /\ e.ret[2] \in cls[e.x]
                    THEN [y \in Elems |-> IF y \in cls[e.x] THEN {e.ret[2]} ELSE cand[y]]
                    ELSE cand
    [] e.op \in {"union", "union_left"} ->
         /\ n' = n
         /\ IF cls[e.a] = cls[e.b] THEN UNCHANGED <<cls, cand>>
            ELSE LET m == cls[e.a] \cup cls[e.b] IN
                 /\ cls' = [y \in Elems |-> IF y \in m THEN m ELSE cls[y]]
                 /\ cand' = [y \in Elems |-> IF y \in m
                                             THEN (IF e.op = "union" THEN m ELSE cand[e.a])
                                             ELSE cand[y]]
    [] e.op = "connected" -> UNCHANGED <<n, cls, cand>>

TNext == /\ t <= Len(Traces)
         /\ IF l > Len(Traces[t])
            THEN t' = t + 1 /\ l' = 1 /\ n' = 0 /\ cls' = <<>> /\ cand' = <<>>
            ELSE LET e == Traces[t][l] IN
                 /\ t' = t /\ l' = l + 1
                 /\ Apply(e)
                 /\ (Verdict(e) # "ok" => PrintT(<<"VERIF", "mismatch", t, l, e.op, Verdict(e), e.ret>>))
TSpec == TInit /\ [][TNext]_tvars

\* the monitor's own invariants: classes partition the elements, candidates are members
MonInv == \A x \in Elems : x \in cls[x] /\ cand[x] # {} /\ cand[x] \subseteq cls[x]
                            /\ \A y \in cls[x] : cls[y] = cls[x] /\ cand[y] = cand[x]
Done == (t > Len(Traces)) => PrintT(<<"VERIF", "done", Len(Traces)>>)
=============================================================================
