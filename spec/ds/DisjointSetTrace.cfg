SPECIFICATION TSpec
INVARIANT MonInv
INVARIANT Done
