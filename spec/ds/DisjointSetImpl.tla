-------------------------- MODULE DisjointSetImpl --------------------------
(* Implementation-shaped model of IntDisjointSet: parent forest with path compression and
   union by size, transcribed method by method; refines DisjointSet under rep[x] = Root(x). *)
EXTENDS Naturals, FiniteSets, Sequences, TLC

CONSTANTS MaxElems, InitElems, MaxDepth
VARIABLES parent,  \* Seq: parent[x+1] is the parent of element x
          count,   \* Seq: count[x+1] valid for roots
          ret

ivars == <<parent, count, ret>>
N == Len(parent)
Elems == 0 .. N - 1
P(f, x) == f[x + 1]

RECURSIVE RootOf(_, _, _)
RootOf(f, x, fuel) == IF P(f, x) = x \/ fuel = 0 THEN x ELSE RootOf(f, P(f, x), fuel - 1)
Root(f, x) == RootOf(f, x, Len(f))

\* path compression: every node on the path from x to the root now points to the root
RECURSIVE Compress(_, _, _, _)
Compress(f, cur, root, fuel) ==
  IF cur = root \/ fuel = 0 THEN f
  ELSE Compress([f EXCEPT ![cur + 1] = root], P(f, cur), root, fuel - 1)
FindF(f, x) == Compress(f, x, Root(f, x), Len(f))

Abs == INSTANCE DisjointSet WITH n <- Len(parent), rep <- [x \in 0 .. Len(parent) - 1 |-> Root(parent, x)]
RNone == Abs!RNone
RVal(x) == Abs!RVal(x)
RBool(b) == Abs!RBool(b)
RRaise == Abs!RRaise

Init == parent = [i \in 1 .. InitElems |-> i - 1] /\ count = [i \in 1 .. InitElems |-> 1] /\ ret = RNone

Add == /\ N < MaxElems
       /\ parent' = Append(parent, N) /\ count' = Append(count, 1) /\ ret' = RVal(N)

Find(x) == /\ x \in Elems
           /\ parent' = FindF(parent, x) /\ ret' = RVal(Root(parent, x)) /\ UNCHANGED count
FindBad(x) == /\ x \notin Elems /\ ret' = RRaise /\ UNCHANGED <<parent, count>>

UnionLeft(a, b) ==
  /\ a \in Elems /\ b \in Elems
  /\ LET p1 == FindF(parent, a)
         l  == Root(parent, a)
         p2 == FindF(p1, b)
         r  == Root(p1, b)
     IN IF l = r
        THEN parent' = p2 /\ ret' = RBool(FALSE) /\ UNCHANGED count
        ELSE /\ parent' = [p2 EXCEPT ![r + 1] = l]
             /\ count' = [count EXCEPT ![l + 1] = count[l + 1] + count[r + 1]]
             /\ ret' = RBool(TRUE)

Union(a, b) ==
  /\ a \in Elems /\ b \in Elems
  /\ LET p1 == FindF(parent, a)
         l  == Root(parent, a)
         p2 == FindF(p1, b)
         r  == Root(p1, b)
         np == IF count[l + 1] >= count[r + 1] THEN l ELSE r
         nc == IF count[l + 1] >= count[r + 1] THEN r ELSE l
     IN IF l = r
        THEN parent' = p2 /\ ret' = RBool(FALSE) /\ UNCHANGED count
        ELSE /\ parent' = [p2 EXCEPT ![nc + 1] = np]
             /\ count' = [count EXCEPT ![np + 1] = count[l + 1] + count[r + 1]]
             /\ ret' = RBool(TRUE)

Connected(a, b) ==
  /\ a \in Elems /\ b \in Elems
  /\ LET p1 == FindF(parent, a)
         p2 == FindF(p1, b)
     IN parent' = p2 /\ ret' = RBool(Root(parent, a) = Root(p1, b)) /\ UNCHANGED count

Next == \/ Add
        \/ \E x \in 0 .. MaxElems : Find(x) \/ FindBad(x)
        \/ \E a, b \in 0 .. MaxElems : Union(a, b) \/ UnionLeft(a, b) \/ Connected(a, b)
Spec == Init /\ [][Next]_ivars

\* forest is acyclic (following parents reaches a root within N steps) and root counts are class sizes
Acyclic == \A x \in Elems : P(parent, Root(parent, x)) = Root(parent, x)
CountsOK == \A x \in Elems : P(parent, x) = x =>
              count[x + 1] = Cardinality({y \in Elems : Root(parent, y) = x})
ImplInv == Acyclic /\ CountsOK /\ Len(count) = Len(parent)
Refines == Abs!Spec
AbsRepInv == Abs!RepInv
DepthBound == TLCGet("level") <= MaxDepth
=============================================================================
