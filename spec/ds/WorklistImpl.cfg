SPECIFICATION Spec
CONSTANTS
  Item = {1, 2, 3}
  MaxDepth = 7
INVARIANT ImplInv
PROPERTY Refines
CONSTRAINT DepthBound
