SPECIFICATION Spec
CONSTANTS
  MaxElems = 5
  InitElems = 4
  MaxDepth = 6
INVARIANT ImplInv
INVARIANT AbsRepInv
PROPERTY Refines
CONSTRAINT DepthBound
