------------------------------ MODULE Worklist ------------------------------
(* Abstract model of xdsl.utils.worklist.Worklist (property C12):
   a last-in-first-out stack without duplicates from which items can be removed. *)
EXTENDS Sequences, Naturals

CONSTANTS Item          \* a set of integers >= 1
VARIABLES items,        \* Seq(Item), bottom -> top, duplicate free
          ret           \* what the last call returned: <<kind, value>>

vars == <<items, ret>>

Contains(s, x) == \E i \in DOMAIN s : s[i] = x
NoDup(s) == \A i, j \in DOMAIN s : s[i] = s[j] => i = j

RNone == <<"none", 0>>
RItem(x) == <<"item", x>>
RBool(b) == <<"bool", IF b THEN 1 ELSE 0>>
RRaise == <<"raise", 0>>

\* --- primitives as pure operators on the abstract state (reused by the trace spec)
PushF(s, x) == IF Contains(s, x) THEN s ELSE Append(s, x)
RemoveF(s, x) == SelectSeq(s, LAMBDA y : y # x)
PopF(s) == SubSeq(s, 1, Len(s) - 1)
PopRet(s) == IF s = <<>> THEN RRaise ELSE RItem(s[Len(s)])
BoolRet(s) == RBool(s # <<>>)

Init == items = <<>> /\ ret = RNone

Push(x) == items' = PushF(items, x) /\ ret' = RNone
Pop == /\ ret' = PopRet(items)
       /\ items' = IF items = <<>> THEN items ELSE PopF(items)
Remove(x) == items' = RemoveF(items, x) /\ ret' = RNone
Bool == ret' = BoolRet(items) /\ UNCHANGED items

Next == (\E x \in Item : Push(x) \/ Remove(x)) \/ Pop \/ Bool
Spec == Init /\ [][Next]_vars

TypeOK == NoDup(items) /\ \A i \in DOMAIN items : items[i] \in Item
=============================================================================
