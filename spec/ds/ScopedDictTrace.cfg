SPECIFICATION TSpec
CONSTANTS
  MaxScopes = 99
  Key = {1,2,3,4,5,6,7,8,9,10,11,12}
  Value = {0, 1, 2, 3, 4}
  NoneV = 2
  MaxDepth = 0
INVARIANT Done
