SPECIFICATION Spec
INVARIANT EndNote
