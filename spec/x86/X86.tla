--------------------------------- MODULE X86 ---------------------------------
(* C21: an instruction-level model of the x86-64 subset the xDSL backend emits (Intel syntax; 64-bit general purpose registers
   as 8 byte limbs, a stack addressed through rsp), independent of the x86 dialect.  A program is DATA (parsed from the emitted
   assembly by harness/drivers/c21.py):  ins = [op, dst, src (register names or ""), imm (8 limbs), tgt].
   Machine state r = [x |-> [register |-> 8 limbs], mem |-> << <<address, value>> ... >>, pc, status, steps].
   SysV ABI checked by the judge: integer arguments in rdi, rsi, rdx, rcx, r8, r9, further ones on the stack above the return address; result in rax; rbx, rbp, r12-r15 and rsp hold
   their entry values when `ret` executes (and the return address is on top of the stack). *)
EXTENDS BV, TLC

W == 64
Regs == {"rax", "rbx", "rcx", "rdx", "rsi", "rdi", "rbp", "rsp", "r8", "r9", "r10", "r11", "r12", "r13", "r14", "r15"}
CalleeSaved == {"rbx", "rbp", "rsp", "r12", "r13", "r14", "r15"}
Eight == <<8, 0, 0, 0, 0, 0, 0, 0>>
Next1(r) == [r EXCEPT !.pc = @ + 1, !.steps = @ + 1]
Load(r, addr) == IF \E k \in DOMAIN r.mem : r.mem[k][1] = addr THEN r.mem[CHOOSE k \in DOMAIN r.mem : r.mem[k][1] = addr][2] ELSE <<"undef">>
Store(r, addr, v) == IF \E k \in DOMAIN r.mem : r.mem[k][1] = addr
                     THEN [r EXCEPT !.mem = [k \in DOMAIN r.mem |-> IF r.mem[k][1] = addr THEN <<addr, v>> ELSE r.mem[k]]]
                     ELSE [r EXCEPT !.mem = Append(@, <<addr, v>>)]
Src(r, i) == IF i.src = "" THEN i.imm ELSE r.x[i.src]
Step(code, r) ==
  IF r.pc > Len(code) THEN [r EXCEPT !.status = "fell-off-the-end"]
  ELSE LET i == code[r.pc] IN
  CASE i.op = "mov" -> Next1([r EXCEPT !.x[i.dst] = Src(r, i)])
    [] i.op = "add" -> Next1([r EXCEPT !.x[i.dst] = Add(r.x[i.dst], Src(r, i), W)])
    [] i.op = "sub" -> Next1([r EXCEPT !.x[i.dst] = Sub(r.x[i.dst], Src(r, i), W)])
    [] i.op = "imul" -> Next1([r EXCEPT !.x[i.dst] = Mul(r.x[i.dst], Src(r, i), W)])
    [] i.op = "and" -> Next1([r EXCEPT !.x[i.dst] = BAnd(r.x[i.dst], Src(r, i), W)])
    [] i.op = "or" -> Next1([r EXCEPT !.x[i.dst] = BOr(r.x[i.dst], Src(r, i), W)])
    [] i.op = "xor" -> Next1([r EXCEPT !.x[i.dst] = BXor(r.x[i.dst], Src(r, i), W)])
    [] i.op = "neg" -> Next1([r EXCEPT !.x[i.dst] = Neg(r.x[i.dst], W)])
    [] i.op = "not" -> Next1([r EXCEPT !.x[i.dst] = BNot(r.x[i.dst], W)])
    [] i.op = "push" -> LET sp == Sub(r.x["rsp"], Eight, W) IN Next1(Store([r EXCEPT !.x["rsp"] = sp], sp, Src(r, i)))
    [] i.op = "pop" -> LET v == Load(r, r.x["rsp"]) IN
                       IF v = <<"undef">> THEN [r EXCEPT !.status = "pop-of-unwritten-stack"]
                       ELSE Next1([r EXCEPT !.x[i.dst] = v, !.x["rsp"] = Add(r.x["rsp"], Eight, W)])
    [] i.op = "load" -> LET v == Load(r, Add(r.x[i.src], i.imm, W)) IN       \* mov dst, [src + imm]
                        IF v = <<"undef">> THEN [r EXCEPT !.status = "load-of-unwritten-memory"]
                        ELSE Next1([r EXCEPT !.x[i.dst] = v])
    [] i.op = "nop" -> Next1(r)
    [] i.op = "jmp" -> [r EXCEPT !.pc = i.tgt, !.steps = @ + 1]
    [] i.op = "ret" -> [r EXCEPT !.status = "done"]
    [] OTHER -> [r EXCEPT !.status = "unsupported:" \o i.op]
=============================================================================
