------------------------------ MODULE X86Cases ------------------------------
(* Judge for C21.  case = [A (source program for Machine.tla), code (the emitted assembly), nargs, inputs, regs0 (entry values of
   the callee-saved registers), native (per input: [st, rax, saved (callee-saved registers after the call, same order as
   SavedOrder), rspdelta])].  On every input: Machine.tla runs the source, X86.tla the instructions:
     source "done" => target "done", rax = the source's result, callee-saved registers and rsp restored;
   and the natively executed code (assembled by the system assembler, called through a register-checking trampoline) must
   show what X86.tla predicts - a disagreement there means the MODEL is wrong, reported as "ModelDisagreesWithCPU". *)
EXTENDS Machine, Json, IOUtils

X == INSTANCE X86
Cases == JsonDeserialize(IOEnv.CASE_FILE)
Fuel == 4000
ArgRegs == <<"rdi", "rsi", "rdx", "rcx", "r8", "r9">>
SavedOrder == <<"rbx", "rbp", "r12", "r13", "r14", "r15">>
VARIABLES i, j, phase, mA, rB
vars == <<i, j, phase, mA, rB>>
Rsp0 == <<0, 240, 255, 255, 255, 127, 0, 0>>
NReg(c) == IF c.nargs < 6 THEN c.nargs ELSE 6
Reg0(c, inp) == [n \in X!Regs |->
   IF \E k \in 1 .. NReg(c) : ArgRegs[k] = n THEN inp[CHOOSE k \in 1 .. NReg(c) : ArgRegs[k] = n]
   ELSE IF n = "rsp" THEN Rsp0
   ELSE IF n \in X!CalleeSaved THEN c.regs0[n]
   ELSE <<165, 90, 165, 90, 165, 90, 165, 90>>]
\* on entry [rsp] holds the return address and [rsp + 8 (k - 6)] the k-th argument for k > 6
RetAddr == <<16, 50, 84, 118, 152, 186, 220, 254>>
Mem0(c, inp) == << <<Rsp0, RetAddr>> >> \o [k \in 1 .. (c.nargs - NReg(c)) |-> <<X!Add(Rsp0, <<8 * k, 0, 0, 0, 0, 0, 0, 0>>, 64), inp[6 + k]>>]
R0(c, inp) == [x |-> Reg0(c, inp), mem |-> Mem0(c, inp), pc |-> 1, status |-> "run", steps |-> 0]
Init == /\ i \in 1 .. Len(Cases) /\ j \in 1 .. Len(Cases[i].inputs) /\ phase = "run"
        /\ mA = InitMachine(Cases[i].A, 1, Cases[i].inputs[j], 4000)
        /\ rB = R0(Cases[i], Cases[i].inputs[j])
Running(r) == r.status = "run" /\ r.steps < Fuel
Restored(c, r, inp) == \A n \in X!CalleeSaved : r.x[n] = Reg0(c, inp)[n]
Clause(c, inp) ==
  IF mA.status # "done" THEN "ok"
  ELSE IF rB.status # "done" THEN "TargetCompletesWhenSourceDoes:" \o rB.status
  ELSE IF rB.x["rax"] # mA.rets[1] THEN "SameResults"
  ELSE IF ~Restored(c, rB, inp) THEN "CalleeSavedRegistersAndStackPointerRestored"
  ELSE "ok"
NativeClause(c) ==
  LET g == c.native[j] IN
  IF rB.status # "done" \/ g.st # "done" THEN (IF rB.status = "done" /\ g.st # "done" THEN "ModelDisagreesWithCPU:native-run-failed" ELSE "ok")
  ELSE IF g.rax # rB.x["rax"] THEN "ModelDisagreesWithCPU:rax"
  ELSE IF \E k \in DOMAIN SavedOrder : (g.saved[k] = c.regs0[SavedOrder[k]]) # (rB.x[SavedOrder[k]] = c.regs0[SavedOrder[k]]) THEN "ModelDisagreesWithCPU:callee-saved"
  ELSE IF (g.rspdelta = 0) # (rB.x["rsp"] = Rsp0) THEN "ModelDisagreesWithCPU:rsp"
  ELSE "ok"
Next ==
  /\ phase = "run"
  /\ IF mA.status = "run" THEN mA' = Step(Cases[i].A, mA) /\ UNCHANGED <<rB, phase>>
     ELSE IF Running(rB) THEN rB' = X!Step(Cases[i].code, rB) /\ UNCHANGED <<mA, phase>>
     ELSE /\ phase' = "end" /\ UNCHANGED <<mA, rB>>
          /\ LET v == Clause(Cases[i], Cases[i].inputs[j]) IN (v # "ok" => PrintT(<<"VERIF", "mismatch", i, v, j>>))
          /\ LET w == NativeClause(Cases[i]) IN (w # "ok" => PrintT(<<"VERIF", "mismatch", i, w, j>>))
  /\ UNCHANGED <<i, j>>
Spec == Init /\ [][Next]_vars
EndNote == phase = "end" => PrintT(<<"VERIF", "end", i, j, mA.status, rB.status>>)
=============================================================================
