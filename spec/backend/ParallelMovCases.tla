-------------------------- MODULE ParallelMovCases --------------------------
(* Judge for C20: each case is a parallel move plus the instruction sequence the real
   riscv-lower-parallel-mov pass emitted for it (or the fact that it reported failure).
   Case: [regs, floats, moves, free, seq, failed, restypes] *)
EXTENDS ParallelMov, Json, IOUtils, TLC

Cases == JsonDeserialize(IOEnv.CASE_FILE)
VARIABLE i
ToSet(s) == {s[k] : k \in DOMAIN s}

Verdict(c) ==
  LET regs == ToSet(c.regs)
      free == ToSet(c.free)
      floats == ToSet(c.floats)
  IN IF c.failed = 1
     THEN (IF MayFail(c.moves, free, floats) THEN "ok" ELSE "ok-but-gave-up")
     ELSE LET final == Run(regs, c.seq) IN
          IF \E k \in DOMAIN c.moves : ~MoveOK(final, c.moves[k]) THEN "DestinationHoldsOldSource"
          ELSE IF ~Requirement(regs, c.moves, free, final) THEN "OtherRegistersUnchanged"
          ELSE IF c.restypes = 0 THEN "ResultRegistersMatchOutputs"
          ELSE "ok"

\* registers that end up with a wrong value (reported with the verdict, used to key known findings)
BadRegs(c) ==
  IF c.failed = 1 THEN {}
  ELSE LET regs == ToSet(c.regs)
           final == Run(regs, c.seq)
       IN {c.moves[k][2] : k \in {k \in DOMAIN c.moves : ~MoveOK(final, c.moves[k])}}
          \cup {r \in regs \ (Dsts(c.moves) \cup ToSet(c.free) \cup {ZERO}) : final[r] # InitVal(r)}

Init == i = 0
Next == /\ i < Len(Cases) /\ i' = i + 1
        /\ LET v == Verdict(Cases[i + 1]) IN
             (v # "ok" => PrintT(<<"VERIF", "mismatch", i + 1, v, BadRegs(Cases[i + 1])>>))
Spec == Init /\ [][Next]_i
Done == (i = Len(Cases)) => PrintT(<<"VERIF", "done", Len(Cases)>>)
=============================================================================
