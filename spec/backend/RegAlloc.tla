------------------------------ MODULE RegAlloc ------------------------------
(* Register allocation of a straight-line block (property C19), judged on the RESULT of the real allocator.
   case = [ops  |-> << [ins, outs, inouts |-> << <<in, out>> ... >>] ... >>     value ids, program order
           init |-> <<values live on entry (block arguments)>>
           reg  |-> <<register name of every value after allocation ("" = none)>>
           pre  |-> <<register name every value had BEFORE allocation ("" = unallocated)>>
           pool |-> <<names the allocator may hand out>>,  inf |-> <<1 if the value got an 'infinite' register>>
           zero |-> <<1 if the value is the constant zero>>]
   The block is executed on a register file that remembers WHICH VALUE each register currently holds:
   every operand must still be in its register when it is read (no two live values share a register),
   in/out pairs share one register, pre-assigned registers are kept, new registers come from the pool,
   and only the constant zero lives in the hard-wired zero register. *)
EXTENDS Naturals, Sequences, FiniteSets

ZERO == "zero"
AsSet(s) == {s[i] : i \in DOMAIN s}

Write(rf, c, vals) == [r \in DOMAIN rf \cup {c.reg[vals[i]] : i \in DOMAIN vals} |->
                         IF \E i \in DOMAIN vals : c.reg[vals[i]] = r /\ r # ZERO
                         THEN vals[CHOOSE i \in DOMAIN vals : c.reg[vals[i]] = r /\ \A j \in DOMAIN vals : c.reg[vals[j]] = r => j <= i]
                         ELSE IF r \in DOMAIN rf THEN rf[r] ELSE 0]
Holds(rf, c, v) == IF c.reg[v] = ZERO THEN c.zero[v] = 1 \/ c.pre[v] = ZERO
                   ELSE c.reg[v] \in DOMAIN rf /\ rf[c.reg[v]] = v

RECURSIVE ExecFrom(_, _, _)
ExecFrom(c, i, rf) ==      \* "ok" or the index of the first op that reads a clobbered operand (as a string clause)
  IF i > Len(c.ops) THEN "ok"
  ELSE LET o == c.ops[i]
           reads == o.ins \o [k \in DOMAIN o.inouts |-> o.inouts[k][1]]
           writes == o.outs \o [k \in DOMAIN o.inouts |-> o.inouts[k][2]]
       IN IF \E k \in DOMAIN reads : ~Holds(rf, c, reads[k]) THEN "OperandStillInItsRegisterWhenRead"
          ELSE IF \E a, b \in DOMAIN writes : a # b /\ c.reg[writes[a]] = c.reg[writes[b]] /\ c.reg[writes[a]] # ZERO /\ writes[a] # writes[b]
               THEN "ResultsOfOneOperationInDistinctRegisters"
          ELSE ExecFrom(c, i + 1, Write(rf, c, writes))

Clause(c) ==
  LET vals == DOMAIN c.reg
      used == UNION {AsSet(c.ops[i].ins) \cup AsSet(c.ops[i].outs) \cup UNION {AsSet(c.ops[i].inouts[k]) : k \in DOMAIN c.ops[i].inouts} : i \in DOMAIN c.ops}
  IN IF \E v \in used : c.reg[v] = "" THEN "EveryValueAllocated"
     ELSE IF \E v \in vals : c.pre[v] # "" /\ c.reg[v] # c.pre[v] THEN "PreassignedRegistersRespected"
     ELSE IF \E v \in used : c.pre[v] = "" /\ c.inf[v] = 0 /\ c.reg[v] \notin AsSet(c.pool) /\ ~(c.reg[v] = ZERO /\ c.zero[v] = 1)
          THEN "OnlyAllocatableRegistersHandedOut"
     ELSE IF \E i \in DOMAIN c.ops : \E k \in DOMAIN c.ops[i].inouts : c.reg[c.ops[i].inouts[k][1]] # c.reg[c.ops[i].inouts[k][2]]
          THEN "InOutPairsShareARegister"
     ELSE ExecFrom(c, 1, Write(<<>>, c, c.init))
=============================================================================
