SPECIFICATION Spec
INVARIANT Done
