---------------------------- MODULE ParallelMov ----------------------------
(* Property C20: a riscv.parallel_mov is a simultaneous assignment.
   Registers hold SYMBOLIC values so that no numbers have to be chosen: a value is a record
   [lo, hi] of two 32-bit halves, each half a set of tokens under XOR (symmetric difference);
   register r initially holds [lo |-> {<<r,"lo">>}, hi |-> {<<r,"hi">>}], the hard-wired zero
   register always reads as the empty sets and drops writes.  mv / fmv.d copy both halves,
   fmv.s copies the low half and NaN-boxes the high half, xor is symmetric difference, so the
   xor-swap trick is executed exactly.

   Requirement(moves, free, final):  for every move s -> d (d # zero): final[d] equals what s
   held initially (both halves for width 64, the low half for width 32), and every register
   that is neither a destination nor a designated free register is unchanged. *)
EXTENDS Naturals, Sequences, FiniteSets

ZERO == "zero"
Zero == [lo |-> {}, hi |-> {}]
InitVal(r) == IF r = ZERO THEN Zero ELSE [lo |-> {<<r, "lo">>}, hi |-> {<<r, "hi">>}]
Ones == {<<"ones", "hi">>}

Read(rf, r) == IF r = ZERO THEN Zero ELSE rf[r]
Write(rf, r, v) == IF r = ZERO THEN rf ELSE [rf EXCEPT ![r] = v]
SymDiff(a, b) == (a \ b) \cup (b \ a)

\* one emitted instruction  <<op, rd, rs1, rs2>>
Exec(rf, ins) ==
  LET op == ins[1] rd == ins[2] a == Read(rf, ins[3]) IN
  CASE op \in {"mv", "fmv.d"} -> Write(rf, rd, a)
    [] op = "fmv.s" -> Write(rf, rd, [lo |-> a.lo, hi |-> Ones])
    [] op = "xor" -> LET b == Read(rf, ins[4]) IN
                     Write(rf, rd, [lo |-> SymDiff(a.lo, b.lo), hi |-> SymDiff(a.hi, b.hi)])

RECURSIVE RunFrom(_, _, _)
RunFrom(rf, seq, i) == IF i > Len(seq) THEN rf ELSE RunFrom(Exec(rf, seq[i]), seq, i + 1)
Run(regs, seq) == RunFrom([r \in regs |-> InitVal(r)], seq, 1)

\* moves: sequence of <<src, dst, width>>
Dsts(moves) == {moves[i][2] : i \in DOMAIN moves}
MoveOK(final, m) ==
  \/ m[2] = ZERO
  \/ IF m[3] = 64 THEN final[m[2]] = InitVal(m[1])
                  ELSE final[m[2]].lo = InitVal(m[1]).lo
Requirement(regs, moves, free, final) ==
  /\ \A i \in DOMAIN moves : MoveOK(final, moves[i])
  /\ \A r \in regs \ (Dsts(moves) \cup free \cup {ZERO}) : final[r] = InitVal(r)

\* --- when may the pass give up?  Without memory a cyclic float move needs a scratch register.
Src(moves, d) == LET i == CHOOSE i \in DOMAIN moves : moves[i][2] = d IN moves[i][1]
RECURSIVE OnCycleFrom(_, _, _, _)
OnCycleFrom(moves, start, cur, fuel) ==
  IF fuel = 0 THEN FALSE
  ELSE IF cur \notin Dsts(moves) \/ cur = ZERO THEN FALSE
  ELSE LET s == Src(moves, cur) IN
       IF s = cur THEN FALSE
       ELSE IF s = start THEN TRUE ELSE OnCycleFrom(moves, start, s, fuel - 1)
OnCycle(moves, r) == OnCycleFrom(moves, r, r, Len(moves) + 1)
HasFloatCycle(moves, floats) == \E r \in floats : OnCycle(moves, r)
MayFail(moves, free, floats) == HasFloatCycle(moves, floats) /\ free \cap floats = {}
=============================================================================
