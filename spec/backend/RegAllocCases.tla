---------------------------- MODULE RegAllocCases ----------------------------
EXTENDS RegAlloc, Json, IOUtils, TLC
Cases == JsonDeserialize(IOEnv.CASE_FILE)
VARIABLE i
Init == i = 0
Next == /\ i < Len(Cases) /\ i' = i + 1
        /\ LET v == Clause(Cases[i + 1]) IN (v # "ok" => PrintT(<<"VERIF", "mismatch", i + 1, v>>))
Spec == Init /\ [][Next]_i
Done == (i = Len(Cases)) => PrintT(<<"VERIF", "done", Len(Cases)>>)
=============================================================================
