SPECIFICATION Spec
INVARIANT Done
