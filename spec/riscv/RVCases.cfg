SPECIFICATION Spec
INVARIANT EndNote
