------------------------------- MODULE RVCases -------------------------------
(* Judge for C22.  case = [kind, A (source program for Machine.tla; kind "compile"), codeA (kind "canon": assembly before
   canonicalisation), code (the emitted assembly), nargs, nres, inputs << << 4-limb argument ... >> ... >>, regs0 (entry values
   of callee-saved registers and sp)].
   kind "compile": Machine.tla runs the source, RV.tla the emitted instructions, on every input:
     source "done"  =>  target "done", a0.. = the source's results, callee-saved registers and sp restored.
   kind "canon": both instruction sequences run under RV.tla; same status, a0, a1 and callee-saved registers.
   kind "abi":   a riscv-level function that writes s-registers, before (codeA) and after (code) prologue/epilogue insertion:
                 same a0, and after insertion the callee-saved registers and sp are restored. *)
EXTENDS Machine, Json, IOUtils

RVm == INSTANCE RV
Cases == JsonDeserialize(IOEnv.CASE_FILE)
Fuel == 6000
ArgRegs == <<"a0", "a1", "a2", "a3", "a4", "a5", "a6", "a7">>
VARIABLES i, j, phase, mA, rA, rB
vars == <<i, j, phase, mA, rA, rB>>
Dummy == [stack |-> <<>>, status |-> "done", rets |-> <<>>, eff |-> <<>>, fuel |-> 0, heap |-> <<>>, pz |-> 0]
Reg0(c, inp) == [n \in RVm!Regs |->
   IF \E k \in 1 .. c.nargs : ArgRegs[k] = n THEN inp[CHOOSE k \in 1 .. c.nargs : ArgRegs[k] = n]
   ELSE IF n = "sp" THEN <<0, 0, 255, 127>>
   ELSE IF n \in RVm!CalleeSaved THEN c.regs0[n]
   ELSE <<165, 90, 165, 90>>]              \* caller-saved / scratch registers start with junk
R0(c, inp) == [x |-> Reg0(c, inp), mem |-> <<>>, pc |-> 1, status |-> "run", steps |-> 0]
Init == /\ i \in 1 .. Len(Cases) /\ j \in 1 .. Len(Cases[i].inputs) /\ phase = "run"
        /\ mA = IF Cases[i].kind = "compile" THEN InitMachine(Cases[i].A, 1, Cases[i].inputs[j], 4000) ELSE Dummy
        /\ rA = IF Cases[i].kind \in {"canon", "abi"} THEN R0(Cases[i], Cases[i].inputs[j]) ELSE [status |-> "done"]
        /\ rB = R0(Cases[i], Cases[i].inputs[j])
Running(r) == r.status = "run" /\ r.steps < Fuel
Restored(c, r, inp) == \A n \in RVm!CalleeSaved : r.x[n] = Reg0(c, inp)[n]
Clause(c, inp) ==
  IF c.kind = "compile" THEN
    IF mA.status # "done" \/ mA.pz = 1 THEN "ok"                      \* no obligation (ub / poison / fuel / unsupported source)
    ELSE IF rB.status # "done" THEN "TargetCompletesWhenSourceDoes:" \o rB.status
    ELSE IF \E k \in 1 .. c.nres : ~IsPoison(mA.rets[k]) /\ Trunc(rB.x[ArgRegs[k]], Len(mA.rets[k]) * 8) # mA.rets[k] THEN "SameResults"
    ELSE IF ~Restored(c, rB, inp) THEN "CalleeSavedRegistersAndStackPointerRestored"
    ELSE "ok"
  ELSE IF c.kind = "abi" THEN      \* codeA: the function before riscv-prologue-epilogue-insertion, code: after it
    IF rA.status # "done" THEN "ok"
    ELSE IF rB.status # "done" THEN "TargetCompletesWhenSourceDoes:" \o rB.status
    ELSE IF rA.x["a0"] # rB.x["a0"] THEN "SameResults"
    ELSE IF ~Restored(c, rB, inp) THEN "CalleeSavedRegistersAndStackPointerRestored"
    ELSE "ok"
  ELSE
    IF rA.status # "done" THEN "ok"
    ELSE IF rB.status # "done" THEN "CanonicalizedCodeCompletes:" \o rB.status
    ELSE IF rA.x["a0"] # rB.x["a0"] \/ rA.x["a1"] # rB.x["a1"] THEN "CanonicalizationKeepsResults"
    ELSE IF \E n \in RVm!CalleeSaved : rA.x[n] # rB.x[n] THEN "CanonicalizationKeepsCalleeSaved"
    ELSE "ok"
Next ==
  /\ phase = "run"
  /\ IF mA.status = "run" THEN mA' = Step(Cases[i].A, mA) /\ UNCHANGED <<rA, rB, phase>>
     ELSE IF Running(rA) THEN rA' = RVm!Step(Cases[i].codeA, rA) /\ UNCHANGED <<mA, rB, phase>>
     ELSE IF Running(rB) THEN rB' = RVm!Step(Cases[i].code, rB) /\ UNCHANGED <<mA, rA, phase>>
     ELSE /\ phase' = "end" /\ UNCHANGED <<mA, rA, rB>>
          /\ LET v == Clause(Cases[i], Cases[i].inputs[j]) IN (v # "ok" => PrintT(<<"VERIF", "mismatch", i, v, j>>))
  /\ UNCHANGED <<i, j>>
Spec == Init /\ [][Next]_vars
EndNote == phase = "end" => PrintT(<<"VERIF", "end", i, j, IF Cases[i].kind = "compile" THEN mA.status ELSE rA.status, rB.status>>)
=============================================================================
