--------------------------------- MODULE RV ---------------------------------
(* C22: an instruction-level model of RV32IM (integer registers, a word-addressed stack), independent of the xDSL
   RISC-V dialect's own interpreter.  A program is DATA (parsed from the emitted assembly by harness/drivers/c22.py):
     code = << ins ... >>,  ins = [op, rd, rs1, rs2 (register names), imm (4 limbs, already sign-extended), tgt (index of the
     instruction a branch / jump goes to, 0 = none)]
   Machine state r = [x |-> [register name |-> 4 limbs], mem |-> << <<address limbs, value limbs>> ... >>, pc, status, steps].
   `zero` reads as 0 and ignores writes.  Division follows the RISC-V M extension (x / 0 = -1, x % 0 = x, INT_MIN / -1 = INT_MIN,
   INT_MIN % -1 = 0); shifts use the low 5 bits of the amount.  `ret` halts ("done").
   Calling convention checked by the judge: arguments in a0.., results in a0, a1; s0-s11 and sp hold their entry values at `ret`. *)
EXTENDS BV, TLC

W == 32
Regs == {"zero", "ra", "sp", "gp", "tp", "t0", "t1", "t2", "s0", "s1", "a0", "a1", "a2", "a3", "a4", "a5", "a6", "a7",
         "s2", "s3", "s4", "s5", "s6", "s7", "s8", "s9", "s10", "s11", "t3", "t4", "t5", "t6"}
CalleeSaved == {"sp", "s0", "s1", "s2", "s3", "s4", "s5", "s6", "s7", "s8", "s9", "s10", "s11"}
Rd(r, n) == IF n = "zero" THEN Zero(W) ELSE r.x[n]
Wr(r, n, v) == IF n = "zero" THEN r ELSE [r EXCEPT !.x[n] = v]
Next1(r) == [r EXCEPT !.pc = @ + 1, !.steps = @ + 1]
B(b) == IF b THEN One(W) ELSE Zero(W)
Sh(v) == v[1] % 32
DivS(a, b) == IF IsZero(b) THEN AllOnes(W) ELSE IF a = IntMin(W) /\ b = AllOnes(W) THEN a ELSE SDiv(a, b, W)
RemS(a, b) == IF IsZero(b) THEN a ELSE IF a = IntMin(W) /\ b = AllOnes(W) THEN Zero(W) ELSE SRem(a, b, W)
DivU(a, b) == IF IsZero(b) THEN AllOnes(W) ELSE UDiv(a, b, W)
RemU(a, b) == IF IsZero(b) THEN a ELSE URem(a, b, W)
MulH(a, b) == MulSExt(a, b, W)[2]
MulHU(a, b) == MulUExt(a, b, W)[2]
Load(r, addr) == IF \E k \in DOMAIN r.mem : r.mem[k][1] = addr THEN r.mem[CHOOSE k \in DOMAIN r.mem : r.mem[k][1] = addr][2] ELSE <<"undef">>
Store(r, addr, v) == IF \E k \in DOMAIN r.mem : r.mem[k][1] = addr
                     THEN [r EXCEPT !.mem = [k \in DOMAIN r.mem |-> IF r.mem[k][1] = addr THEN <<addr, v>> ELSE r.mem[k]]]
                     ELSE [r EXCEPT !.mem = Append(@, <<addr, v>>)]
RR == {"add", "sub", "mul", "mulh", "mulhu", "div", "divu", "rem", "remu", "and", "or", "xor", "sll", "srl", "sra", "slt", "sltu"}
RI == {"addi", "andi", "ori", "xori", "slli", "srli", "srai", "slti", "sltiu"}
BR == {"beq", "bne", "blt", "bge", "bltu", "bgeu"}
Alu(op, a, b) ==
  CASE op \in {"add", "addi"} -> Add(a, b, W) [] op = "sub" -> Sub(a, b, W) [] op = "mul" -> Mul(a, b, W)
    [] op = "mulh" -> MulH(a, b) [] op = "mulhu" -> MulHU(a, b)
    [] op = "div" -> DivS(a, b) [] op = "divu" -> DivU(a, b) [] op = "rem" -> RemS(a, b) [] op = "remu" -> RemU(a, b)
    [] op \in {"and", "andi"} -> BAnd(a, b, W) [] op \in {"or", "ori"} -> BOr(a, b, W) [] op \in {"xor", "xori"} -> BXor(a, b, W)
    [] op \in {"sll", "slli"} -> Shl(a, Sh(b), W) [] op \in {"srl", "srli"} -> LShr(a, Sh(b), W) [] op \in {"sra", "srai"} -> AShr(a, Sh(b), W)
    [] op \in {"slt", "slti"} -> B(SLt(a, b, W)) [] op \in {"sltu", "sltiu"} -> B(ULt(a, b))
Taken(op, a, b) ==
  CASE op = "beq" -> a = b [] op = "bne" -> a # b [] op = "blt" -> SLt(a, b, W) [] op = "bge" -> ~SLt(a, b, W)
    [] op = "bltu" -> ULt(a, b) [] op = "bgeu" -> ~ULt(a, b)

Step(code, r) ==
  IF r.pc > Len(code) THEN [r EXCEPT !.status = "fell-off-the-end"]
  ELSE LET i == code[r.pc] IN
  CASE i.op \in RR -> Next1(Wr(r, i.rd, Alu(i.op, Rd(r, i.rs1), Rd(r, i.rs2))))
    [] i.op \in RI -> Next1(Wr(r, i.rd, Alu(i.op, Rd(r, i.rs1), i.imm)))
    [] i.op = "li" -> Next1(Wr(r, i.rd, i.imm))
    [] i.op = "lui" -> Next1(Wr(r, i.rd, Shl(i.imm, 12, W)))
    [] i.op = "mv" -> Next1(Wr(r, i.rd, Rd(r, i.rs1)))
    [] i.op = "neg" -> Next1(Wr(r, i.rd, Neg(Rd(r, i.rs1), W)))
    [] i.op = "not" -> Next1(Wr(r, i.rd, BNot(Rd(r, i.rs1), W)))
    [] i.op = "seqz" -> Next1(Wr(r, i.rd, B(IsZero(Rd(r, i.rs1)))))
    [] i.op = "snez" -> Next1(Wr(r, i.rd, B(~IsZero(Rd(r, i.rs1)))))
    [] i.op = "nop" -> Next1(r)
    [] i.op \in BR -> IF Taken(i.op, Rd(r, i.rs1), Rd(r, i.rs2)) THEN [r EXCEPT !.pc = i.tgt, !.steps = @ + 1] ELSE Next1(r)
    [] i.op = "j" -> [r EXCEPT !.pc = i.tgt, !.steps = @ + 1]
    [] i.op = "sw" -> Next1(Store(r, Add(Rd(r, i.rs1), i.imm, W), Rd(r, i.rs2)))
    [] i.op = "lw" -> LET v == Load(r, Add(Rd(r, i.rs1), i.imm, W)) IN
                      IF v = <<"undef">> THEN [r EXCEPT !.status = "load-of-unwritten-memory"] ELSE Next1(Wr(r, i.rd, v))
    [] i.op = "ret" -> [r EXCEPT !.status = "done"]
    [] OTHER -> [r EXCEPT !.status = "unsupported:" \o i.op]
=============================================================================
