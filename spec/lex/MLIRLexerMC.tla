---------------------------- MODULE MLIRLexerMC ----------------------------
(* Every text over Sigma up to length MaxLen (one completed text per state, two levels so that the workers share
   the enumeration): the lexer makes progress on every token, ends in EOF or a diagnostic, and every token it
   hands out satisfies its contract. *)
EXTENDS MLIRLexer, TLC
CONSTANT MaxLen
AlwaysTrue == TRUE
VARIABLES x, stage
vars == <<x, stage>>
Sigma == {97, 120, 101, 48, 49, 95, 46, 45, 62, 123, 125, 35, 64, 34, 92, 110, 102, 37, 33, 47, 10, 32, 43, 58, 233, 178, 1635, 128512}
RECURSIVE Texts(_)
Texts(n) == IF n = 0 THEN {<<>>} ELSE LET S == Texts(n - 1) IN S \cup {Append(s, c) : s \in {u \in S : Len(u) = n - 1}, c \in Sigma}
Init == stage = 0 /\ x \in {t \in Texts(2) : Len(t) = 2}
Next == /\ stage = 0 /\ stage' = 1
        /\ x' \in {x \o u : u \in Texts(MaxLen - 2)} \cup (IF x = <<97, 97>> THEN Texts(1) ELSE {})
Spec == Init /\ [][Next]_vars
Toks == Tokens(x, 1)
Terminates == stage = 1 => \A k \in DOMAIN Toks : Progress(x, IF k = 1 THEN 1 ELSE Toks[k - 1].hi, Toks[k]) \/ Toks[k].k = "ERR"
EndsInEofOrDiagnostic == stage = 1 => Toks[Len(Toks)].k \in {"EOF", "ERR"}
TokensKeepTheirContract == stage = 1 => \A k \in DOMAIN Toks : Contract(x, Toks[k])
=============================================================================
