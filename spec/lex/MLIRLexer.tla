----------------------------- MODULE MLIRLexer -----------------------------
(* The MLIR lexer (property C07) as a function from a text (sequence of code points) and a position to the next
   token, transcribed from MLIRLexer.lex and its helpers in xdsl/utils/mlir_lexer.py.

   Python's character predicates are parameters of the transcription: IsAlpha is str.isalpha, IsLeadDigit is the
   predicate that sends a character to _lex_number.  For ASCII they are the obvious ranges; for the handful of
   non-ASCII characters the harness uses, membership is listed below (and asserted against Python by the harness).
   The token contracts at the end are what the parser relies on when it converts a token (int(), float(), decoding
   of a quoted symbol name): a lexer that hands out a token violating its contract makes the parser fail with an
   internal error instead of a diagnostic. *)
EXTENDS Naturals, Sequences, FiniteSets

Digit(c) == c \in 48 .. 57
Lower(c) == c \in 97 .. 122
Upper(c) == c \in 65 .. 90
Letter(c) == Lower(c) \/ Upper(c)
Hex(c) == Digit(c) \/ c \in 65 .. 70 \/ c \in 97 .. 102
\* non-ASCII characters of the harness alphabet: e-acute, CJK "middle", Greek alpha | superscript two, vulgar half, Arabic-Indic three | emoji, nbsp
AlphaX == {233, 20013, 945}
NumericX == {178, 189, 1635}
DecimalX == {1635}            \* str.isdecimal: digits int() understands
IsAlpha(c) == Letter(c) \/ c \in AlphaX
IsNumeric(c) == Digit(c) \/ c \in NumericX
LeadDigitsAreNumeric == FALSE   \* the pinned commit used str.isnumeric (MLIRLexerMC overrides this to refute the contract)
IsLeadDigit(c) == IF LeadDigitsAreNumeric THEN IsNumeric(c) ELSE Digit(c)
AsciiSpace(c) == c \in {9, 10, 11, 12, 13, 32}                        \* \s under re.ASCII
IdSuffix(c) == Letter(c) \/ Digit(c) \/ c \in {95, 36, 46}            \* [a-zA-Z0-9_$.]
SufFirst(c) == Letter(c) \/ c \in {36, 46, 95, 45}                    \* [a-zA-Z$._-]
SufRest(c) == SufFirst(c) \/ Digit(c)

RunEnd(t, p, P(_)) == CHOOSE q \in p .. (Len(t) + 1) : (\A j \in p .. (q - 1) : P(t[j])) /\ (q = Len(t) + 1 \/ ~P(t[q]))
At(t, p, c) == p <= Len(t) /\ t[p] = c

\* ((//[^\n]*(\n)?)|(\s+))*
RECURSIVE SkipWs(_, _)
SkipWs(t, p) ==
  IF p > Len(t) THEN p
  ELSE IF At(t, p, 47) /\ At(t, p + 1, 47)
       THEN LET e == RunEnd(t, p + 2, LAMBDA c : c # 10) IN SkipWs(t, IF e <= Len(t) THEN e + 1 ELSE e)
  ELSE IF AsciiSpace(t[p]) THEN SkipWs(t, RunEnd(t, p, AsciiSpace))
  ELSE p

\* "(?:[^"\\\n\v\f]+|\\(?:["nt\\]|[0-9A-Fa-f]{2}))*"   from the opening quote at p; 0 = no match, else end (exclusive)
RECURSIVE StrEnd(_, _)
StrEnd(t, j) ==
  IF j > Len(t) THEN 0
  ELSE IF t[j] = 34 THEN j + 1
  ELSE IF t[j] = 92
       THEN (IF j + 1 <= Len(t) /\ t[j + 1] \in {34, 110, 116, 92} THEN StrEnd(t, j + 2)
             ELSE IF j + 2 <= Len(t) /\ Hex(t[j + 1]) /\ Hex(t[j + 2]) THEN StrEnd(t, j + 3)
             ELSE 0)
  ELSE IF t[j] \in {10, 11, 12} THEN 0
  ELSE StrEnd(t, j + 1)
StringLit(t, p) == IF At(t, p, 34) THEN StrEnd(t, p + 1) ELSE 0

(* ---- UTF-8 of the unescaped contents (StringLiteral.bytes_contents), to tell STRING_LIT from BYTES_LIT ---- *)
HexVal(c) == IF c <= 57 THEN c - 48 ELSE IF c <= 70 THEN c - 55 ELSE c - 87
Utf8(c) == IF c < 128 THEN <<c>>
           ELSE IF c < 2048 THEN <<192 + (c \div 64), 128 + (c % 64)>>
           ELSE IF c < 65536 THEN <<224 + (c \div 4096), 128 + ((c \div 64) % 64), 128 + (c % 64)>>
           ELSE <<240 + (c \div 262144), 128 + ((c \div 4096) % 64), 128 + ((c \div 64) % 64), 128 + (c % 64)>>
RECURSIVE Unesc(_, _, _, _)
Unesc(t, j, e, acc) ==
  IF j > e THEN acc
  ELSE IF t[j] # 92 THEN Unesc(t, j + 1, e, acc \o Utf8(t[j]))
  ELSE IF t[j + 1] \in {110, 116, 92, 34}
       THEN Unesc(t, j + 2, e, Append(acc, CASE t[j + 1] = 110 -> 10 [] t[j + 1] = 116 -> 9 [] OTHER -> t[j + 1]))
  ELSE Unesc(t, j + 3, e, Append(acc, 16 * HexVal(t[j + 1]) + HexVal(t[j + 2])))
In(b, j, lo, hi) == j <= Len(b) /\ b[j] >= lo /\ b[j] <= hi
RECURSIVE ValidUtf8(_, _)
ValidUtf8(b, j) ==
  IF j > Len(b) THEN TRUE
  ELSE LET x == b[j] IN
    IF x < 128 THEN ValidUtf8(b, j + 1)
    ELSE IF x \in 194 .. 223 /\ In(b, j + 1, 128, 191) THEN ValidUtf8(b, j + 2)
    ELSE IF x \in 224 .. 239 /\ In(b, j + 1, IF x = 224 THEN 160 ELSE 128, IF x = 237 THEN 159 ELSE 191) /\ In(b, j + 2, 128, 191) THEN ValidUtf8(b, j + 3)
    ELSE IF x \in 240 .. 244 /\ In(b, j + 1, IF x = 240 THEN 144 ELSE 128, IF x = 244 THEN 143 ELSE 191) /\ In(b, j + 2, 128, 191) /\ In(b, j + 3, 128, 191)
         THEN ValidUtf8(b, j + 4)
    ELSE FALSE
Decodable(t, lo, hi) == ValidUtf8(Unesc(t, lo + 1, hi - 2, <<>>), 1)      \* lo = opening quote, hi = end (exclusive)
HasBackslash(t, lo, hi) == \E j \in lo .. (hi - 1) : t[j] = 92

T(k, lo, hi) == [k |-> k, lo |-> lo, hi |-> hi]
Err(lo, hi) == [k |-> "ERR", lo |-> lo, hi |-> hi]
Punct == [c \in {58, 44, 40, 41, 125, 91, 93, 60, 62, 61, 43, 47, 42, 63, 124} |->
            CASE c = 58 -> "COLON" [] c = 44 -> "COMMA" [] c = 40 -> "L_PAREN" [] c = 41 -> "R_PAREN" [] c = 125 -> "R_BRACE"
              [] c = 91 -> "L_SQUARE" [] c = 93 -> "R_SQUARE" [] c = 60 -> "LESS" [] c = 62 -> "GREATER" [] c = 61 -> "EQUAL"
              [] c = 43 -> "PLUS" [] c = 47 -> "SLASH" [] c = 42 -> "STAR" [] c = 63 -> "QUESTION" [] c = 124 -> "VERTICAL_BAR"]

\* _lex_number; s = position of the first digit (already consumed)
Number(t, s) ==
  IF t[s] = 48 /\ At(t, s + 1, 120) /\ s + 2 <= Len(t) /\ Hex(t[s + 2])
  THEN T("INTEGER_LIT", s, RunEnd(t, s + 2, Hex))
  ELSE LET d == IF s + 1 <= Len(t) THEN RunEnd(t, s + 1, Digit) ELSE s + 1 IN
       IF At(t, d, 46)
       THEN LET f == IF d + 1 <= Len(t) THEN RunEnd(t, d + 1, Digit) ELSE d + 1 IN
            IF f <= Len(t) /\ t[f] \in {69, 101}
            THEN LET es == IF f + 1 <= Len(t) /\ t[f + 1] \in {43, 45} THEN f + 2 ELSE f + 1
                     ed == IF es <= Len(t) THEN RunEnd(t, es, Digit) ELSE es
                 IN T("FLOAT_LIT", s, IF ed > es THEN ed ELSE f)
            ELSE T("FLOAT_LIT", s, f)
       ELSE T("INTEGER_LIT", s, d)

\* the token that starts at or after p (white space and comments skipped first)
Lex(t, p0) ==
  LET s == SkipWs(t, p0) IN
  IF s > Len(t) THEN T("EOF", s, s + 1)      \* _get_chars advances even at the end
  ELSE LET c == t[s] IN
    IF IsAlpha(c) \/ c = 95 THEN T("BARE_IDENT", s, IF s + 1 <= Len(t) THEN RunEnd(t, s + 1, IdSuffix) ELSE s + 1)
    ELSE IF c \in DOMAIN Punct THEN T(Punct[c], s, s + 1)
    ELSE IF c = 46 THEN (IF At(t, s + 1, 46) /\ At(t, s + 2, 46) THEN T("ELLIPSIS", s, s + 3) ELSE Err(s, s + 1))
    ELSE IF c = 45 THEN (IF At(t, s + 1, 62) THEN T("ARROW", s, s + 2) ELSE T("MINUS", s, s + 1))
    ELSE IF c = 123 THEN (IF At(t, s + 1, 45) /\ At(t, s + 2, 35) THEN T("FILE_METADATA_BEGIN", s, s + 3) ELSE T("L_BRACE", s, s + 1))
    ELSE IF c = 35 /\ At(t, s + 1, 45) /\ At(t, s + 2, 125) THEN T("FILE_METADATA_END", s, s + 3)
    ELSE IF c = 64 THEN
         (IF s + 1 > Len(t) THEN Err(s, s + 1)
          ELSE IF IsAlpha(t[s + 1]) \/ t[s + 1] = 95 THEN T("AT_IDENT", s, IF s + 2 <= Len(t) THEN RunEnd(t, s + 2, IdSuffix) ELSE s + 2)
          ELSE IF t[s + 1] = 34 THEN (IF StringLit(t, s + 1) # 0 THEN T("AT_IDENT", s, StringLit(t, s + 1)) ELSE Err(s + 1, s + 2))
          ELSE Err(s, s + 2))
    ELSE IF c \in {35, 33, 94, 37} THEN
         (LET kind == CASE c = 35 -> "HASH_IDENT" [] c = 33 -> "EXCLAMATION_IDENT" [] c = 94 -> "CARET_IDENT" [] OTHER -> "PERCENT_IDENT" IN
          IF s + 1 <= Len(t) /\ Digit(t[s + 1]) THEN T(kind, s, RunEnd(t, s + 1, Digit))
          ELSE IF s + 1 <= Len(t) /\ SufFirst(t[s + 1]) THEN T(kind, s, RunEnd(t, s + 1, SufRest))
          ELSE Err(s, s + 1))
    ELSE IF c = 34 THEN
         (LET e == StringLit(t, s) IN
          IF e = 0 THEN Err(s, s + 1)
          ELSE IF e = s + 2 \/ ~HasBackslash(t, s, e) \/ Decodable(t, s, e) THEN T("STRING_LIT", s, e) ELSE T("BYTES_LIT", s, e))
    ELSE IF IsLeadDigit(c) THEN Number(t, s)
    ELSE Err(s, s + 1)

RECURSIVE Tokens(_, _)
Tokens(t, p) == LET tk == Lex(t, p) IN IF tk.k \in {"EOF", "ERR"} THEN <<tk>> ELSE <<tk>> \o Tokens(t, tk.hi)

(* ---- contracts between lexer and parser ---- *)
Lexeme(t, tk) == SubSeq(t, tk.lo, tk.hi - 1)
AllDigits(s) == s # <<>> /\ \A k \in DOMAIN s : Digit(s[k])
IntegerWellFormed(s) == AllDigits(s) \/ (Len(s) >= 3 /\ s[1] = 48 /\ s[2] = 120 /\ \A k \in 3 .. Len(s) : Hex(s[k]))
FloatWellFormed(s) ==       \* [0-9]+ \. [0-9]* ([eE][+-]?[0-9]+)?
  \E d \in 2 .. Len(s) : /\ s[d] = 46 /\ AllDigits(SubSeq(s, 1, d - 1))
     /\ LET rest == SubSeq(s, d + 1, Len(s)) IN
        \/ \A k \in DOMAIN rest : Digit(rest[k])
        \/ \E e \in DOMAIN rest : /\ rest[e] \in {69, 101} /\ (\A k \in 1 .. (e - 1) : Digit(rest[k]))
              /\ LET x == SubSeq(rest, e + 1, Len(rest)) IN
                 AllDigits(x) \/ (Len(x) >= 2 /\ x[1] \in {43, 45} /\ AllDigits(Tail(x)))
Contract(t, tk) ==
  CASE tk.k = "INTEGER_LIT" -> IntegerWellFormed(Lexeme(t, tk))
    [] tk.k = "FLOAT_LIT" -> FloatWellFormed(Lexeme(t, tk))
    [] tk.k = "STRING_LIT" -> Decodable(t, tk.lo, tk.hi)
    [] OTHER -> TRUE
Progress(t, p, tk) == tk.k = "EOF" \/ (tk.hi > tk.lo /\ tk.lo >= p /\ tk.hi <= Len(t) + 1)
=============================================================================
