--------------------------- MODULE MLIRLexerCases ---------------------------
(* Judge for C07.  Case: [text, toks, out, slow]
     toks  what the real MLIRLexer produced: << <<kind, lo, hi>> ... >> ending in EOF or in <<"ERR", lo, hi>> (ParseError span)
           or <<"EXC", 0, 0>> (any other exception), or <<>> if the lexer was not run on its own for this text
     out   what Parser.parse_module did with the text: "ok", "ParseError", "VerifyException", another exception's class name,
           "" when not run
     slow  1 when lexing + parsing exceeded the CPU-time budget for the length of the text
     growth  for the long instance of a probe shape: CPU time per character in percent of the short instance's (0 = not compared)
   Property clauses (violations): FailsOnlyWithDiagnostics, TerminatesPromptly, TimeProportionalToLength.
   Binding clauses (divergences): LexerMatchesModel, LexicalErrorIsRejected (a text with a lexical error never parses). *)
EXTENDS MLIRLexer, Json, IOUtils, TLC

Cases == JsonDeserialize(IOEnv.CASE_FILE)
VARIABLE i
Diagnostics == {"ok", "ParseError", "VerifyException", ""}
MaxGrowthPercent == 400     \* CPU time per character at ten times the length, in percent of the short instance (100 = linear)
ModelToks(t) == LET ts == Tokens(t, 1) IN [k \in DOMAIN ts |-> <<ts[k].k, ts[k].lo, ts[k].hi>>]
Failing(c) ==
  LET m == ModelToks(c.text) IN
  (IF c.out \notin Diagnostics \/ (c.toks # <<>> /\ c.toks[Len(c.toks)][1] = "EXC") THEN {"FailsOnlyWithDiagnostics"} ELSE {})
  \cup (IF c.slow = 1 THEN {"TerminatesPromptly"} ELSE {})
  \cup (IF c.growth > MaxGrowthPercent THEN {"TimeProportionalToLength"} ELSE {})
  \cup (IF c.toks # <<>> /\ c.toks[Len(c.toks)][1] # "EXC" /\ c.toks # m THEN {"LexerMatchesModel"} ELSE {})
  \cup (IF c.out = "ok" /\ m[Len(m)][1] = "ERR" THEN {"LexicalErrorIsRejected"} ELSE {})
Init == i = 0
Next == /\ i < Len(Cases) /\ i' = i + 1
        /\ \A cl \in Failing(Cases[i + 1]) : PrintT(<<"VERIF", "mismatch", i + 1, cl>>)
Spec == Init /\ [][Next]_i
Done == (i = Len(Cases)) => PrintT(<<"VERIF", "done", Len(Cases)>>)
=============================================================================
