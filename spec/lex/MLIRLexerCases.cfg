SPECIFICATION Spec
INVARIANT Done
