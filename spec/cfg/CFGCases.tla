------------------------------ MODULE CFGCases ------------------------------
(* Conformance judge for C24: every case is a graph together with what the real
   DominanceInfo / PostOrderIterator returned for it; TLC evaluates the declarative
   definitions of CFG.tla and reports each case whose implementation result differs.
   Case: [g |-> <<succ seqs>>, dom |-> <<<<a,b>>...>> (pairs with dominates(a,b) true),
          sdom |-> (same for strictly_dominates), po |-> <<blocks in iteration order>>] *)
EXTENDS CFG, Json, IOUtils, TLC

Cases == JsonDeserialize(IOEnv.CASE_FILE)
VARIABLE i

Pairs(s) == {<<s[k][1], s[k][2]>> : k \in DOMAIN s}

Verdict(c) ==
  LET g == c.g
      D == Pairs(c.dom)
      S == Pairs(c.sdom)
      R == Reach(g)
  IN IF \E a \in Nodes(g), b \in R : (<<a, b>> \in D) # Dom(g, a, b) THEN "DominatesIffEveryPath"
     ELSE IF \E a \in Nodes(g), b \in R : (<<a, b>> \in S) # SDom(g, a, b) THEN "StrictExcludesEquality"
     ELSE IF ~NoDup(c.po) THEN "PostOrderExactlyOnce"
     ELSE IF ~(Range(c.po) \subseteq R) THEN "PostOrderNoUnreachable"
     ELSE IF Range(c.po) # R THEN "PostOrderEveryReachable"
     ELSE IF c.po = <<>> \/ c.po[Len(c.po)] # Entry THEN "PostOrderEntryLast"
     ELSE "ok"

Init == i = 0
Next == /\ i < Len(Cases) /\ i' = i + 1
        /\ LET v == Verdict(Cases[i + 1]) IN (v # "ok" => PrintT(<<"VERIF", "mismatch", i + 1, v>>))
Spec == Init /\ [][Next]_i
Done == (i = Len(Cases)) => PrintT(<<"VERIF", "done", Len(Cases)>>)
=============================================================================
