SPECIFICATION Spec
INVARIANT Done
