-------------------------------- MODULE CFG --------------------------------
(* Control-flow graphs of a region and the graph-theoretic definitions property C24 refers to.
   A graph is a function from block number (1 = entry) to the sequence of its terminator's
   successors; multi-edges and self-loops are allowed. *)
EXTENDS Naturals, Sequences, FiniteSets

Nodes(g) == DOMAIN g
Entry == 1
SuccSet(g, b) == {g[b][i] : i \in DOMAIN g[b]}
Range(s) == {s[i] : i \in DOMAIN s}
NoDup(s) == \A i, j \in DOMAIN s : s[i] = s[j] => i = j

\* least fixpoint: blocks reachable from `from` without ever entering a block of `avoid`
RECURSIVE Close(_, _, _)
Close(g, set, avoid) ==
  LET nxt == set \cup {y \in UNION {SuccSet(g, x) : x \in set} : y \notin avoid}
  IN IF nxt = set THEN set ELSE Close(g, nxt, avoid)

Reach(g) == Close(g, {Entry}, {})
ReachAvoiding(g, a) == IF a = Entry THEN {} ELSE Close(g, {Entry}, {a})

(* a dominates b  ==  b is reachable and every path entry ->* b contains a,
   i.e. b cannot be reached once a is removed from the graph. *)
Dom(g, a, b) == b \in Reach(g) /\ (a = b \/ b \notin ReachAvoiding(g, a))
SDom(g, a, b) == Dom(g, a, b) /\ a # b

(* The same relation by literal enumeration of simple paths (sanity theorem checked by TLC on
   all small graphs: a block lies on every path iff it lies on every simple path). *)
RECURSIVE PathsFrom(_, _, _)
PathsFrom(g, p, target) ==   \* simple paths extending p (ending in Last(p)) that end in target
  LET last == p[Len(p)] IN
  (IF last = target THEN {p} ELSE {}) \cup
  UNION {PathsFrom(g, Append(p, y), target) : y \in SuccSet(g, last) \ Range(p)}
SimplePaths(g, b) == PathsFrom(g, <<Entry>>, b)
DomByPaths(g, a, b) == SimplePaths(g, b) # {} /\ \A p \in SimplePaths(g, b) : a \in Range(p)

\* C24's requirement on a post-order iteration result
PostOrderOK(g, po) == /\ NoDup(po)
                      /\ Range(po) = Reach(g)
                      /\ po # <<>> /\ po[Len(po)] = Entry
\* (stronger, informative) po is the post-order of *some* depth-first search from the entry:
\* every block appears after all blocks first discovered from it.  Not required by C24.

AllGraphs(N, MaxOut) == [1 .. N -> UNION {[1 .. k -> 1 .. N] : k \in 0 .. MaxOut}]
=============================================================================
