SPECIFICATION Spec
CONSTANTS
  N = 3
  MaxOut = 2
  Fixed = FALSE
INVARIANT DomCorrect
INVARIANT POCorrect
INVARIANT DefsAgree
CONSTRAINT Sequential
