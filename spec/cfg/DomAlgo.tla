------------------------------ MODULE DomAlgo ------------------------------
(* xdsl/irdl/dominance.py DominanceInfo.__init__ and xdsl/ir/post_order.py PostOrderIterator
   transcribed as state machines over an arbitrary graph.  TLC starts from EVERY graph with N
   blocks and out-degree <= MaxOut and checks at termination that the algorithms compute the
   declarative relations of CFG.tla. *)
EXTENDS CFG, TLC

CONSTANTS N, MaxOut, Fixed   \* Fixed = TRUE: the code after the fix: commits (see known_findings.json)

VARIABLES g,
          dom, changed, idx, dpc,        \* DominanceInfo.__init__
          stack, seen, out, ppc          \* PostOrderIterator
vars == <<g, dom, changed, idx, dpc, stack, seen, out, ppc>>

All == 1 .. N
Pred(b) == {p \in All : b \in SuccSet(g, p)}
RECURSIVE InterAll(_, _)
InterAll(S, f) == IF S = {} THEN All ELSE LET x == CHOOSE x \in S : TRUE IN f[x] \cap InterAll(S \ {x}, f)

Init == /\ g \in AllGraphs(N, MaxOut)
        /\ dom = [b \in All |-> IF b = Entry THEN {Entry} ELSE All]
        /\ changed = FALSE /\ idx = 2 /\ dpc = "sweep"
        /\ stack = << <<Entry, FALSE>> >> /\ seen = {Entry} /\ out = <<>> /\ ppc = "iter"

\* for b in blocks: self._dominance[b] = {b} | (intersection of dominators of preds  if pred[b] else <empty / all>)
DomVisit == /\ dpc = "sweep" /\ idx <= N
            /\ LET b == idx
                   new == {b} \cup (IF Pred(b) # {} THEN InterAll(Pred(b), dom)
                                    ELSE IF Fixed THEN All ELSE {})
               IN /\ dom' = [dom EXCEPT ![b] = new]
                  /\ changed' = (changed \/ new # dom[b])
            /\ idx' = idx + 1 /\ UNCHANGED <<g, dpc, stack, seen, out, ppc>>
\* while changed: ...
DomEndSweep == /\ dpc = "sweep" /\ idx > N
               /\ IF changed THEN idx' = 2 /\ changed' = FALSE /\ dpc' = dpc
                             ELSE dpc' = "done" /\ UNCHANGED <<idx, changed>>
               /\ UNCHANGED <<g, dom, stack, seen, out, ppc>>

\* one call of __next__: pop; while not visited: push (block, True); push unseen successors
\* reversed; mark successors seen; pop
RECURSIVE Descend(_, _, _, _)
Descend(stk, sn, block, visited) ==
  IF visited THEN <<stk, sn, block>>
  ELSE LET succs == g[block]
           revd == [i \in 1 .. Len(succs) |-> succs[Len(succs) + 1 - i]]
           \* unfixed: filter against `seen` as it was before the whole extension
           pushU == SelectSeq(revd, LAMBDA x : x \notin sn)
           \* fixed: successors are marked seen one by one, so a repeated successor is pushed once
           pushF == SelectSeq([i \in 1 .. Len(revd) |-> IF \E j \in 1 .. i - 1 : revd[j] = revd[i] THEN 0 ELSE revd[i]],
                              LAMBDA x : x # 0 /\ x \notin sn)
           push == IF Fixed THEN pushF ELSE pushU
           stk2 == Append(stk, <<block, TRUE>>) \o [i \in 1 .. Len(push) |-> <<push[i], FALSE>>]
           top == stk2[Len(stk2)]
       IN Descend(SubSeq(stk2, 1, Len(stk2) - 1), sn \cup Range(succs), top[1], top[2])

PONext == /\ ppc = "iter" /\ stack # <<>>
          /\ LET top == stack[Len(stack)]
                 r == Descend(SubSeq(stack, 1, Len(stack) - 1), seen, top[1], top[2])
             IN stack' = r[1] /\ seen' = r[2] /\ out' = Append(out, r[3])
          /\ UNCHANGED <<g, dom, changed, idx, dpc, ppc>>
POStop == /\ ppc = "iter" /\ stack = <<>> /\ ppc' = "done"
          /\ UNCHANGED <<g, dom, changed, idx, dpc, stack, seen, out>>

Next == DomVisit \/ DomEndSweep \/ PONext \/ POStop
Spec == Init /\ [][Next]_vars

\* --- what TLC checks
DomCorrect == dpc = "done" => \A b \in Reach(g) : \A a \in All : (a \in dom[b]) <=> Dom(g, a, b)
POCorrect == ppc = "done" => PostOrderOK(g, out)
PONeverLong == Len(out) <= N + 2
DefsAgree == \A a, b \in All : Dom(g, a, b) <=> DomByPaths(g, a, b)
\* the two machines are independent; explore them one after the other to avoid a product
Sequential == ppc = "iter" => (dpc = "sweep" /\ idx = 2 /\ ~changed /\ dom = [b \in All |-> IF b = Entry THEN {Entry} ELSE All])
=============================================================================
