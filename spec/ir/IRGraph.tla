------------------------------- MODULE IRGraph -------------------------------
(* Abstract model of the xDSL IR object graph and its public mutators (properties C01, C02).
   The state is ONE record `ir` (DESIGN §3.0); every mutator is a pure operator F(s, args)
   returning the next record, guarded by its documented precondition Pre_F(s, args).  Composite
   Rewriter calls are compositions of the primitives.  Objects are small integers drawn from
   fixed pools; a fresh object is always the lowest free id (the harness numbers the real
   objects in creation order, so ids agree).
     ost/bst/rst/vst : "free" | "live" | "dead"
     opar[o] block (0 = detached)      oopn[o] operand values      osuc[o] successor blocks
     ores[o] result values             oreg[o] regions
     bpar[b] region                    bops[b] ops in order        barg[b] argument values
     rpar[r] op                        rblk[r] blocks in order                               *)
EXTENDS Naturals, Sequences, FiniteSets, TLC

CONSTANTS NOps, NBlocks, NRegions, NVals

OpIds == 1 .. NOps
BlkIds == 1 .. NBlocks
RegIds == 1 .. NRegions
ValIds == 1 .. NVals

\* ---------------------------------------------------------------- sequence helpers
Has(s, x) == \E i \in DOMAIN s : s[i] = x
Idx(s, x) == CHOOSE i \in DOMAIN s : s[i] = x
Without(s, x) == SelectSeq(s, LAMBDA y : y # x)
InsAt(s, i, x) == SubSeq(s, 1, i - 1) \o <<x>> \o SubSeq(s, i, Len(s))      \* x becomes element i
InsSeqAt(s, i, xs) == SubSeq(s, 1, i - 1) \o xs \o SubSeq(s, i, Len(s))
RemAt(s, i) == SubSeq(s, 1, i - 1) \o SubSeq(s, i + 1, Len(s))
AsSet(s) == {s[i] : i \in DOMAIN s}
MinOf(S) == CHOOSE x \in S : \A y \in S : x <= y

\* ---------------------------------------------------------------- views
LiveOps(s) == {o \in OpIds : s.ost[o] = "live"}
LiveBlks(s) == {b \in BlkIds : s.bst[b] = "live"}
LiveRegs(s) == {r \in RegIds : s.rst[r] = "live"}
LiveVals(s) == {v \in ValIds : s.vst[v] = "live"}
FreeOps(s) == {o \in OpIds : s.ost[o] = "free"}
FreeBlks(s) == {b \in BlkIds : s.bst[b] = "free"}
FreeRegs(s) == {r \in RegIds : s.rst[r] = "free"}
FreeVals(s) == {v \in ValIds : s.vst[v] = "free"}

Users(s, v) == {o \in LiveOps(s) : Has(s.oopn[o], v)}
Preds(s, b) == {o \in LiveOps(s) : Has(s.osuc[o], b)}

\* containment: everything nested (transitively) in op o / block b / region r
RECURSIVE OpsUnderOp(_, _), OpsUnderBlk(_, _), OpsUnderReg(_, _)
OpsUnderOp(s, o) == {o} \cup UNION {OpsUnderReg(s, s.oreg[o][i]) : i \in DOMAIN s.oreg[o]}
OpsUnderReg(s, r) == UNION {OpsUnderBlk(s, s.rblk[r][i]) : i \in DOMAIN s.rblk[r]}
OpsUnderBlk(s, b) == UNION {OpsUnderOp(s, s.bops[b][i]) : i \in DOMAIN s.bops[b]}
RegsUnderOps(s, S) == UNION {AsSet(s.oreg[o]) : o \in S}
BlksUnderOps(s, S) == UNION {AsSet(s.rblk[r]) : r \in RegsUnderOps(s, S)}
ValsOfOps(s, S) == UNION {AsSet(s.ores[o]) : o \in S}
ValsOfBlks(s, B) == UNION {AsSet(s.barg[b]) : b \in B}

\* ancestors of a block (ops that contain it), by climbing
RECURSIVE OpAncestorsOfBlk(_, _, _)
OpAncestorsOfBlk(s, b, fuel) ==
  IF fuel = 0 \/ b = 0 THEN {}
  ELSE LET r == s.bpar[b] IN
       IF r = 0 THEN {}
       ELSE LET p == s.rpar[r] IN
            IF p = 0 THEN {} ELSE {p} \cup OpAncestorsOfBlk(s, s.opar[p], fuel - 1)
AncOfBlk(s, b) == OpAncestorsOfBlk(s, b, NOps + 1)
AncOfOp(s, o) == AncOfBlk(s, s.opar[o])
AncOfReg(s, r) == IF s.rpar[r] = 0 THEN {} ELSE {s.rpar[r]} \cup AncOfOp(s, s.rpar[r])

\* ---------------------------------------------------------------- creation
CanCreateOp(s, nres, nreg) == FreeOps(s) # {} /\ Cardinality(FreeVals(s)) >= nres /\ Cardinality(FreeRegs(s)) >= nreg
RECURSIVE TakeFree(_, _)
TakeFree(S, n) == IF n = 0 THEN <<>> ELSE <<MinOf(S)>> \o TakeFree(S \ {MinOf(S)}, n - 1)
CreateOpF(s, opn, suc, nres, nreg) ==
  LET o == MinOf(FreeOps(s))
      rs == TakeFree(FreeVals(s), nres)
      gs == TakeFree(FreeRegs(s), nreg)
  IN [s EXCEPT !.ost[o] = "live", !.oopn[o] = opn, !.osuc[o] = suc, !.ores[o] = rs, !.oreg[o] = gs,
               !.vst = [v \in ValIds |-> IF Has(rs, v) THEN "live" ELSE s.vst[v]],
               !.rst = [r \in RegIds |-> IF Has(gs, r) THEN "live" ELSE s.rst[r]],
               !.rpar = [r \in RegIds |-> IF Has(gs, r) THEN o ELSE s.rpar[r]]]
CanCreateBlock(s, nargs) == FreeBlks(s) # {} /\ Cardinality(FreeVals(s)) >= nargs
CreateBlockF(s, nargs) ==
  LET b == MinOf(FreeBlks(s))
      as == TakeFree(FreeVals(s), nargs)
  IN [s EXCEPT !.bst[b] = "live", !.barg[b] = as,
               !.vst = [v \in ValIds |-> IF Has(as, v) THEN "live" ELSE s.vst[v]]]
CanCreateRegion(s) == FreeRegs(s) # {}
CreateRegionF(s) == [s EXCEPT !.rst[MinOf(FreeRegs(s))] = "live"]

\* ---------------------------------------------------------------- ops in blocks
\* Block._attach_op: the op is detached and is not an ancestor of the block
PreAttachOp(s, o, b) == o \in LiveOps(s) /\ b \in LiveBlks(s) /\ s.opar[o] = 0 /\ o \notin AncOfBlk(s, b)
AddOpF(s, b, o) == [s EXCEPT !.bops[b] = Append(@, o), !.opar[o] = b]
PreInsertOpBefore(s, o, e) == e \in LiveOps(s) /\ s.opar[e] # 0 /\ PreAttachOp(s, o, s.opar[e]) /\ o # e
InsertOpBeforeF(s, o, e) == LET b == s.opar[e] IN
  [s EXCEPT !.bops[b] = InsAt(@, Idx(@, e), o), !.opar[o] = b]
InsertOpAfterF(s, o, e) == LET b == s.opar[e] IN
  [s EXCEPT !.bops[b] = InsAt(@, Idx(@, e) + 1, o), !.opar[o] = b]
PreDetachOp(s, o) == o \in LiveOps(s) /\ s.opar[o] # 0
DetachOpF(s, o) == [s EXCEPT !.bops[s.opar[o]] = Without(@, o), !.opar[o] = 0]

\* Operation.erase (safe): the op is detached, its results are unused; it and everything nested in
\* it leave the universe, their operand/successor uses disappear with them.  To stay inside the
\* documented use of the API no value defined inside the erased tree may be used outside it.
ErasableTree(s, S, B) == \A v \in ValsOfOps(s, S) \cup ValsOfBlks(s, B) : Users(s, v) \subseteq S
PreEraseDetachedOp(s, o) == /\ o \in LiveOps(s) /\ s.opar[o] = 0
                            /\ \A i \in DOMAIN s.ores[o] : Users(s, s.ores[o][i]) = {}
                            /\ LET S == OpsUnderOp(s, o) IN
                               /\ ErasableTree(s, S, BlksUnderOps(s, S))
                               /\ \A b \in BlksUnderOps(s, S) : Preds(s, b) \subseteq S
KillF(s, S, B, R) ==   \* ops S, blocks B, regions R die
  LET V == ValsOfOps(s, S) \cup ValsOfBlks(s, B) IN
  [s EXCEPT !.ost = [o \in OpIds |-> IF o \in S THEN "dead" ELSE s.ost[o]],
            !.bst = [b \in BlkIds |-> IF b \in B THEN "dead" ELSE s.bst[b]],
            !.rst = [r \in RegIds |-> IF r \in R THEN "dead" ELSE s.rst[r]],
            !.vst = [v \in ValIds |-> IF v \in V THEN "dead" ELSE s.vst[v]]]
EraseDetachedOpF(s, o) == LET S == OpsUnderOp(s, o) IN KillF(s, S, BlksUnderOps(s, S), RegsUnderOps(s, S))
PreEraseOp(s, o) == PreDetachOp(s, o) /\ PreEraseDetachedOp([s EXCEPT !.opar[o] = 0], o)
EraseOpF(s, o) == EraseDetachedOpF(DetachOpF(s, o), o)

\* Block.split_before(o): ops from o on move to a new block inserted right after the old one
PreSplitBefore(s, o) == PreDetachOp(s, o) /\ s.bpar[s.opar[o]] # 0 /\ CanCreateBlock(s, 0)
SplitBeforeF(s, o) ==
  LET b == s.opar[o]
      r == s.bpar[b]
      nb == MinOf(FreeBlks(s))
      k == Idx(s.bops[b], o)
      moved == SubSeq(s.bops[b], k, Len(s.bops[b]))
  IN [s EXCEPT !.bst[nb] = "live", !.barg[nb] = <<>>, !.bpar[nb] = r,
               !.bops = [x \in BlkIds |-> IF x = b THEN SubSeq(s.bops[b], 1, k - 1)
                                          ELSE IF x = nb THEN moved ELSE s.bops[x]],
               !.opar = [x \in OpIds |-> IF Has(moved, x) THEN nb ELSE s.opar[x]],
               !.rblk[r] = InsAt(@, Idx(@, b) + 1, nb)]

\* ---------------------------------------------------------------- blocks in regions
PreAttachBlock(s, b, r) == /\ b \in LiveBlks(s) /\ r \in LiveRegs(s) /\ s.bpar[b] = 0
                           /\ AsSet(s.bops[b]) \cap ({s.rpar[r]} \cup AncOfReg(s, r)) = {}   \* b is not an ancestor of r
                           /\ \A o \in OpsUnderBlk(s, b) : r \notin AsSet(s.oreg[o])
AddBlockF(s, r, b) == [s EXCEPT !.rblk[r] = Append(@, b), !.bpar[b] = r]
PreInsertBlockBefore(s, b, t) == t \in LiveBlks(s) /\ s.bpar[t] # 0 /\ b # t /\ PreAttachBlock(s, b, s.bpar[t])
InsertBlockBeforeF(s, b, t) == LET r == s.bpar[t] IN [s EXCEPT !.rblk[r] = InsAt(@, Idx(@, t), b), !.bpar[b] = r]
InsertBlockAfterF(s, b, t) == LET r == s.bpar[t] IN [s EXCEPT !.rblk[r] = InsAt(@, Idx(@, t) + 1, b), !.bpar[b] = r]
PreDetachBlock(s, b) == b \in LiveBlks(s) /\ s.bpar[b] # 0
DetachBlockF(s, b) == [s EXCEPT !.rblk[s.bpar[b]] = Without(@, b), !.bpar[b] = 0]
\* Block.erase (safe) of a detached block
PreEraseDetachedBlock(s, b) == /\ b \in LiveBlks(s) /\ s.bpar[b] = 0
                               /\ LET S == OpsUnderBlk(s, b) IN
                                  /\ ErasableTree(s, S, {b} \cup BlksUnderOps(s, S))
                                  /\ \A x \in {b} \cup BlksUnderOps(s, S) : Preds(s, x) \subseteq S
EraseDetachedBlockF(s, b) == LET S == OpsUnderBlk(s, b) IN KillF(s, S, {b} \cup BlksUnderOps(s, S), RegsUnderOps(s, S))
PreEraseBlock(s, b) == PreDetachBlock(s, b) /\ PreEraseDetachedBlock([s EXCEPT !.bpar[b] = 0], b)
EraseBlockF(s, b) == EraseDetachedBlockF(DetachBlockF(s, b), b)

\* Region.move_blocks(dest) / move_blocks_before(target)
PreMoveBlocks(s, r, d) == /\ r \in LiveRegs(s) /\ d \in LiveRegs(s) /\ r # d
                          /\ \A i \in DOMAIN s.rblk[r] : \A o \in OpsUnderBlk(s, s.rblk[r][i]) : d \notin AsSet(s.oreg[o])
MoveBlocksF(s, r, d) ==
  [s EXCEPT !.rblk = [x \in RegIds |-> IF x = r THEN <<>> ELSE IF x = d THEN s.rblk[d] \o s.rblk[r] ELSE s.rblk[x]],
            !.bpar = [b \in BlkIds |-> IF Has(s.rblk[r], b) THEN d ELSE s.bpar[b]]]
PreMoveBlocksBefore(s, r, t) == t \in LiveBlks(s) /\ s.bpar[t] # 0 /\ PreMoveBlocks(s, r, s.bpar[t])
MoveBlocksBeforeF(s, r, t) == LET d == s.bpar[t] IN
  [s EXCEPT !.rblk = [x \in RegIds |-> IF x = r THEN <<>> ELSE IF x = d THEN InsSeqAt(s.rblk[d], Idx(s.rblk[d], t), s.rblk[r]) ELSE s.rblk[x]],
            !.bpar = [b \in BlkIds |-> IF Has(s.rblk[r], b) THEN d ELSE s.bpar[b]]]

\* ---------------------------------------------------------------- regions in ops
PreAddRegion(s, o, r) == /\ o \in LiveOps(s) /\ r \in LiveRegs(s) /\ s.rpar[r] = 0
                         /\ o \notin OpsUnderReg(s, r)
AddRegionF(s, o, r) == [s EXCEPT !.oreg[o] = Append(@, r), !.rpar[r] = o]
PreDetachRegion(s, r) == r \in LiveRegs(s) /\ s.rpar[r] # 0
DetachRegionF(s, r) == [s EXCEPT !.oreg[s.rpar[r]] = Without(@, r), !.rpar[r] = 0]

\* ---------------------------------------------------------------- operands / successors / values
PreSetOperand(s, o, i, v) == o \in LiveOps(s) /\ i \in DOMAIN s.oopn[o] /\ v \in LiveVals(s)
SetOperandF(s, o, i, v) == [s EXCEPT !.oopn[o][i] = v]
PreSetOperands(s, o, vs) == o \in LiveOps(s) /\ AsSet(vs) \subseteq LiveVals(s)
SetOperandsF(s, o, vs) == [s EXCEPT !.oopn[o] = vs]
PreSetSuccessors(s, o, bs) == o \in LiveOps(s) /\ AsSet(bs) \subseteq LiveBlks(s)
SetSuccessorsF(s, o, bs) == [s EXCEPT !.osuc[o] = bs]
PreRAUW(s, v, w) == v \in LiveVals(s) /\ w \in LiveVals(s)
RAUWF(s, v, w) == [s EXCEPT !.oopn = [o \in OpIds |-> IF o \in LiveOps(s)
                                         THEN [i \in DOMAIN s.oopn[o] |-> IF s.oopn[o][i] = v THEN w ELSE s.oopn[o][i]]
                                         ELSE s.oopn[o]]]
PreInsertArg(s, b, i) == b \in LiveBlks(s) /\ i \in 1 .. Len(s.barg[b]) + 1 /\ FreeVals(s) # {}
InsertArgF(s, b, i) == LET v == MinOf(FreeVals(s)) IN [s EXCEPT !.barg[b] = InsAt(@, i, v), !.vst[v] = "live"]
PreEraseArg(s, b, i) == b \in LiveBlks(s) /\ i \in DOMAIN s.barg[b] /\ Users(s, s.barg[b][i]) = {}
EraseArgF(s, b, i) == [s EXCEPT !.barg[b] = RemAt(@, i), !.vst[s.barg[b][i]] = "dead"]

\* ---------------------------------------------------------------- Rewriter composites
\* Rewriter.replace_op(o, [n]) : results of o replaced by those of n, n inserted after o, o erased
RECURSIVE RAUWSeq(_, _, _, _)
RAUWSeq(s, olds, news, i) == IF i > Len(olds) THEN s ELSE RAUWSeq(RAUWF(s, olds[i], news[i]), olds, news, i + 1)
PreReplaceOp(s, o, n) == /\ PreDetachOp(s, o) /\ n \in LiveOps(s) /\ n # o /\ s.opar[n] = 0
                         /\ Len(s.ores[n]) = Len(s.ores[o]) /\ n \notin AncOfBlk(s, s.opar[o])
                         /\ PreEraseOp(InsertOpAfterF(RAUWSeq(s, s.ores[o], s.ores[n], 1), n, o), o)
ReplaceOpF(s, o, n) == EraseOpF(InsertOpAfterF(RAUWSeq(s, s.ores[o], s.ores[n], 1), n, o), o)

\* Rewriter.inline_block(src, InsertPoint.before(e)) without argument values: src's args must be unused
PreInlineBlockBefore(s, src, e) ==
  /\ src \in LiveBlks(s) /\ e \in LiveOps(s) /\ s.opar[e] # 0 /\ s.opar[e] # src
  /\ \A i \in DOMAIN s.barg[src] : Users(s, s.barg[src][i]) = {}
  /\ Preds(s, src) = {}
  /\ \A i \in DOMAIN s.bops[src] : s.bops[src][i] \notin AncOfBlk(s, s.opar[e])
InlineBlockBeforeF(s, src, e) ==
  LET d == s.opar[e]
      moved == s.bops[src]
      s1 == [s EXCEPT !.bops = [x \in BlkIds |-> IF x = src THEN <<>>
                                                 ELSE IF x = d THEN InsSeqAt(s.bops[d], Idx(s.bops[d], e), moved)
                                                 ELSE s.bops[x]],
                      !.opar = [x \in OpIds |-> IF Has(moved, x) THEN d ELSE s.opar[x]]]
      s2 == IF s1.bpar[src] # 0 THEN DetachBlockF(s1, src) ELSE s1
  IN KillF(s2, {}, {src}, {})
PreInlineBlockAtEnd(s, src, d) ==
  /\ src \in LiveBlks(s) /\ d \in LiveBlks(s) /\ d # src
  /\ \A i \in DOMAIN s.barg[src] : Users(s, s.barg[src][i]) = {}
  /\ Preds(s, src) = {}
  /\ \A i \in DOMAIN s.bops[src] : s.bops[src][i] \notin AncOfBlk(s, d)
InlineBlockAtEndF(s, src, d) ==
  LET moved == s.bops[src]
      s1 == [s EXCEPT !.bops = [x \in BlkIds |-> IF x = src THEN <<>> ELSE IF x = d THEN s.bops[d] \o moved ELSE s.bops[x]],
                      !.opar = [x \in OpIds |-> IF Has(moved, x) THEN d ELSE s.opar[x]]]
      s2 == IF s1.bpar[src] # 0 THEN DetachBlockF(s1, src) ELSE s1
  IN KillF(s2, {}, {src}, {})

\* ---------------------------------------------------------------- the invariant (C01 at the abstract level)
NoDup(q) == \A i, j \in DOMAIN q : q[i] = q[j] => i = j
WellFormed(s) ==
  /\ \A b \in LiveBlks(s) : NoDup(s.bops[b]) /\ \A i \in DOMAIN s.bops[b] : s.bops[b][i] \in LiveOps(s) /\ s.opar[s.bops[b][i]] = b
  /\ \A o \in LiveOps(s) : s.opar[o] # 0 => s.opar[o] \in LiveBlks(s) /\ Has(s.bops[s.opar[o]], o)
  /\ \A r \in LiveRegs(s) : NoDup(s.rblk[r]) /\ \A i \in DOMAIN s.rblk[r] : s.rblk[r][i] \in LiveBlks(s) /\ s.bpar[s.rblk[r][i]] = r
  /\ \A b \in LiveBlks(s) : s.bpar[b] # 0 => s.bpar[b] \in LiveRegs(s) /\ Has(s.rblk[s.bpar[b]], b)
  /\ \A o \in LiveOps(s) : NoDup(s.oreg[o]) /\ \A i \in DOMAIN s.oreg[o] : s.oreg[o][i] \in LiveRegs(s) /\ s.rpar[s.oreg[o][i]] = o
  /\ \A r \in LiveRegs(s) : s.rpar[r] # 0 => s.rpar[r] \in LiveOps(s) /\ Has(s.oreg[s.rpar[r]], r)
  /\ \A o \in LiveOps(s) : o \notin AncOfOp(s, o)
  /\ \A o \in LiveOps(s) : AsSet(s.oopn[o]) \subseteq LiveVals(s) /\ AsSet(s.osuc[o]) \subseteq LiveBlks(s)

EmptyIR == [ost |-> [o \in OpIds |-> "free"], opar |-> [o \in OpIds |-> 0], oopn |-> [o \in OpIds |-> <<>>],
            osuc |-> [o \in OpIds |-> <<>>], ores |-> [o \in OpIds |-> <<>>], oreg |-> [o \in OpIds |-> <<>>],
            bst |-> [b \in BlkIds |-> "free"], bpar |-> [b \in BlkIds |-> 0], bops |-> [b \in BlkIds |-> <<>>],
            barg |-> [b \in BlkIds |-> <<>>],
            rst |-> [r \in RegIds |-> "free"], rpar |-> [r \in RegIds |-> 0], rblk |-> [r \in RegIds |-> <<>>],
            vst |-> [v \in ValIds |-> "free"]]
=============================================================================
