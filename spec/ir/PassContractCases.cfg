SPECIFICATION Spec
INVARIANT Done
