------------------------------- MODULE IRProj -------------------------------
(* Property C01 as a predicate over a PROJECTION of real xDSL IR objects.
   c = [ops, blocks, regions, vals]: sequences indexed by object id (0 = none), produced by
   harness/project.py by walking the real pointers:
     ops[o]     = [alive, parent (block), operands (vals), succs (blocks), results (vals), regions]
     blocks[b]  = [alive, parent (region), fwd, bwd (op walks first->next / last->prev), args,
                   ufwd, ubwd (use chain first_use->_next_use and back via _prev_use: <<op, pos>>)]
     regions[r] = [alive, parent (op), fwd, bwd (block walks)]
     vals[v]    = [alive, kind ("res"/"arg"/...), owner, index (stored), ufwd, ubwd]
   WellFormedClause(c) returns "ok" or the name of the first clause of C01 that fails. *)
EXTENDS Naturals, Sequences, FiniteSets

Rev(s) == [i \in 1 .. Len(s) |-> s[Len(s) + 1 - i]]
NoDup(s) == \A i, j \in DOMAIN s : s[i] = s[j] => i = j
Has(s, x) == \E i \in DOMAIN s : s[i] = x
Count(s, x) == Cardinality({i \in DOMAIN s : s[i] = x})

LiveOps(c) == {o \in DOMAIN c.ops : c.ops[o].alive = 1}
LiveBlocks(c) == {b \in DOMAIN c.blocks : c.blocks[b].alive = 1}
LiveRegions(c) == {r \in DOMAIN c.regions : c.regions[r].alive = 1}
LiveVals(c) == {v \in DOMAIN c.vals : c.vals[v].alive = 1}

\* every operation is found exactly once in its block, in both directions, and points back to it
OpsInBlocks(c) ==
  /\ \A b \in LiveBlocks(c) : LET B == c.blocks[b] IN
       /\ B.fwd = Rev(B.bwd)
       /\ NoDup(B.fwd)
       /\ \A i \in DOMAIN B.fwd : B.fwd[i] \in LiveOps(c) /\ c.ops[B.fwd[i]].parent = b
  /\ \A o \in LiveOps(c) : c.ops[o].parent # 0 =>
       /\ c.ops[o].parent \in LiveBlocks(c)
       /\ Has(c.blocks[c.ops[o].parent].fwd, o)
BlocksInRegions(c) ==
  /\ \A r \in LiveRegions(c) : LET R == c.regions[r] IN
       /\ R.fwd = Rev(R.bwd)
       /\ NoDup(R.fwd)
       /\ \A i \in DOMAIN R.fwd : R.fwd[i] \in LiveBlocks(c) /\ c.blocks[R.fwd[i]].parent = r
  /\ \A b \in LiveBlocks(c) : c.blocks[b].parent # 0 =>
       /\ c.blocks[b].parent \in LiveRegions(c)
       /\ Has(c.regions[c.blocks[b].parent].fwd, b)
RegionsInOps(c) ==
  /\ \A o \in LiveOps(c) : LET O == c.ops[o] IN
       /\ NoDup(O.regions)
       /\ \A i \in DOMAIN O.regions : O.regions[i] \in LiveRegions(c) /\ c.regions[O.regions[i]].parent = o
  /\ \A r \in LiveRegions(c) : c.regions[r].parent # 0 =>
       /\ c.regions[r].parent \in LiveOps(c)
       /\ Has(c.ops[c.regions[r].parent].regions, r)

\* use lists: forward chain = reverse of backward chain, and as a bag equal to the operand occurrences
OperandPairs(c, v) == UNION {{<<o, i>> : i \in {j \in DOMAIN c.ops[o].operands : c.ops[o].operands[j] = v}} : o \in LiveOps(c)}
SuccPairs(c, b) == UNION {{<<o, i>> : i \in {j \in DOMAIN c.ops[o].succs : c.ops[o].succs[j] = b}} : o \in LiveOps(c)}
AsSet(s) == {s[i] : i \in DOMAIN s}
ValueUses(c) == \A v \in LiveVals(c) : LET V == c.vals[v] IN
   /\ V.ufwd = Rev(V.ubwd)
   /\ NoDup(V.ufwd)
   /\ AsSet(V.ufwd) = OperandPairs(c, v)
BlockUses(c) == \A b \in LiveBlocks(c) : LET B == c.blocks[b] IN
   /\ B.ufwd = Rev(B.ubwd)
   /\ NoDup(B.ufwd)
   /\ AsSet(B.ufwd) = SuccPairs(c, b)

\* argument / result positions match their index in their owner
Indices(c) ==
  /\ \A o \in LiveOps(c) : \A i \in DOMAIN c.ops[o].results : LET v == c.ops[o].results[i] IN
        v \in LiveVals(c) /\ c.vals[v].kind = "res" /\ c.vals[v].owner = o /\ c.vals[v].index = i - 1
  /\ \A b \in LiveBlocks(c) : \A i \in DOMAIN c.blocks[b].args : LET v == c.blocks[b].args[i] IN
        v \in LiveVals(c) /\ c.vals[v].kind = "arg" /\ c.vals[v].owner = b /\ c.vals[v].index = i - 1
  /\ \A o \in LiveOps(c) : NoDup(c.ops[o].results)
  /\ \A b \in LiveBlocks(c) : NoDup(c.blocks[b].args)

\* containment is a forest: following parents from an op never returns to it
RECURSIVE Climb(_, _, _, _)
Climb(c, o, start, fuel) ==   \* TRUE iff start is met again while climbing from op o
  IF fuel = 0 THEN TRUE
  ELSE LET b == c.ops[o].parent IN
       IF b = 0 THEN FALSE
       ELSE LET r == c.blocks[b].parent IN
            IF r = 0 THEN FALSE
            ELSE LET p == c.regions[r].parent IN
                 IF p = 0 THEN FALSE ELSE IF p = start THEN TRUE ELSE Climb(c, p, start, fuel - 1)
Acyclic(c) == \A o \in LiveOps(c) : ~Climb(c, o, o, Len(c.ops) + 1)

WellFormedClause(c) ==
  IF ~OpsInBlocks(c) THEN "OpsInBlocks"
  ELSE IF ~BlocksInRegions(c) THEN "BlocksInRegions"
  ELSE IF ~RegionsInOps(c) THEN "RegionsInOps"
  ELSE IF ~ValueUses(c) THEN "ValueUses"
  ELSE IF ~BlockUses(c) THEN "BlockUses"
  ELSE IF ~Indices(c) THEN "Indices"
  ELSE IF ~Acyclic(c) THEN "Acyclic"
  ELSE "ok"
WellFormed(c) == WellFormedClause(c) = "ok"
=============================================================================
