SPECIFICATION Spec
CONSTANTS
  NOps = 7
  NBlocks = 4
  NRegions = 3
  NVals = 6
  MaxDepth = 2
  InitChoice = "A"
INVARIANT Inv
INVARIANT Emit
