---------------------------- MODULE IRCloneCases ----------------------------
(* Judge for C02.  A case describes one real clone call and what the harness observed around it:
     before, after  : projections (with extras) of the whole universe before / after the call
     kind           : "op" | "op_without_regions" | "region_into" | "edit"
     src, cpy       : roots (IRIso roots) of the source and of the copy in `after`
     dest, index    : for "region_into": destination region id and the 0-based insert index
     excl           : for "edit": root whose tree was edited (everything outside must be unchanged)
   Clauses (first failing one is reported):
     clone equivalence and remapping (IRIso!CloneClause), InsertedAtIndex, SourceAndBystandersUnchanged. *)
EXTENDS IRIso, Json, IOUtils, TLC

Cases == JsonDeserialize(IOEnv.CASE_FILE)
VARIABLE i

Ids(s) == 1 .. Len(s)
\* uses by ops outside X
Filter(uses, X) == SelectSeq(uses, LAMBDA u : u[1] \notin X)

(* Frame condition: every object that existed before and is not excluded is unchanged; use chains are
   compared after dropping uses by excluded / newly created ops (a copy legitimately uses outside values). *)
Frame(b, a, xo, xb, xr, xv) ==
  LET newOps == {o \in Ids(a.ops) : o > Len(b.ops)}
      X == xo \cup newOps
  IN /\ \A o \in Ids(b.ops) \ xo : a.ops[o] = b.ops[o]
     /\ \A r \in Ids(b.regions) \ xr : a.regions[r] = b.regions[r]
     /\ \A k \in Ids(b.blocks) \ xb :
          /\ [a.blocks[k] EXCEPT !.ufwd = <<>>, !.ubwd = <<>>] = [b.blocks[k] EXCEPT !.ufwd = <<>>, !.ubwd = <<>>]
          /\ Filter(a.blocks[k].ufwd, X) = Filter(b.blocks[k].ufwd, X)
     /\ \A v \in Ids(b.vals) \ xv :
          /\ [a.vals[v] EXCEPT !.ufwd = <<>>, !.ubwd = <<>>] = [b.vals[v] EXCEPT !.ufwd = <<>>, !.ubwd = <<>>]
          /\ Filter(a.vals[v].ufwd, X) = Filter(b.vals[v].ufwd, X)

InsAt(s, k, xs) == SubSeq(s, 1, k) \o xs \o SubSeq(s, k + 1, Len(s))

\* clone_without_regions: same op-level fields, regions present but empty
ShallowClause(c, a, b) ==
  LET A == c.ops[a] B == c.ops[b] IN
  IF A.name # B.name THEN "Name"
  ELSE IF A.attrs # B.attrs THEN "Attributes"
  ELSE IF A.props # B.props THEN "Properties"
  ELSE IF A.operands # B.operands THEN "OperandCorrespondence"
  ELSE IF A.succs # B.succs THEN "SuccessorCorrespondence"
  ELSE IF Len(A.results) # Len(B.results) \/ \E k \in DOMAIN A.results : c.vals[A.results[k]].type # c.vals[B.results[k]].type THEN "ResultOrArgumentTypes"
  ELSE IF Len(A.regions) # Len(B.regions) \/ \E k \in DOMAIN B.regions : c.regions[B.regions[k]].fwd # <<>> THEN "Shape"
  ELSE IF a = b \/ AsSet(A.results) \cap AsSet(B.results) # {} THEN "CopySharesObjectsWithSource"
  ELSE "ok"

Verdict(cs) ==
  CASE cs.kind = "op" ->
         LET e == CloneClause(cs.after, cs.src, cs.cpy) IN
         IF e # "ok" THEN e
         ELSE IF ~Frame(cs.before, cs.after, {}, {}, {}, {}) THEN "SourceAndBystandersUnchanged" ELSE "ok"
    [] cs.kind = "op_without_regions" ->
         LET e == ShallowClause(cs.after, cs.src[2], cs.cpy[2]) IN
         IF e # "ok" THEN e
         ELSE IF ~Frame(cs.before, cs.after, {}, {}, {}, {}) THEN "SourceAndBystandersUnchanged" ELSE "ok"
    [] cs.kind = "region_into" ->
         LET e == CloneClause(cs.after, cs.src, cs.cpy) IN
         IF e # "ok" THEN e
         ELSE IF cs.after.regions[cs.dest].fwd # InsAt(cs.before.regions[cs.dest].fwd, cs.index, cs.cpy[2]) THEN "InsertedAtIndex"
         ELSE IF ~Frame(cs.before, cs.after, {}, {}, {cs.dest}, {}) THEN "SourceAndBystandersUnchanged" ELSE "ok"
    [] cs.kind = "edit" ->
         LET xo == AsSet(Ops(cs.before, cs.excl))
             xb == AsSet(Blks(cs.before, cs.excl))
             xr == UNION {AsSet(cs.before.ops[o].regions) : o \in xo}
             xv == AsSet(ValsOf(cs.before, cs.excl))
         IN IF ~Frame(cs.before, cs.after, xo, xb, xr, xv) THEN "LaterEditsNotVisibleOnTheOtherSide" ELSE "ok"

Init == i = 0
Next == /\ i < Len(Cases) /\ i' = i + 1
        /\ LET v == Verdict(Cases[i + 1]) IN (v # "ok" => PrintT(<<"VERIF", "mismatch", i + 1, v>>))
Spec == Init /\ [][Next]_i
Done == (i = Len(Cases)) => PrintT(<<"VERIF", "done", Len(Cases)>>)
=============================================================================
