-------------------------------- MODULE IRIso --------------------------------
(* Structural equivalence of IR as properties C02 / C03 state it, evaluated on a projection c of
   real xDSL objects (harness/project.py with extras: ops carry name / attrs / props tokens, values
   carry a type token):

     two pieces of IR are equivalent exactly when a one-to-one correspondence of their values and
     blocks makes every operation agree on name, operand correspondence, result types, attributes,
     properties, successors and nested regions, and every block agree on argument types.

   The correspondence of an ordered tree is positional, so it is computed by walking both pieces in
   parallel: equal Shape, then the i-th op / block / value of one side corresponds to the i-th of the
   other.  A reference to something defined OUTSIDE the compared pieces must be the very same object
   on both sides.  A root is <<kind, id>> with kind "op", "block" or "region". *)
EXTENDS Naturals, Sequences, FiniteSets

RECURSIVE Flat(_)
Flat(ss) == IF ss = <<>> THEN <<>> ELSE ss[1] \o Flat(SubSeq(ss, 2, Len(ss)))
Map(s, F(_)) == [i \in 1 .. Len(s) |-> F(s[i])]

\* ---- pre-order listings and the shape of a piece
RECURSIVE OpsOfOp(_, _), OpsOfBlk(_, _), OpsOfReg(_, _)
OpsOfOp(c, o) == <<o>> \o Flat([i \in 1 .. Len(c.ops[o].regions) |-> OpsOfReg(c, c.ops[o].regions[i])])
OpsOfReg(c, r) == Flat([i \in 1 .. Len(c.regions[r].fwd) |-> OpsOfBlk(c, c.regions[r].fwd[i])])
OpsOfBlk(c, b) == Flat([i \in 1 .. Len(c.blocks[b].fwd) |-> OpsOfOp(c, c.blocks[b].fwd[i])])

RECURSIVE BlksOfOp(_, _), BlksOfBlk(_, _), BlksOfReg(_, _)
BlksOfOp(c, o) == Flat([i \in 1 .. Len(c.ops[o].regions) |-> BlksOfReg(c, c.ops[o].regions[i])])
BlksOfReg(c, r) == Flat([i \in 1 .. Len(c.regions[r].fwd) |-> BlksOfBlk(c, c.regions[r].fwd[i])])
BlksOfBlk(c, b) == <<b>> \o Flat([i \in 1 .. Len(c.blocks[b].fwd) |-> BlksOfOp(c, c.blocks[b].fwd[i])])

RECURSIVE ShapeOp(_, _), ShapeBlk(_, _), ShapeReg(_, _)
ShapeOp(c, o) == <<Len(c.ops[o].results), Len(c.ops[o].operands), Len(c.ops[o].succs),
                   [i \in 1 .. Len(c.ops[o].regions) |-> ShapeReg(c, c.ops[o].regions[i])]>>
ShapeReg(c, r) == [i \in 1 .. Len(c.regions[r].fwd) |-> ShapeBlk(c, c.regions[r].fwd[i])]
ShapeBlk(c, b) == <<Len(c.blocks[b].args), [i \in 1 .. Len(c.blocks[b].fwd) |-> ShapeOp(c, c.blocks[b].fwd[i])]>>

\* a root is <<"op", o>>, <<"block", b>>, <<"region", r>> or <<"blocks", <<b1, ..., bn>>>> (a run of sibling blocks)
Ops(c, root) == CASE root[1] = "op" -> OpsOfOp(c, root[2]) [] root[1] = "block" -> OpsOfBlk(c, root[2]) [] root[1] = "region" -> OpsOfReg(c, root[2])
                  [] root[1] = "blocks" -> Flat([i \in 1 .. Len(root[2]) |-> OpsOfBlk(c, root[2][i])])
Blks(c, root) == CASE root[1] = "op" -> BlksOfOp(c, root[2]) [] root[1] = "block" -> BlksOfBlk(c, root[2]) [] root[1] = "region" -> BlksOfReg(c, root[2])
                  [] root[1] = "blocks" -> Flat([i \in 1 .. Len(root[2]) |-> BlksOfBlk(c, root[2][i])])
Shape(c, root) == CASE root[1] = "op" -> ShapeOp(c, root[2]) [] root[1] = "block" -> ShapeBlk(c, root[2]) [] root[1] = "region" -> ShapeReg(c, root[2])
                  [] root[1] = "blocks" -> [i \in 1 .. Len(root[2]) |-> ShapeBlk(c, root[2][i])]

\* values defined by a piece, in correspondence order: results of the ops, then arguments of the blocks
ValsOf(c, root) == Flat(Map(Ops(c, root), LAMBDA o : c.ops[o].results)) \o Flat(Map(Blks(c, root), LAMBDA b : c.blocks[b].args))

PosIn(s, x) == IF \E i \in DOMAIN s : s[i] = x THEN CHOOSE i \in DOMAIN s : s[i] = x ELSE 0
\* the image of x under the positional correspondence s -> t; something outside s is its own image
Image(s, t, x) == IF PosIn(s, x) = 0 THEN x ELSE t[PosIn(s, x)]

(* Equivalent(c, ra, rb): the pieces rooted at ra and rb of the same projection are isomorphic.
   EquivClause names the first clause that fails ("ok" if none). *)
EquivClause(c, ra, rb) ==
  IF ra[1] # rb[1] THEN "SameKind"
  ELSE IF Shape(c, ra) # Shape(c, rb) THEN "Shape"
  ELSE
  LET OA == Ops(c, ra)   OB == Ops(c, rb)
      BA == Blks(c, ra)  BB == Blks(c, rb)
      VA == ValsOf(c, ra) VB == ValsOf(c, rb)
  IN IF \E i \in DOMAIN OA : c.ops[OA[i]].name # c.ops[OB[i]].name THEN "Name"
     ELSE IF \E i \in DOMAIN OA : c.ops[OA[i]].attrs # c.ops[OB[i]].attrs THEN "Attributes"
     ELSE IF \E i \in DOMAIN OA : c.ops[OA[i]].props # c.ops[OB[i]].props THEN "Properties"
     ELSE IF \E i \in DOMAIN VA : c.vals[VA[i]].type # c.vals[VB[i]].type THEN "ResultOrArgumentTypes"
     ELSE IF \E i \in DOMAIN OA : \E k \in DOMAIN c.ops[OA[i]].operands :
               Image(VA, VB, c.ops[OA[i]].operands[k]) # c.ops[OB[i]].operands[k] THEN "OperandCorrespondence"
     ELSE IF \E i \in DOMAIN OA : \E k \in DOMAIN c.ops[OB[i]].operands :
               Image(VB, VA, c.ops[OB[i]].operands[k]) # c.ops[OA[i]].operands[k] THEN "OperandCorrespondence"
     ELSE IF \E i \in DOMAIN OA : \E k \in DOMAIN c.ops[OA[i]].succs :
               Image(BA, BB, c.ops[OA[i]].succs[k]) # c.ops[OB[i]].succs[k] THEN "SuccessorCorrespondence"
     ELSE IF \E i \in DOMAIN OA : \E k \in DOMAIN c.ops[OB[i]].succs :
               Image(BB, BA, c.ops[OB[i]].succs[k]) # c.ops[OA[i]].succs[k] THEN "SuccessorCorrespondence"
     ELSE "ok"
Equivalent(c, ra, rb) == EquivClause(c, ra, rb) = "ok"

(* C02: rb is a clone of ra.  Besides being equivalent to it, every reference from the copy to something
   defined inside the source must point to the copy (Image), the copy shares no object with the source,
   and no value defined inside the source is used from the copy. *)
AsSet(s) == {s[i] : i \in DOMAIN s}
CloneClause(c, ra, rb) ==
  LET e == EquivClause(c, ra, rb) IN
  IF e # "ok" THEN e
  ELSE IF AsSet(Ops(c, ra)) \cap AsSet(Ops(c, rb)) # {} \/ AsSet(Blks(c, ra)) \cap AsSet(Blks(c, rb)) # {}
          \/ AsSet(ValsOf(c, ra)) \cap AsSet(ValsOf(c, rb)) # {} THEN "CopySharesObjectsWithSource"
  ELSE IF \E v \in AsSet(ValsOf(c, ra)) : \E k \in DOMAIN c.vals[v].ufwd : c.vals[v].ufwd[k][1] \in AsSet(Ops(c, rb))
       THEN "CopyUsesSourceValue"
  ELSE "ok"
=============================================================================
