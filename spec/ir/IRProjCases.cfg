SPECIFICATION Spec
INVARIANT Done
