------------------------- MODULE PassContractCases -------------------------
(* Judge for C17: Cases[i] is the recorded history of one module: the events of the passes applied to it in order
   ([outcome |-> "ok" | "raised", ...post-state]).  The trace is accepted by PassContract's state machine iff every
   ApplyOk step has Post = "ok"; the first failing clause is reported with the index of the event. *)
EXTENDS PassContract, Json, IOUtils, TLC

Cases == JsonDeserialize(IOEnv.CASE_FILE)
VARIABLES i, k, status
vars == <<i, k, status>>
Init == i = 1 /\ k = 1 /\ status = "valid"
NextCase == i' = i + 1 /\ k' = 1 /\ status' = "valid"
Step ==
  /\ i <= Len(Cases)
  /\ IF k > Len(Cases[i].events) \/ status # "valid" THEN NextCase
     ELSE LET e == Cases[i].events[k] IN
          IF e.outcome = "raised" THEN i' = i /\ k' = k + 1 /\ status' = "unspecified"          \* ApplyRaised
          ELSE LET p == Post(e) IN                                                               \* ApplyOk
               /\ (p # "ok" => PrintT(<<"VERIF", "mismatch", i, p, k>>))
               /\ i' = i /\ k' = k + 1 /\ status' = IF p = "ok" THEN "valid" ELSE "unspecified"
Spec == Init /\ [][Step]_vars
Done == (i = Len(Cases) + 1) => PrintT(<<"VERIF", "done", Len(Cases)>>)
=============================================================================
