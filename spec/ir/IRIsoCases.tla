----------------------------- MODULE IRIsoCases -----------------------------
(* Judge for C03 (structural equivalence) and C02 (cloning).  A case is a projection (with extras)
   of real objects plus a list of pairs of roots in it:
     [kind |-> "equiv", ra, rb, impl]   impl = what ra.is_structurally_equivalent(rb) returned (1/0)
     [kind |-> "clone", ra, rb]         rb was produced by cloning ra
     [kind |-> "must",  ra, rb]         rb was obtained by printing ra and parsing the text: must be equivalent
   TLC evaluates the definition of IRIso.tla and reports every pair on which the implementation disagrees. *)
EXTENDS IRIso, Json, IOUtils, TLC

Cases == JsonDeserialize(IOEnv.CASE_FILE)
VARIABLE i

PairVerdict(c, p) ==
  CASE p.kind = "equiv" -> LET e == EquivClause(c, p.ra, p.rb) IN
                           IF (e = "ok") = (p.impl = 1) THEN "ok"
                           ELSE IF e = "ok" THEN "RejectsIsomorphicIR" ELSE e
    [] p.kind = "clone" -> CloneClause(c, p.ra, p.rb)
    [] p.kind = "must" -> EquivClause(c, p.ra, p.rb)            \* C04: the re-parsed IR must be equivalent to the printed one
    [] OTHER -> "ok"

CheckCase(k) == LET cs == Cases[k] IN
  \A j \in DOMAIN cs.pairs :
     LET v == PairVerdict(cs.c, cs.pairs[j]) IN
     v = "ok" \/ PrintT(<<"VERIF", "mismatch", k, v, j>>)

Init == i = 0
Next == i < Len(Cases) /\ i' = i + 1 /\ CheckCase(i + 1)
Spec == Init /\ [][Next]_i
Done == (i = Len(Cases)) => PrintT(<<"VERIF", "done", Len(Cases)>>)
=============================================================================
