---------------------------- MODULE PassContract ----------------------------
(* C17: the ModulePass contract (xdsl/passes.py:27-40) as a state machine over one module.

   state:   status \in {"valid", "unspecified"}   what is known about the module
   actions: ApplyOk(e)     a pass returned normally; allowed only from "valid"; the post-state e must again be valid:
                           Post(e) = "ok"
            ApplyRaised    a pass raised: reported failure; nothing is required of the module any more, the pipeline
                           stops (status' = "unspecified", no action enabled afterwards)
   An observed post-state e = [outcome, verified, reparsed, examined, root, c] comes from the real pass run
   (harness/drivers/c17.py): verified / reparsed are what Operation.verify() and print->parse reported, c is the
   pointer-walk projection (IRProj.tla) of everything reachable from the module, root the module's op id.
   Post names the first clause of the contract the post-state breaks.                                            *)
EXTENDS IRProj

RECURSIVE OpAnc(_, _, _)
OpAnc(c, o, fuel) ==      \* o and the chain of ops enclosing it
  IF fuel = 0 \/ o = 0 THEN {}
  ELSE LET b == c.ops[o].parent IN
       {o} \cup (IF b = 0 THEN {} ELSE LET r == c.blocks[b].parent IN
                 IF r = 0 THEN {} ELSE OpAnc(c, c.regions[r].parent, fuel - 1))
InModule(c, root, o) == root \in OpAnc(c, o, Len(c.ops) + 1)
ModuleOps(c, root) == {o \in LiveOps(c) : InModule(c, root, o)}

RegionOfOp(c, o) == IF c.ops[o].parent = 0 THEN 0 ELSE c.blocks[c.ops[o].parent].parent
DefBlock(c, v) == IF c.vals[v].kind = "res" THEN c.ops[c.vals[v].owner].parent
                  ELSE IF c.vals[v].kind = "arg" THEN c.vals[v].owner ELSE 0
\* regions enclosing op o (its own block's region first)
EnclosingRegions(c, o) == {RegionOfOp(c, a) : a \in OpAnc(c, o, Len(c.ops) + 1)} \ {0}

\* never leaves erased values in use: every operand of an op of the module is a live result / block argument whose
\* owner is itself part of the module
OperandsAliveAndInModule(c, root) ==
  \A o \in ModuleOps(c, root) : \A k \in DOMAIN c.ops[o].operands :
     LET v == c.ops[o].operands[k] IN
     /\ v # 0 /\ c.vals[v].alive = 1 /\ c.vals[v].kind \in {"res", "arg"} /\ c.vals[v].owner # 0
     /\ IF c.vals[v].kind = "res" THEN c.ops[c.vals[v].owner].alive = 1 /\ InModule(c, root, c.vals[v].owner)
        ELSE /\ c.blocks[c.vals[v].owner].alive = 1 /\ c.blocks[c.vals[v].owner].parent # 0
             /\ c.regions[c.blocks[c.vals[v].owner].parent].parent # 0
             /\ InModule(c, root, c.regions[c.blocks[c.vals[v].owner].parent].parent)
\* a value is visible only inside the region that holds its defining block (what the textual form can express)
OperandsInScope(c, root) ==
  \A o \in ModuleOps(c, root) : \A k \in DOMAIN c.ops[o].operands :
     LET b == DefBlock(c, c.ops[o].operands[k]) IN b # 0 /\ c.blocks[b].parent \in EnclosingRegions(c, o)
\* no dangling successors: a successor is a live block of the region the terminator sits in
SuccessorsInSameRegion(c, root) ==
  \A o \in ModuleOps(c, root) : \A k \in DOMAIN c.ops[o].succs :
     LET b == c.ops[o].succs[k] IN b # 0 /\ c.blocks[b].alive = 1 /\ c.blocks[b].parent # 0 /\ c.blocks[b].parent = RegionOfOp(c, o)

Post(e) ==
  IF e.verified = 0 THEN "ModuleVerifies"
  ELSE IF e.examined = 1 /\ WellFormedClause(e.c) # "ok" THEN "ParentLinksAndUseLists:" \o WellFormedClause(e.c)
  ELSE IF e.examined = 1 /\ ~OperandsAliveAndInModule(e.c, e.root) THEN "NoErasedOrDetachedValueInUse"
  ELSE IF e.examined = 1 /\ ~SuccessorsInSameRegion(e.c, e.root) THEN "NoDanglingSuccessor"
  ELSE IF e.examined = 1 /\ ~OperandsInScope(e.c, e.root) THEN "OperandsInScope"
  ELSE IF e.reparsed = 0 THEN "PrintedFormParsesBack"
  ELSE "ok"
=============================================================================
