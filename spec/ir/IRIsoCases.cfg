SPECIFICATION Spec
INVARIANT Done
