------------------------------ MODULE IRGraphMC ------------------------------
(* Model-checking instance of IRGraph: every history of public mutator calls (depth-bounded)
   from a set of small initial IRs.  The labelled state graph is replayed on real xDSL objects
   by harness/drivers/c01.py (S2C). *)
EXTENDS IRGraph

CONSTANTS MaxDepth, InitChoice
VARIABLES ir, depth, last, hist   \* last = <<action name, args...>>, hist = sequence of them: a state IS a history
vars == <<ir, depth, last, hist>>

\* ---- initial IRs, built with the model's own operators (the harness rebuilds them generically)
\* A: op1 with region r1 = [ b1(v1): op2(v1)->v2 ; op3(v2,v1)->v3 ; op4(v3) succ [b2] ]  [ b2: op5() ]  + detached op6()->v4, block b3
A1 == CreateOpF(EmptyIR, <<>>, <<>>, 0, 1)
A2 == AddBlockF(CreateBlockF(A1, 1), 1, 1)
A3 == AddOpF(CreateOpF(A2, <<1>>, <<>>, 1, 0), 1, 2)
A4 == AddOpF(CreateOpF(A3, <<2, 1>>, <<>>, 1, 0), 1, 3)
A5 == AddBlockF(CreateBlockF(A4, 0), 1, 2)
A6 == AddOpF(CreateOpF(A5, <<3>>, <<2>>, 0, 0), 1, 4)
A7 == AddOpF(CreateOpF(A6, <<>>, <<>>, 0, 0), 2, 5)
A8 == CreateBlockF(CreateOpF(A7, <<>>, <<>>, 1, 0), 0)
InitA == A8
\* B: nested regions: op1{ r1: b1: op2{ r2: b2(v1): op3(v1)->v2 } ; op4()->v3 } + detached region r3 with b3: op5(v3)
B1 == CreateOpF(EmptyIR, <<>>, <<>>, 0, 1)
B2 == AddBlockF(CreateBlockF(B1, 0), 1, 1)
B3 == AddOpF(CreateOpF(B2, <<>>, <<>>, 0, 1), 1, 2)
B4 == AddBlockF(CreateBlockF(B3, 1), 2, 2)
B5 == AddOpF(CreateOpF(B4, <<1>>, <<>>, 1, 0), 2, 3)
B6 == AddOpF(CreateOpF(B5, <<>>, <<>>, 1, 0), 1, 4)
B7 == AddBlockF(CreateBlockF(CreateRegionF(B6), 0), 3, 3)
B8 == AddOpF(CreateOpF(B7, <<3>>, <<>>, 0, 0), 3, 5)
InitB == B8

Init == depth = 0 /\ last = <<"Init">> /\ hist = <<>> /\ ir = CASE InitChoice = "A" -> InitA [] InitChoice = "B" -> InitB [] OTHER -> EmptyIR

SmallOperands == {<<>>} \cup {<<v>> : v \in LiveVals(ir)} \cup {<<v, w>> : v, w \in LiveVals(ir)}
SmallSuccs == {<<>>} \cup {<<b>> : b \in LiveBlks(ir)} \cup {<<b, b>> : b \in LiveBlks(ir)}

Step == depth < MaxDepth /\ depth' = depth + 1

CreateOp(opn, nres, nreg) == Step /\ CanCreateOp(ir, nres, nreg) /\ ir' = CreateOpF(ir, opn, <<>>, nres, nreg) /\ last' = <<"CreateOp", opn, nres, nreg>> /\ hist' = Append(hist, <<"CreateOp", opn, nres, nreg>>)
CreateBlock(nargs) == Step /\ CanCreateBlock(ir, nargs) /\ ir' = CreateBlockF(ir, nargs) /\ last' = <<"CreateBlock", nargs>> /\ hist' = Append(hist, <<"CreateBlock", nargs>>)
CreateRegion == Step /\ CanCreateRegion(ir) /\ ir' = CreateRegionF(ir) /\ last' = <<"CreateRegion">> /\ hist' = Append(hist, <<"CreateRegion">>)
AddOp(b, o) == Step /\ PreAttachOp(ir, o, b) /\ ir' = AddOpF(ir, b, o) /\ last' = <<"AddOp", b, o>> /\ hist' = Append(hist, <<"AddOp", b, o>>)
InsertOpBefore(o, e) == Step /\ PreInsertOpBefore(ir, o, e) /\ ir' = InsertOpBeforeF(ir, o, e) /\ last' = <<"InsertOpBefore", o, e>> /\ hist' = Append(hist, <<"InsertOpBefore", o, e>>)
InsertOpAfter(o, e) == Step /\ PreInsertOpBefore(ir, o, e) /\ ir' = InsertOpAfterF(ir, o, e) /\ last' = <<"InsertOpAfter", o, e>> /\ hist' = Append(hist, <<"InsertOpAfter", o, e>>)
DetachOp(o) == Step /\ PreDetachOp(ir, o) /\ ir' = DetachOpF(ir, o) /\ last' = <<"DetachOp", o>> /\ hist' = Append(hist, <<"DetachOp", o>>)
EraseOp(o) == Step /\ PreEraseOp(ir, o) /\ ir' = EraseOpF(ir, o) /\ last' = <<"EraseOp", o>> /\ hist' = Append(hist, <<"EraseOp", o>>)
EraseDetachedOp(o) == Step /\ PreEraseDetachedOp(ir, o) /\ ir' = EraseDetachedOpF(ir, o) /\ last' = <<"EraseDetachedOp", o>> /\ hist' = Append(hist, <<"EraseDetachedOp", o>>)
SplitBefore(o) == Step /\ PreSplitBefore(ir, o) /\ ir' = SplitBeforeF(ir, o) /\ last' = <<"SplitBefore", o>> /\ hist' = Append(hist, <<"SplitBefore", o>>)
AddBlock(r, b) == Step /\ PreAttachBlock(ir, b, r) /\ ir' = AddBlockF(ir, r, b) /\ last' = <<"AddBlock", r, b>> /\ hist' = Append(hist, <<"AddBlock", r, b>>)
InsertBlockBefore(b, t) == Step /\ PreInsertBlockBefore(ir, b, t) /\ ir' = InsertBlockBeforeF(ir, b, t) /\ last' = <<"InsertBlockBefore", b, t>> /\ hist' = Append(hist, <<"InsertBlockBefore", b, t>>)
InsertBlockAfter(b, t) == Step /\ PreInsertBlockBefore(ir, b, t) /\ ir' = InsertBlockAfterF(ir, b, t) /\ last' = <<"InsertBlockAfter", b, t>> /\ hist' = Append(hist, <<"InsertBlockAfter", b, t>>)
DetachBlock(b) == Step /\ PreDetachBlock(ir, b) /\ ir' = DetachBlockF(ir, b) /\ last' = <<"DetachBlock", b>> /\ hist' = Append(hist, <<"DetachBlock", b>>)
EraseBlock(b) == Step /\ PreEraseBlock(ir, b) /\ ir' = EraseBlockF(ir, b) /\ last' = <<"EraseBlock", b>> /\ hist' = Append(hist, <<"EraseBlock", b>>)
MoveBlocks(r, d) == Step /\ PreMoveBlocks(ir, r, d) /\ ir' = MoveBlocksF(ir, r, d) /\ last' = <<"MoveBlocks", r, d>> /\ hist' = Append(hist, <<"MoveBlocks", r, d>>)
MoveBlocksBefore(r, t) == Step /\ PreMoveBlocksBefore(ir, r, t) /\ ir' = MoveBlocksBeforeF(ir, r, t) /\ last' = <<"MoveBlocksBefore", r, t>> /\ hist' = Append(hist, <<"MoveBlocksBefore", r, t>>)
AddRegion(o, r) == Step /\ PreAddRegion(ir, o, r) /\ ir' = AddRegionF(ir, o, r) /\ last' = <<"AddRegion", o, r>> /\ hist' = Append(hist, <<"AddRegion", o, r>>)
DetachRegion(r) == Step /\ PreDetachRegion(ir, r) /\ ir' = DetachRegionF(ir, r) /\ last' = <<"DetachRegion", r>> /\ hist' = Append(hist, <<"DetachRegion", r>>)
SetOperand(o, i, v) == Step /\ PreSetOperand(ir, o, i, v) /\ ir' = SetOperandF(ir, o, i, v) /\ last' = <<"SetOperand", o, i, v>> /\ hist' = Append(hist, <<"SetOperand", o, i, v>>)
SetOperands(o, vs) == Step /\ PreSetOperands(ir, o, vs) /\ ir' = SetOperandsF(ir, o, vs) /\ last' = <<"SetOperands", o, vs>> /\ hist' = Append(hist, <<"SetOperands", o, vs>>)
SetSuccessors(o, bs) == Step /\ PreSetSuccessors(ir, o, bs) /\ ir' = SetSuccessorsF(ir, o, bs) /\ last' = <<"SetSuccessors", o, bs>> /\ hist' = Append(hist, <<"SetSuccessors", o, bs>>)
RAUW(v, w) == Step /\ PreRAUW(ir, v, w) /\ ir' = RAUWF(ir, v, w) /\ last' = <<"RAUW", v, w>> /\ hist' = Append(hist, <<"RAUW", v, w>>)
InsertArg(b, i) == Step /\ PreInsertArg(ir, b, i) /\ ir' = InsertArgF(ir, b, i) /\ last' = <<"InsertArg", b, i>> /\ hist' = Append(hist, <<"InsertArg", b, i>>)
EraseArg(b, i) == Step /\ PreEraseArg(ir, b, i) /\ ir' = EraseArgF(ir, b, i) /\ last' = <<"EraseArg", b, i>> /\ hist' = Append(hist, <<"EraseArg", b, i>>)
ReplaceOp(o, n) == Step /\ PreReplaceOp(ir, o, n) /\ ir' = ReplaceOpF(ir, o, n) /\ last' = <<"ReplaceOp", o, n>> /\ hist' = Append(hist, <<"ReplaceOp", o, n>>)
InlineBlockBefore(b, e) == Step /\ PreInlineBlockBefore(ir, b, e) /\ ir' = InlineBlockBeforeF(ir, b, e) /\ last' = <<"InlineBlockBefore", b, e>> /\ hist' = Append(hist, <<"InlineBlockBefore", b, e>>)
InlineBlockAtEnd(b, d) == Step /\ PreInlineBlockAtEnd(ir, b, d) /\ ir' = InlineBlockAtEndF(ir, b, d) /\ last' = <<"InlineBlockAtEnd", b, d>> /\ hist' = Append(hist, <<"InlineBlockAtEnd", b, d>>)

Next ==
  \/ \E opn \in SmallOperands, nres \in 0 .. 1, nreg \in 0 .. 1 : CreateOp(opn, nres, nreg)
  \/ \E n \in 0 .. 1 : CreateBlock(n)
  \/ CreateRegion
  \/ \E b \in BlkIds, o \in OpIds : AddOp(b, o) \/ InlineBlockBefore(b, o)
  \/ \E o \in OpIds, e \in OpIds : InsertOpBefore(o, e) \/ InsertOpAfter(o, e) \/ ReplaceOp(o, e)
  \/ \E o \in OpIds : DetachOp(o) \/ EraseOp(o) \/ EraseDetachedOp(o) \/ SplitBefore(o)
  \/ \E r \in RegIds, b \in BlkIds : AddBlock(r, b) \/ MoveBlocksBefore(r, b)
  \/ \E b \in BlkIds, t \in BlkIds : InsertBlockBefore(b, t) \/ InsertBlockAfter(b, t) \/ InlineBlockAtEnd(b, t)
  \/ \E b \in BlkIds : DetachBlock(b) \/ EraseBlock(b)
  \/ \E r \in RegIds, d \in RegIds : MoveBlocks(r, d)
  \/ \E o \in OpIds, r \in RegIds : AddRegion(o, r)
  \/ \E r \in RegIds : DetachRegion(r)
  \/ \E o \in OpIds, i \in 1 .. 2, v \in ValIds : SetOperand(o, i, v)
  \/ \E o \in OpIds, vs \in SmallOperands : SetOperands(o, vs)
  \/ \E o \in OpIds, bs \in SmallSuccs : SetSuccessors(o, bs)
  \/ \E v \in ValIds, w \in ValIds : RAUW(v, w)
  \/ \E b \in BlkIds, i \in 1 .. 2 : InsertArg(b, i) \/ EraseArg(b, i)
Spec == Init /\ [][Next]_vars

Inv == WellFormed(ir)
\* every explored history is handed to the harness together with the abstract state it leads to
Digest(s) == <<s.ost, s.opar, s.oopn, s.osuc, s.ores, s.oreg, s.bst, s.bpar, s.bops, s.barg, s.rst, s.rpar, s.rblk, s.vst>>
Emit == PrintT(ToString(<<"VERIF", "p", hist, Digest(ir)>>))
=============================================================================
