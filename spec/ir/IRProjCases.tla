----------------------------- MODULE IRProjCases -----------------------------
(* Judge for C01/C17: each case is a projection of real xDSL objects taken after a public
   mutator call returned (harness/project.py); TLC evaluates the C01 predicate on it. *)
EXTENDS IRProj, Json, IOUtils, TLC

Cases == JsonDeserialize(IOEnv.CASE_FILE)
VARIABLE i
Init == i = 0
Next == /\ i < Len(Cases) /\ i' = i + 1
        /\ LET v == WellFormedClause(Cases[i + 1]) IN (v # "ok" => PrintT(<<"VERIF", "mismatch", i + 1, v>>))
Spec == Init /\ [][Next]_i
Done == (i = Len(Cases)) => PrintT(<<"VERIF", "done", Len(Cases)>>)
=============================================================================
