SPECIFICATION Spec
INVARIANT Done
