------------------------------ MODULE PDLMatch ------------------------------
(* C27: the meaning of a PDL rewrite pattern on payload IR, independent of both implementations
   (xdsl/interpreters/pdl.py = "interpreted", convert-pdl-to-pdl-interp + xdsl/interpreters/pdl_interp.py = "compiled").

   payload P = [ops |-> << op ... >> (block order), argtypes |-> << type token ... >>]
     op  = [id, name, operands |-> << val ... >>, attrs |-> << [n, v] ... >> (sorted by name), rtypes |-> << token ... >>]
     val = [k |-> "arg", a |-> argument index, b |-> 0]  |  [k |-> "res", a |-> op id, b |-> result index]
   pattern pat = [ops |-> << oc ... >>, root |-> index of the root constraint, rewrite |-> rw, nv, na, nt, (numbers of variables)]
     oc  = [name ("" = any), operands |-> << pc ... >>, attrs |-> << [n, kind, x] ... >>, rtypes |-> << [kind, x] ... >>]
     pc  = [kind |-> "var" | "def", x |-> value variable, op |-> constraint index of the defining op, res |-> result index,
            t |-> [kind |-> "none" | "const" | "var", x]]                  kind "const": x is a token, "var": x is a variable
     rw  = [kind |-> "erase" | "operand" | "newop", x |-> value variable, new |-> [name, operands |-> << value variable ... >>,
            attrs |-> << [n, kind, x] ... >>, rtypes |-> << [kind, x] ... >>]]
   Semantics (MLIR PDL): an operation constraint fixes the name (if given), the exact number of operands and results, the
   listed attributes; a variable used twice must denote the same thing; an operand constrained by `pdl.result i of %op` must BE
   result i of an operation matching %op.  The rewrite replaces / erases the root only.                                     *)
EXTENDS Naturals, Sequences, FiniteSets

Fail == [ok |-> FALSE]
Pos(P, id) == CHOOSE j \in DOMAIN P.ops : P.ops[j].id = id
OpById(P, id) == P.ops[Pos(P, id)]
HasAttr(o, n) == \E j \in DOMAIN o.attrs : o.attrs[j].n = n
AttrOf(o, n) == o.attrs[CHOOSE j \in DOMAIN o.attrs : o.attrs[j].n = n].v
TypeOfVal(P, v) == IF v.k = "arg" THEN P.argtypes[v.a] ELSE OpById(P, v.a).rtypes[v.b]
B0(pat) == [ok |-> TRUE, vals |-> [k \in 1 .. pat.nv |-> <<>>], attrs |-> [k \in 1 .. pat.na |-> 0], types |-> [k \in 1 .. pat.nt |-> 0],
            ops |-> [k \in DOMAIN pat.ops |-> 0]]

BindType(B, tc, tok) ==      \* tc = [kind, x]
  IF ~B.ok THEN B
  ELSE IF tc.kind = "none" THEN B
  ELSE IF tc.kind = "const" THEN (IF tc.x = tok THEN B ELSE Fail)
  ELSE IF B.types[tc.x] = 0 THEN [B EXCEPT !.types[tc.x] = tok]
  ELSE IF B.types[tc.x] = tok THEN B ELSE Fail
BindAttr(B, ac, tok) ==
  IF ~B.ok THEN B
  ELSE IF ac.kind = "const" THEN (IF ac.x = tok THEN B ELSE Fail)
  ELSE IF B.attrs[ac.x] = 0 THEN [B EXCEPT !.attrs[ac.x] = tok]
  ELSE IF B.attrs[ac.x] = tok THEN B ELSE Fail

RECURSIVE MatchOp(_, _, _, _, _), MatchOperands(_, _, _, _, _, _), MatchAttrs(_, _, _, _), MatchTypes(_, _, _, _)
MatchAttrs(oc, o, j, B) ==
  IF ~B.ok \/ j > Len(oc.attrs) THEN B
  ELSE IF ~HasAttr(o, oc.attrs[j].n) THEN Fail
  ELSE MatchAttrs(oc, o, j + 1, BindAttr(B, oc.attrs[j], AttrOf(o, oc.attrs[j].n)))
MatchTypes(oc, o, j, B) ==
  IF ~B.ok \/ j > Len(oc.rtypes) THEN B ELSE MatchTypes(oc, o, j + 1, BindType(B, oc.rtypes[j], o.rtypes[j]))
MatchOperands(pat, P, oc, o, j, B) ==
  IF ~B.ok \/ j > Len(oc.operands) THEN B
  ELSE LET pc == oc.operands[j]  v == o.operands[j] IN
       IF B.vals[pc.x] # <<>> THEN (IF B.vals[pc.x] = v THEN MatchOperands(pat, P, oc, o, j + 1, B) ELSE Fail)
       ELSE IF pc.kind = "var" THEN
            LET B1 == BindType(B, pc.t, TypeOfVal(P, v)) IN
            IF ~B1.ok THEN Fail ELSE MatchOperands(pat, P, oc, o, j + 1, [B1 EXCEPT !.vals[pc.x] = v])
       ELSE IF v.k # "res" \/ v.b # pc.res THEN Fail                       \* must be result pc.res of its defining op
            ELSE LET B1 == MatchOp(pat, P, pc.op, v.a, B) IN
                 IF ~B1.ok THEN Fail ELSE MatchOperands(pat, P, oc, o, j + 1, [B1 EXCEPT !.vals[pc.x] = v])
MatchOp(pat, P, c, id, B) ==
  LET oc == pat.ops[c]  o == OpById(P, id) IN
  IF ~B.ok THEN B
  ELSE IF B.ops[c] # 0 THEN (IF B.ops[c] = id THEN B ELSE Fail)
  ELSE IF oc.name # "" /\ oc.name # o.name THEN Fail
  ELSE IF Len(oc.operands) # Len(o.operands) \/ Len(oc.rtypes) # Len(o.rtypes) THEN Fail
  ELSE LET B3 == MatchTypes(oc, o, 1, MatchOperands(pat, P, oc, o, 1, MatchAttrs(oc, o, 1, B))) IN
       IF ~B3.ok THEN Fail ELSE [B3 EXCEPT !.ops[c] = id]
MatchRoot(pat, P, id) == MatchOp(pat, P, pat.root, id, B0(pat))
Matches(pat, P) == {P.ops[j].id : j \in {j \in DOMAIN P.ops : MatchRoot(pat, P, P.ops[j].id).ok}}

\* ------------------------------------------------------------------ rewriting the root
Subst(P, rootid, newvals) ==     \* replace every use of result i of root by newvals[i]
  [P EXCEPT !.ops = [j \in DOMAIN P.ops |-> [P.ops[j] EXCEPT !.operands =
      [k \in DOMAIN @ |-> IF @[k].k = "res" /\ @[k].a = rootid THEN newvals[@[k].b] ELSE @[k]]]]]
Remove(P, rootid) == LET p == Pos(P, rootid) IN
  [P EXCEPT !.ops = [j \in 1 .. Len(P.ops) - 1 |-> IF j < p THEN P.ops[j] ELSE P.ops[j + 1]]]
InsertBefore(P, rootid, o) == LET p == Pos(P, rootid) IN
  [P EXCEPT !.ops = [j \in 1 .. Len(P.ops) + 1 |-> IF j < p THEN P.ops[j] ELSE IF j = p THEN o ELSE P.ops[j - 1]]]
MaxId(P) == LET S == {P.ops[j].id : j \in DOMAIN P.ops} IN IF S = {} THEN 0 ELSE CHOOSE m \in S : \A x \in S : x <= m
Resolve(B, c) == IF c.kind = "const" THEN c.x ELSE B.types[c.x]
ResolveA(B, c) == IF c.kind = "const" THEN c.x ELSE B.attrs[c.x]
Apply(pat, P, rootid) ==
  LET B == MatchRoot(pat, P, rootid)  rw == pat.rewrite  root == OpById(P, rootid) IN
  IF rw.kind = "erase" THEN Remove(P, rootid)
  ELSE IF rw.kind = "operand" THEN Remove(Subst(P, rootid, [k \in DOMAIN root.rtypes |-> B.vals[rw.x]]), rootid)
  ELSE LET nid == MaxId(P) + 1
           n == [id |-> nid, name |-> rw.new.name, operands |-> [k \in DOMAIN rw.new.operands |-> B.vals[rw.new.operands[k]]],
                 attrs |-> [k \in DOMAIN rw.new.attrs |-> [n |-> rw.new.attrs[k].n, v |-> ResolveA(B, rw.new.attrs[k])]],
                 rtypes |-> [k \in DOMAIN rw.new.rtypes |-> Resolve(B, rw.new.rtypes[k])]] IN
       Remove(Subst(InsertBefore(P, rootid, n), rootid, [k \in DOMAIN root.rtypes |-> [k |-> "res", a |-> nid, b |-> k]]), rootid)

\* ------------------------------------------------------------------ canonical form (ids -> positions) for comparison with real IR
Canon(P) == [j \in DOMAIN P.ops |->
   [name |-> P.ops[j].name, attrs |-> P.ops[j].attrs, rtypes |-> P.ops[j].rtypes,
    operands |-> [k \in DOMAIN P.ops[j].operands |-> LET v == P.ops[j].operands[k] IN
                   IF v.k = "arg" THEN v ELSE [k |-> "res", a |-> Pos(P, v.a), b |-> v.b]]]]
=============================================================================
