SPECIFICATION Spec
INVARIANT Agree
INVARIANT Terminal
INVARIANT Fuel
INVARIANT Start
