------------------------------ MODULE PDLCases ------------------------------
(* Judge for C27.  case = [pat, payload, direct, interp]: direct / interp are the canonical forms (PDLMatch!Canon) of the
   payload after the REAL apply-pdl resp. convert-pdl-to-pdl-interp + apply-pdl-interp ran to their fixpoint.
   (1) the property: direct = interp  (clause InterpretedAndCompiledAgree);
   (2) diagnosis against the model: TLC explores every order of applying the pattern (PDLMatch!Apply at any matching root)
       up to MaxDepth rewrites and reports for every terminal state whether it equals direct / interp.                      *)
EXTENDS PDLMatch, Json, IOUtils, TLC

Cases == JsonDeserialize(IOEnv.CASE_FILE)
MaxDepth == 6
VARIABLES i, P, depth
vars == <<i, P, depth>>
Init == i \in 1 .. Len(Cases) /\ P = Cases[i].payload /\ depth = 0
Next == /\ depth < MaxDepth
        /\ \E id \in Matches(Cases[i].pat, P) : P' = Apply(Cases[i].pat, P, id)
        /\ depth' = depth + 1 /\ i' = i
Spec == Init /\ [][Next]_vars
Agree == (depth = 0 /\ Cases[i].direct # Cases[i].interp) => PrintT(<<"VERIF", "mismatch", i, "InterpretedAndCompiledAgree">>)
Terminal == (Matches(Cases[i].pat, P) = {}) =>
              PrintT(<<"VERIF", "terminal", i, Canon(P) = Cases[i].direct, Canon(P) = Cases[i].interp, depth>>)
Fuel == (depth = MaxDepth /\ Matches(Cases[i].pat, P) # {}) => PrintT(<<"VERIF", "fuel", i>>)
Start == (depth = 0) => PrintT(<<"VERIF", "start", i, Cardinality(Matches(Cases[i].pat, P))>>)
=============================================================================
