SPECIFICATION Spec
INVARIANT Done
