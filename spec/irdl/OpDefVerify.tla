----------------------------- MODULE OpDefVerify -----------------------------
(* IRDL operation verification as property C10 states it.
   A definition gives, per construct (operands, results, regions), a list of segment definitions
       [kind |-> "single" | "optional" | "variadic", c |-> constraint]
   and an option "none" | "same" (all optional/variadic segments have the same size) | "attr" (sizes are
   read from a segment-size array).  Constraints on element types:  <<"any">> | <<"eq", tok>> | <<"var", name>> | <<"rvar", name>>
   (a range variable: the whole segment's type sequence) | <<"ivar", name>> (the segment's LENGTH is an integer variable shared by
   all segments that mention it)
   (a type variable: every element constrained by it, in every construct, must be the same type).
   An instance gives the element type tokens of each construct and, optionally, the size arrays.

   Accepts(def, inst): there EXIST non-negative segment sizes matching each kind, summing to the list length
   (equal to the array when the option is "attr", all equal among optional/variadic when "same") such that
   every piece satisfies its constraint under ONE binding of the type variables. *)
EXTENDS Integers, Sequences, FiniteSets

RECURSIVE SumSeq(_)
SumSeq(s) == IF s = <<>> THEN 0 ELSE s[1] + SumSeq(Tail(s))
Offset(s, i) == SumSeq(SubSeq(s, 1, i - 1))
VarLike(d) == d.kind \in {"optional", "variadic"}

KindOK(d, n) == CASE d.kind = "single" -> n = 1 [] d.kind = "optional" -> n \in {0, 1} [] d.kind = "variadic" -> n >= 0

\* all admissible size vectors for one construct
SizesFor(defs, opt, n, attr, hasattr) ==
  {s \in [1 .. Len(defs) -> 0 .. n] :
     /\ \A i \in DOMAIN defs : KindOK(defs[i], s[i])
     /\ SumSeq(s) = n
     /\ (opt = "attr" => hasattr /\ Len(attr) = Len(defs) /\ \A i \in DOMAIN defs : attr[i] = s[i])
     /\ (opt = "same" => \A i, j \in DOMAIN defs : VarLike(defs[i]) /\ VarLike(defs[j]) => s[i] = s[j])}

ElemOK(c, tok, bind) == CASE c[1] = "any" -> TRUE [] c[1] = "eq" -> tok = c[2] [] c[1] = "var" -> bind[c[2]] = tok [] c[1] = "rvar" -> TRUE [] c[1] = "ivar" -> TRUE
PiecesOK(defs, s, elems, bind, rbind) ==
  \A i \in DOMAIN defs :
     /\ \A k \in 1 .. s[i] : ElemOK(defs[i].c, elems[Offset(s, i) + k], bind)
     /\ (defs[i].c[1] = "rvar" => SubSeq(elems, Offset(s, i) + 1, Offset(s, i) + s[i]) = rbind)

VarNames == {"T", "U"}
Accepts(def, inst, Toks) ==
  \E so \in SizesFor(def.ops, def.oopt, Len(inst.ops), inst.osz, inst.hasosz = 1) :
  \E sr \in SizesFor(def.res, def.ropt, Len(inst.res), inst.rsz, inst.hasrsz = 1) :
  \E sg \in SizesFor(def.regs, def.gopt, inst.nregs, inst.gsz, inst.hasgsz = 1) :
  \E bind \in [VarNames -> Toks] :
  \E rbind \in UNION {[1 .. k -> Toks] : k \in 0 .. 4} :        \* one range variable "R"
     /\ PiecesOK(def.ops, so, inst.ops, bind, rbind) /\ PiecesOK(def.res, sr, inst.res, bind, rbind)
     \* one integer variable "N": every segment whose length is constrained by it has the same length (operands and results alike)
     /\ LET L == {so[i] : i \in {i \in DOMAIN def.ops : def.ops[i].c[1] = "ivar"}} \cup {sr[i] : i \in {i \in DOMAIN def.res : def.res[i].c[1] = "ivar"}}
        IN Cardinality(L) <= 1

\* the split is unique whenever it exists (at most one optional/variadic segment without option; equal sizes; given sizes)
TheSizes(defs, opt, n, attr, hasattr) == CHOOSE s \in SizesFor(defs, opt, n, attr, hasattr) : TRUE
Segments(defs, opt, n, attr, hasattr) ==
  LET s == TheSizes(defs, opt, n, attr, hasattr) IN [i \in DOMAIN defs |-> <<Offset(s, i), s[i]>>]
=============================================================================
