----------------------------- MODULE OpDefCases -----------------------------
(* Judge for C10.  Case: [def, insts |-> << [inst, verdict (1 = verify() passed, 0 = VerifyException, -1 = other
   exception), built (1 = produced by the generated constructor), oacc, racc, gacc (accessor results as
   <<offset, length>> per definition, <<>> if not asked)] ... >>] *)
EXTENDS OpDefVerify, Json, IOUtils, TLC

Cases == JsonDeserialize(IOEnv.CASE_FILE)
Toks == {1, 2, 3}
VARIABLE i
Clause(def, x) ==
  LET acc == Accepts(def, x.inst, Toks) IN
  IF x.oneside = 1 THEN     \* registered operations: def keeps only the segment structure (constraints "any"), so only "no split exists => rejected" is claimed
     (IF ~acc /\ x.verdict = 1 THEN "AcceptsInstanceWithoutValidSplit" ELSE "ok")
  ELSE IF acc /\ x.verdict # 1 THEN "RejectsSplittableInstance"
  ELSE IF ~acc /\ x.verdict = 1 THEN "AcceptsInstanceWithoutValidSplit"
  ELSE IF x.built = 1 /\ x.verdict # 1 THEN "ConstructorBuiltOperationVerifies"
  ELSE IF acc /\ x.oacc # <<>> /\ x.oacc # Segments(def.ops, def.oopt, Len(x.inst.ops), x.inst.osz, x.inst.hasosz = 1) THEN "AccessorsReturnDeclaredSegments"
  ELSE IF acc /\ x.racc # <<>> /\ x.racc # Segments(def.res, def.ropt, Len(x.inst.res), x.inst.rsz, x.inst.hasrsz = 1) THEN "AccessorsReturnDeclaredSegments"
  ELSE IF acc /\ x.gacc # <<>> /\ x.gacc # Segments(def.regs, def.gopt, x.inst.nregs, x.inst.gsz, x.inst.hasgsz = 1) THEN "AccessorsReturnDeclaredSegments"
  ELSE "ok"
CheckCase(k) == LET c == Cases[k] IN
  \A j \in DOMAIN c.insts : LET v == Clause(c.def, c.insts[j]) IN v = "ok" \/ PrintT(<<"VERIF", "mismatch", k, v, j>>)
Init == i = 0
Next == i < Len(Cases) /\ i' = i + 1 /\ CheckCase(i + 1)
Spec == Init /\ [][Next]_i
Done == (i = Len(Cases)) => PrintT(<<"VERIF", "done", Len(Cases)>>)
=============================================================================
