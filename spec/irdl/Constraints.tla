----------------------------- MODULE Constraints -----------------------------
(* Set semantics of IRDL attribute constraints (property C09).
   An attribute value is a record [cls, bases, ps, val]: its class name, the names of all classes it is an
   instance of, its parameters (attributes again) and, for data attributes, a printable payload.
   A constraint is a tree
     <<"any">> | <<"base", cls>> | <<"eq", attr>> | <<"set", <<attr...>>>> | <<"anyof", <<c...>>>>
     | <<"allof", <<c...>>>> | <<"param", cls, <<c...>>>> | <<"var", name, c>>
   Sat(c, a, ctx) is the SET of variable contexts in which a satisfies c when started from ctx (a variable
   binds on its first occurrence, every later occurrence must be equal); a union accepts what some
   alternative accepts, an intersection what all accept (threading the context left to right).
   Accepts(c, a) == Sat(c, a, empty context) # {} *)
EXTENDS Naturals, Sequences, FiniteSets

VarNames == {"T", "U"}
Unbound == [cls |-> "<unbound>", bases |-> <<>>, ps |-> <<>>, val |-> ""]
EmptyCtx == [v \in VarNames |-> Unbound]
IsA(a, cls) == \E i \in DOMAIN a.bases : a.bases[i] = cls

RECURSIVE Sat(_, _, _), SatSeq(_, _, _, _), SatAll(_, _, _, _)
Sat(c, a, ctx) ==
  CASE c[1] = "any" -> {ctx}
    [] c[1] = "base" -> IF IsA(a, c[2]) THEN {ctx} ELSE {}
    [] c[1] = "eq" -> IF a = c[2] THEN {ctx} ELSE {}
    [] c[1] = "set" -> IF \E i \in DOMAIN c[2] : c[2][i] = a THEN {ctx} ELSE {}
    [] c[1] = "anyof" -> UNION {Sat(c[2][i], a, ctx) : i \in DOMAIN c[2]}
    [] c[1] = "allof" -> SatAll(c[2], a, {ctx}, 1)
    [] c[1] = "param" -> IF IsA(a, c[2]) /\ Len(a.ps) = Len(c[3]) THEN SatSeq(c[3], a.ps, {ctx}, 1) ELSE {}
    [] c[1] = "var" -> IF ctx[c[2]] # Unbound
                       THEN (IF ctx[c[2]] = a THEN {ctx} ELSE {})
                       ELSE {[x EXCEPT ![c[2]] = a] : x \in Sat(c[3], a, ctx)}
\* all constraints cs on the same attribute a
SatAll(cs, a, ctxs, i) == IF i > Len(cs) THEN ctxs ELSE SatAll(cs, a, UNION {Sat(cs[i], a, x) : x \in ctxs}, i + 1)
\* constraints cs[i] on attributes as[i]
SatSeq(cs, as, ctxs, i) == IF i > Len(cs) THEN ctxs ELSE SatSeq(cs, as, UNION {Sat(cs[i], as[i], x) : x \in ctxs}, i + 1)

Accepts(c, a) == Sat(c, a, EmptyCtx) # {}
AcceptsIn(c, a, ctx) == Sat(c, a, ctx) # {}
=============================================================================
