--------------------------- MODULE ConstraintCases ---------------------------
(* Judge for C09.  Case: [c |-> constraint tree, attrs |-> <<attribute...>>,
     forms |-> <<[name, got |-> <<0/1 per attribute>>] ...>>     verifies() of each REAL construction of c
     infers |-> <<[ctx |-> [T, U], a |-> inferred attribute] ...>>  results of infer() where can_infer said yes *)
EXTENDS Constraints, Json, IOUtils, TLC

Cases == JsonDeserialize(IOEnv.CASE_FILE)
VARIABLE i
CheckCase(k) == LET c == Cases[k] IN
  /\ \A f \in DOMAIN c.forms : \A j \in DOMAIN c.attrs :
        LET want == IF Accepts(c.c, c.attrs[j]) THEN 1 ELSE 0 IN
        c.forms[f].got[j] = want \/ PrintT(<<"VERIF", "mismatch", k, IF want = 1 THEN "RejectsDescribedAttribute" ELSE "AcceptsUndescribedAttribute", f, j>>)
  /\ \A f \in DOMAIN c.infers :
        AcceptsIn(c.c, c.infers[f].a, c.infers[f].ctx) \/ PrintT(<<"VERIF", "mismatch", k, "InferredAttributeSatisfiesConstraint", f, 0>>)
Init == i = 0
Next == i < Len(Cases) /\ i' = i + 1 /\ CheckCase(i + 1)
Spec == Init /\ [][Next]_i
Done == (i = Len(Cases)) => PrintT(<<"VERIF", "done", Len(Cases)>>)
=============================================================================
