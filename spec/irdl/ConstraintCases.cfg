SPECIFICATION Spec
INVARIANT Done
