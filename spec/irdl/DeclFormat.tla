------------------------------ MODULE DeclFormat ------------------------------
(* The operand part of a declarative assembly format (property C05), as the state machine a generated printer and a
   generated greedy parser make of it.

   An operation has a single operand x, an optional operand y and a variadic operand z (any subset).  A format is a
   sequence of elements
        <<"lit", kw>>               a keyword or punctuation literal
        <<"op", n>>                 $n          (n in {"x", "y", "z"})
        <<"grp", kw, n>>            (`kw` $n^)?     optional group anchored on the optional / variadic operand n
        <<"grp", "", n>>            ($n^)?
   followed by the fixed tail   attr-dict `:` `x` type($x) `y` type($y) `z` type($z)   (only the used operands), which is
   unambiguous by construction, so that everything interesting happens in the operand part.
   An instance says which optional operand is present, how long the variadic is and whether there is an extra attribute.

   Print emits tokens: a value token <<"v", n, k>> per operand value, literals, <<"{">> for a non-empty dictionary.
   Parse is greedy and never backtracks, like the generated parser: a single operand needs a value token; an optional
   operand takes one if it is there; a variadic takes value (`,` value)*; an optional group is entered iff the next token
   is its keyword (or a value token when it has none).  RoundTrips(f, i) says whether Parse(Emitted(f, i)) gives i back.

   TLC enumerates every format up to MaxLen elements in which each operand occurs exactly once and reports, per format,
   the instances that do not round-trip IN THE MODEL: those are the formats a definition-time check has to refuse (or the
   engine has to parse with more care than greedily).  The harness defines every enumerated format for real
   (irdl_op_definition): formats the engine accepts must round-trip on every instance - that is the property - and the
   model's list of ambiguous formats is compared with what the engine refuses. *)
EXTENDS Naturals, Integers, Sequences, FiniteSets, TLC

CONSTANTS MaxLen
Names == {"x", "y", "z"}
Kind(n) == CASE n = "x" -> "single" [] n = "y" -> "optional" [] n = "z" -> "variadic"
Lits == {"kw", ","}
Elems == {<<"lit", l>> : l \in Lits} \cup {<<"op", n>> : n \in Names} \cup {<<"grp", k, n>> : k \in {"", "kw", "with"}, n \in {"y", "z"}}
NameOf(e) == IF e[1] = "op" THEN e[2] ELSE IF e[1] = "grp" THEN e[3] ELSE ""
RECURSIVE Seqs(_)
Seqs(n) == IF n = 0 THEN {<<>>} ELSE LET S == Seqs(n - 1) IN S \cup {Append(s, e) : s \in {u \in S : Len(u) = n - 1}, e \in Elems}
UsedNames(f) == {NameOf(f[k]) : k \in DOMAIN f} \ {""}
WellFormed(f) == /\ \A a, b \in DOMAIN f : (a # b /\ NameOf(f[a]) # "") => NameOf(f[a]) # NameOf(f[b])
                 /\ UsedNames(f) # {}
Formats == {f \in Seqs(MaxLen) : WellFormed(f)}

\* instances: number of values per operand
Counts(n) == CASE n = "x" -> {1} [] n = "y" -> {0, 1} [] n = "z" -> {0, 1, 2}
Instances(f) == {[ops |-> c, dict |-> d] : c \in {g \in [UsedNames(f) -> 0 .. 2] : \A n \in UsedNames(f) : g[n] \in Counts(n)}, d \in {0, 1}}

Vals(n, k) == [j \in 1 .. k |-> <<"v", n, j>>]
RECURSIVE Commas(_)
Commas(vs) == IF Len(vs) <= 1 THEN vs ELSE <<vs[1], <<"lit", ",">>>> \o Commas(Tail(vs))
PrintElem(e, i) ==
  CASE e[1] = "lit" -> <<e>>
    [] e[1] = "op" -> Commas(Vals(e[2], i.ops[e[2]]))
    [] e[1] = "grp" -> IF i.ops[e[3]] = 0 THEN <<>> ELSE (IF e[2] = "" THEN <<>> ELSE << <<"lit", e[2]>> >>) \o Commas(Vals(e[3], i.ops[e[3]]))
RECURSIVE PrintAll(_, _, _)
PrintAll(f, k, i) == IF k > Len(f) THEN <<>> ELSE PrintElem(f[k], i) \o PrintAll(f, k + 1, i)
Emitted(f, i) == PrintAll(f, 1, i) \o (IF i.dict = 1 THEN << <<"{">> >> ELSE <<>>) \o << <<"lit", ":">> >>

IsVal(ts, p) == p <= Len(ts) /\ ts[p][1] = "v"
IsLit(ts, p, l) == p <= Len(ts) /\ ts[p] = <<"lit", l>>
\* greedy value (`,` value)* with one token of lookahead, as parse_comma_separated_list does: a comma commits to another
\* value.  -> <<number of values taken (-1 = failed), new position>>
RECURSIVE TakeList(_, _, _)
TakeList(ts, p, n) == IF IsLit(ts, p, ",") THEN (IF IsVal(ts, p + 1) THEN TakeList(ts, p + 2, n + 1) ELSE <<-1, p>>) ELSE <<n, p>>
TakeOperand(kind, ts, p) ==      \* <<ok, count, position>>
  CASE kind = "single" -> IF IsVal(ts, p) THEN <<TRUE, 1, p + 1>> ELSE <<FALSE, 0, p>>
    [] kind = "optional" -> IF IsVal(ts, p) THEN <<TRUE, 1, p + 1>> ELSE <<TRUE, 0, p>>
    [] kind = "variadic" -> IF IsVal(ts, p) THEN LET r == TakeList(ts, p + 1, 1) IN <<r[1] >= 0, r[1], r[2]>> ELSE <<TRUE, 0, p>>
RECURSIVE ParseFrom(_, _, _, _, _)
ParseFrom(f, k, ts, p, acc) ==     \* acc: name -> count parsed so far
  IF k > Len(f) THEN
     LET p2 == IF p <= Len(ts) /\ ts[p] = <<"{">> THEN p + 1 ELSE p IN
     IF IsLit(ts, p2, ":") /\ p2 = Len(ts) THEN [ok |-> TRUE, ops |-> acc, dict |-> IF p2 > p THEN 1 ELSE 0] ELSE [ok |-> FALSE]
  ELSE LET e == f[k] IN
    CASE e[1] = "lit" -> IF IsLit(ts, p, e[2]) THEN ParseFrom(f, k + 1, ts, p + 1, acc) ELSE [ok |-> FALSE]
      [] e[1] = "op" -> LET r == TakeOperand(Kind(e[2]), ts, p) IN
                        IF r[1] THEN ParseFrom(f, k + 1, ts, r[3], [acc EXCEPT ![e[2]] = r[2]]) ELSE [ok |-> FALSE]
      [] e[1] = "grp" ->
           LET enter == IF e[2] = "" THEN IsVal(ts, p) ELSE IsLit(ts, p, e[2])
               p1 == IF e[2] = "" THEN p ELSE p + 1 IN
           IF ~enter THEN ParseFrom(f, k + 1, ts, p, acc)
           ELSE LET r == TakeOperand(Kind(e[3]), ts, p1) IN
                IF r[1] THEN ParseFrom(f, k + 1, ts, r[3], [acc EXCEPT ![e[3]] = r[2]]) ELSE [ok |-> FALSE]
Parse(f, ts) == ParseFrom(f, 1, ts, 1, [n \in UsedNames(f) |-> 0])
RoundTrips(f, i) == LET r == Parse(f, Emitted(f, i)) IN r.ok /\ r.ops = i.ops /\ r.dict = i.dict
Ambiguous(f) == {i \in Instances(f) : ~RoundTrips(f, i)}

VARIABLES fmt, stage
Init == stage = 0 /\ fmt \in {f \in Seqs(1) : Len(f) = 1}
Next == /\ stage = 0 /\ stage' = 1
        /\ fmt' \in {f \in Formats : f[1] = fmt[1]}
Spec == Init /\ [][Next]_<<fmt, stage>>
\* one record per format: the format and the instances that do not round-trip in the model
CountOf(i, n) == IF n \in DOMAIN i.ops THEN i.ops[n] ELSE 9      \* 9 = operand not in the format
Emit == stage = 1 => PrintT(ToString(<<"VERIF", "fmt", fmt, {<<CountOf(i, "x"), CountOf(i, "y"), CountOf(i, "z"), i.dict>> : i \in Ambiguous(fmt)}>>))
\* the unambiguous core every engine must get right: an operand list separated by keywords round-trips
KeywordSeparatedFormatsRoundTrip ==
  stage = 1 =>
    LET lead(k) == IF fmt[k][1] = "lit" THEN fmt[k][2] ELSE IF fmt[k][1] = "grp" /\ fmt[k][2] # "" THEN fmt[k][2] ELSE "%"   \* first token an element may start with
        opens(k) == fmt[k][1] = "op" \/ (fmt[k][1] = "grp" /\ fmt[k][2] = "")                                               \* starts with a value token
        ends(k) == fmt[k][1] \in {"op", "grp"}                                                                               \* ends with an operand list
    IN ((\A k \in DOMAIN fmt : fmt[k] # <<"lit", ",">>)                                    \* no comma literal next to operand lists
        /\ (\A k \in 1 .. (Len(fmt) - 1) : ~(ends(k) /\ opens(k + 1)))                    \* operand lists are separated by a keyword
        /\ (\A a, b \in DOMAIN fmt : (a < b /\ fmt[a][1] = "grp") => lead(a) # lead(b)))   \* what may follow an optional group does not start like it
       => Ambiguous(fmt) = {}
=============================================================================
