SPECIFICATION Spec
INVARIANT Done
