----------------------------- MODULE SymTabCases -----------------------------
(* Judge for C29.  Case: [t |-> nodes, q |-> <<[from, ref, got |-> <<api results>>] ...>>]; every API result
   (node id or 0; -1 = the call raised) must equal Lookup(t, from, ref). *)
EXTENDS SymbolTable, Json, IOUtils, TLC

Cases == JsonDeserialize(IOEnv.CASE_FILE)
VARIABLE i
CheckCase(k) == LET c == Cases[k] IN
  \A j \in DOMAIN c.q : LET q == c.q[j] want == Lookup(c.t, q.from, q.ref) IN
     \A a \in DOMAIN q.got : q.got[a] = want \/ PrintT(<<"VERIF", "mismatch", k, "LookupDesignatedSymbol", j, a, want>>)
Init == i = 0
Next == i < Len(Cases) /\ i' = i + 1 /\ CheckCase(i + 1)
Spec == Init /\ [][Next]_i
Done == (i = Len(Cases)) => PrintT(<<"VERIF", "done", Len(Cases)>>)
=============================================================================
