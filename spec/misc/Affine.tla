------------------------------- MODULE Affine -------------------------------
(* Value semantics of affine expressions (property C26).  An expression is a tree
     <<"c", n>> | <<"d", i>> | <<"s", i>> | <<"add", l, r>> | <<"mul", l, r>>
     | <<"floordiv", l, r>> | <<"ceildiv", l, r>> | <<"mod", l, r>>
   (dimension / symbol positions are 0-based as in xDSL; divisors and moduli are positive constants).
   Eval gives its value under an assignment; floordiv rounds towards minus infinity, mod is the
   non-negative remainder, ceildiv rounds towards plus infinity. *)
EXTENDS Integers, Sequences

RECURSIVE Eval(_, _, _)
Eval(e, dims, syms) ==
  CASE e[1] = "c" -> e[2]
    [] e[1] = "d" -> dims[e[2] + 1]
    [] e[1] = "s" -> syms[e[2] + 1]
    [] e[1] = "add" -> Eval(e[2], dims, syms) + Eval(e[3], dims, syms)
    [] e[1] = "mul" -> Eval(e[2], dims, syms) * Eval(e[3], dims, syms)
    [] e[1] = "floordiv" -> Eval(e[2], dims, syms) \div Eval(e[3], dims, syms)
    [] e[1] = "ceildiv" -> -((-Eval(e[2], dims, syms)) \div Eval(e[3], dims, syms))
    [] e[1] = "mod" -> Eval(e[2], dims, syms) % Eval(e[3], dims, syms)

\* substitution of dimensions and symbols by expressions (compose / replace_dims_and_symbols):
\* positions beyond the given lists are left alone
EvalSubst(e, newDims, newSyms, dims, syms) ==
  LET d2 == [k \in 1 .. Len(dims) |-> IF k <= Len(newDims) THEN Eval(newDims[k], dims, syms) ELSE dims[k]]
      s2 == [k \in 1 .. Len(syms) |-> IF k <= Len(newSyms) THEN Eval(newSyms[k], dims, syms) ELSE syms[k]]
  IN Eval(e, d2, s2)
=============================================================================
