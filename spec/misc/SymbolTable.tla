----------------------------- MODULE SymbolTable -----------------------------
(* Symbol resolution as property C29 states it.
   A module tree: nodes[n] = [name, table, vis, par, kids]
     name  : "" (no symbol) or the symbol name        table : 1 if the op has the SymbolTable trait
     vis   : "public" | "private" | "nested"          par   : parent node (0 for the root)
     kids  : child nodes in block order (the ops of the single block of its region, if any)
   A reference is a non-empty sequence of names <<root, nested...>>.
   Lookup(t, from, ref): the nearest enclosing symbol table of `from` (itself if it is one) resolves the
   root name among its direct children; every further name is resolved in the symbol found so far, which
   must be a symbol table; a PRIVATE symbol reached through nesting is refused.  0 = nothing. *)
EXTENDS Naturals, Sequences, FiniteSets

RECURSIVE NearestTable(_, _, _)
NearestTable(t, n, fuel) == IF n = 0 \/ fuel = 0 THEN 0
                            ELSE IF t[n].table = 1 THEN n ELSE NearestTable(t, t[n].par, fuel - 1)

\* direct children of a table: ops of its block; symbols among them
ChildNamed(t, tab, nm) ==
  LET ks == t[tab].kids
      hits == {i \in DOMAIN ks : t[ks[i]].name = nm}
  IN IF hits = {} THEN 0 ELSE ks[CHOOSE i \in hits : \A j \in hits : i <= j]

RECURSIVE Resolve(_, _, _, _)
Resolve(t, cur, ref, k) ==       \* cur = symbol found for ref[1..k-1]
  IF k > Len(ref) THEN cur
  ELSE IF t[cur].table # 1 THEN 0
  ELSE LET nxt == ChildNamed(t, cur, ref[k]) IN
       IF nxt = 0 \/ t[nxt].vis = "private" THEN 0 ELSE Resolve(t, nxt, ref, k + 1)

LookupIn(t, tab, ref) ==
  LET root == ChildNamed(t, tab, ref[1]) IN IF root = 0 THEN 0 ELSE Resolve(t, root, ref, 2)
Lookup(t, from, ref) ==
  LET tab == NearestTable(t, from, Len(t) + 1) IN IF tab = 0 THEN 0 ELSE LookupIn(t, tab, ref)
=============================================================================
