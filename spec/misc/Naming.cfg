SPECIFICATION Spec
CONSTANTS
  NVals = 3
  Deduplicate = FALSE
INVARIANT Injective
