SPECIFICATION Spec
INVARIANT Done
