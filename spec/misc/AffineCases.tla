----------------------------- MODULE AffineCases -----------------------------
(* Judge for C26.  Case: [e |-> tree, pts |-> <<<<d0, d1, s0>>...>>, forms |-> <<[name, nd, ns, vals] ...>>]
   where vals[k] is what the REAL expression obtained by transformation `name` evaluated to at pts[k]
   (nd / ns: the substituted dimension / symbol expression trees, <<>> for value-preserving rewrites). *)
EXTENDS Affine, Json, IOUtils, TLC

Cases == JsonDeserialize(IOEnv.CASE_FILE)
VARIABLE i
CheckCase(k) == LET c == Cases[k] IN
  \A f \in DOMAIN c.forms : LET F == c.forms[f] IN
    \A p \in DOMAIN c.pts :
       LET dims == <<c.pts[p][1], c.pts[p][2]>> syms == <<c.pts[p][3]>>
           want == EvalSubst(c.e, F.nd, F.ns, dims, syms)
       IN F.vals[p] = want \/ PrintT(<<"VERIF", "mismatch", k, "ValuePreserved", f, p, want>>)
Init == i = 0
Next == i < Len(Cases) /\ i' = i + 1 /\ CheckCase(i + 1)
Spec == Init /\ [][Next]_i
Done == (i = Len(Cases)) => PrintT(<<"VERIF", "done", Len(Cases)>>)
=============================================================================
