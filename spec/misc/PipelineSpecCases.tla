------------------------- MODULE PipelineSpecCases -------------------------
(* Judge for C18: what the real printer / parser / typed conversion did, evaluated against PipelineSpec.tla.
   Case kinds
     "parse": [text, num, out]                    arbitrary pipeline text -> tuple(parse_pipeline(text)) or the exception class
     "rt":    [specs, text, num, out, text2]      ArgSpecs -> ",".join(str) -> parsed -> printed again
     "pass":  [fields, name, inst, spec, text, num, out, inst2, text2]
                                                  pass instance -> .spec() -> str -> parse_pipeline -> from_spec -> str
     "pipe":  [elems, text, num, out, res, text2]  pass instances -> ",".join(str) -> PassPipeline.parse_spec -> printed again
     "opt":   [fields, name, text, num, out, inst2]   arbitrary option text handed to from_spec
   Clauses of the property (violations): FailsOnlyWithDiagnostics, RoundTrip, ReprintStable.
   Clauses binding the model to the code (divergences): PrinterMatchesModel, ParserMatchesModel, ToSpecMatchesModel,
   FromSpecMatchesModel. *)
EXTENDS PipelineSpec, Json, IOUtils, TLC

Cases == JsonDeserialize(IOEnv.CASE_FILE)
VARIABLE i

PlainVals(vs) == [k \in DOMAIN vs |-> Plain(vs[k])]
PlainSpec(s) == [name |-> s.name, params |-> [k \in DOMAIN s.params |-> <<s.params[k][1], PlainVals(s.params[k][2])>>]]
PlainField(v) == IF v[1] = "N" THEN v ELSE IF v[1] = "T" THEN <<"T", PlainVals(v[2])>> ELSE Plain(v)
PlainInst(x) == [k \in DOMAIN x |-> PlainField(x[k])]

ParserAgrees(c) == LET m == ParsePipeline(c.text, c.num) IN
                   m.e = c.out.e /\ (m.e = "" => m.specs = c.out.specs)
AllSame(a, b) == Len(a) = Len(b) /\ \A k \in DOMAIN a : SameSpec(a[k], b[k])

Failing(c) ==
  CASE c.kind = "parse" ->
         (IF c.out.e \notin Diagnostics THEN {"FailsOnlyWithDiagnostics"} ELSE {})
         \cup (IF ~ParserAgrees(c) THEN {"ParserMatchesModel"} ELSE {})
    [] c.kind = "rt" ->
         (IF PrintPipeline(c.specs) # c.text THEN {"PrinterMatchesModel"} ELSE {})
         \cup (IF ~ParserAgrees(c) THEN {"ParserMatchesModel"} ELSE {})
         \cup (IF ~(c.out.e = "" /\ AllSame(c.out.specs, [k \in DOMAIN c.specs |-> PlainSpec(c.specs[k])])) THEN {"RoundTrip"} ELSE {})
         \cup (IF c.out.e = "" /\ c.text2 # c.text THEN {"ReprintStable"} ELSE {})
    [] c.kind = "pass" ->
         (IF PlainSpec(ToSpec(c.fields, c.name, c.inst)) # c.spec THEN {"ToSpecMatchesModel"} ELSE {})
         \cup (IF PrintPipeline(<<ToSpec(c.fields, c.name, c.inst)>>) # c.text THEN {"PrinterMatchesModel"} ELSE {})
         \cup (IF ~ParserAgrees(c) THEN {"ParserMatchesModel"} ELSE {})
         \cup (IF c.out.e = "" /\ Len(c.out.specs) = 1 /\
                  LET m == FromSpec(c.fields, c.name, c.out.specs[1]) IN
                  ~(m.e = c.inst2.e /\ (m.e = "" => m.inst = c.inst2.inst))
               THEN {"FromSpecMatchesModel"} ELSE {})
         \cup (IF ~(c.out.e = "" /\ c.inst2.e = "" /\ SameInst(c.inst2.inst, PlainInst(c.inst))) THEN {"RoundTrip"} ELSE {})
         \cup (IF c.out.e = "" /\ c.inst2.e = "" /\ c.text2 # c.text THEN {"ReprintStable"} ELSE {})
    [] c.kind = "pipe" ->      \* several pass instances -> ",".join(str) -> PassPipeline.parse_spec -> instances
         (IF ~ParserAgrees(c) THEN {"ParserMatchesModel"} ELSE {})
         \cup (IF c.out.e = "" /\ c.res.e = "" /\ Len(c.out.specs) = Len(c.elems) /\
                  \E k \in DOMAIN c.elems : LET m == FromSpec(c.elems[k].fields, c.elems[k].name, c.out.specs[k]) IN
                                             ~(m.e = "" /\ k \in DOMAIN c.res.insts /\ m.inst = c.res.insts[k])
               THEN {"FromSpecMatchesModel"} ELSE {})
         \cup (IF ~(c.res.e = "" /\ Len(c.res.insts) = Len(c.elems) /\
                    \A k \in DOMAIN c.elems : SameInst(c.res.insts[k], PlainInst(c.elems[k].inst)))
               THEN {"RoundTrip"} ELSE {})
         \cup (IF c.res.e = "" /\ c.text2 # c.text THEN {"ReprintStable"} ELSE {})
    [] c.kind = "opt" ->
         (IF c.out.e \notin Diagnostics \/ c.inst2.e \notin {"", "ValueError", "skipped"} THEN {"FailsOnlyWithDiagnostics"} ELSE {})
         \cup (IF ~ParserAgrees(c) THEN {"ParserMatchesModel"} ELSE {})
         \cup (IF c.out.e = "" /\ Len(c.out.specs) = 1 /\ c.inst2.e # "skipped" /\
                  LET m == FromSpec(c.fields, c.name, c.out.specs[1]) IN
                  ~(m.e = c.inst2.e /\ (m.e = "" => m.inst = c.inst2.inst))
               THEN {"FromSpecMatchesModel"} ELSE {})

Init == i = 0
Next == /\ i < Len(Cases) /\ i' = i + 1
        /\ \A cl \in Failing(Cases[i + 1]) : PrintT(<<"VERIF", "mismatch", i + 1, cl>>)
Spec == Init /\ [][Next]_i
Done == (i = Len(Cases)) => PrintT(<<"VERIF", "done", Len(Cases)>>)
=============================================================================
