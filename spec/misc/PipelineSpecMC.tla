--------------------------- MODULE PipelineSpecMC ---------------------------
(* Design-level check of the pipeline-specification codec (C18) on the transcription in PipelineSpec.tla.
   Each initial state is one element of a bounded universe; the invariants are evaluated on every one of them.

   mode = "spec":  every ArgSpec over the value universe below prints to a text that parses back to the same ArgSpec
                   (RoundTrip), as long as it is Representable; RoundTripEvenUnrepresentable is refutable on purpose
                   (strings with \r \f \v and non-finite floats have no textual form the lexer accepts) - the check
                   requires TLC to refute it, which shows the universe reaches the corner cases.
   mode = "text":  every text over the alphabet Sigma up to length MaxLen ends in a result or a diagnostic
                   (TotalWithDiagnostics), the lexer never produces an empty token and tokens tile the text. *)
EXTENDS PipelineSpec, SequencesExt, TLC

CONSTANTS Mode, MaxLen
VARIABLES x, mode, stage
vars == <<x, mode, stage>>

Sigma == {97, 101, 49, 48, 45, 43, 46, 34, 92, 102, 123, 125, 61, 32, 44, 91, 93, 10, 233, 116}
RECURSIVE Texts(_)
Texts(n) == IF n = 0 THEN {<<>>} ELSE LET S == Texts(n - 1) IN S \cup {Append(s, c) : s \in {u \in S : Len(u) = n - 1}, c \in Sigma}

\* value universe
StrAlpha == {97, 49, 34, 92, 32, 44, 125, 61, 10, 9, 233, 13, 45, 46, 101}
Strs == {<<>>} \cup {<<a>> : a \in StrAlpha} \cup {<<a, b>> : a \in StrAlpha, b \in StrAlpha} \cup {TrueS, FalseS, <<92, 102, 97>>, <<49, 101, 45, 48, 53>>}
Fl(id, txt) == <<"f", <<id>>, <<"x">>, txt>>
Floats == { Fl(1, <<49, 46, 48>>), Fl(2, <<45, 48, 46, 53>>), Fl(3, <<49, 101, 45, 48, 53>>), Fl(4, <<49, 46, 53, 101, 45, 48, 55>>),
            Fl(5, <<49, 101, 43, 50, 50>>), Fl(6, <<105, 110, 102>>), Fl(7, <<110, 97, 110>>), Fl(8, <<45, 105, 110, 102>>) }
Ints == {<<"i", 0, <<0>>>>, <<"i", 1, <<1, 2>>>>, <<"i", 0, <<7>>>>}
Vals == {<<"b", 0>>, <<"b", 1>>} \cup Ints \cup {<<"s", s>> : s \in Strs} \cup Floats
FewVals == {<<"b", 1>>, <<"i", 1, <<1, 2>>>>, <<"s", <<34>>>>, <<"s", <<>>>>, <<"s", <<97, 32>>>>, Fl(3, <<49, 101, 45, 48, 53>>), Fl(1, <<49, 46, 48>>)}
Keys == {<<107>>, <<97, 45, 98>>, <<50, 100>>}
Names == {<<112>>, <<50, 100, 45, 120>>, MlirOpt}
NK == {<<<<112>>, <<107>>>>, <<<<50, 100, 45, 120>>, <<97, 45, 98>>>>, <<MlirOpt, <<50, 100>>>>}
ValSeqs(V) == {<<>>} \cup {<<a>> : a \in V} \cup {<<a, b>> : a \in V, b \in V}
Specs1NoVals == {[name |-> n, params |-> <<>>] : n \in Names} \cup {[name |-> n, params |-> << <<k, <<>>>> >>] : n \in Names, k \in Keys}

\* the rounding table of a printed text: every occurrence of the printed form of a float of the universe
Occ(t) == {<<lo, hi, Plain(f)>> : lo \in 1 .. Len(t), hi \in 2 .. (Len(t) + 1), f \in Floats}
NumTable(t) == SetToSeq({e \in Occ(t) : e[1] < e[2] /\ \E f \in Floats : Plain(f) = e[3] /\ SubSeq(t, e[1], e[2] - 1) = FloatText(f[4])})

PlainVals(vs) == [k \in DOMAIN vs |-> Plain(vs[k])]
PlainSpec(s) == [name |-> s.name, params |-> [k \in DOMAIN s.params |-> <<s.params[k][1], PlainVals(s.params[k][2])>>]]

BadStrChar(c) == c \in {11, 12, 13}
BadVal(v) == (v[1] = "s" /\ \E k \in DOMAIN v[2] : BadStrChar(v[2][k])) \/ (v[1] = "f" /\ v[2][1] \in {6, 7, 8})
Representable(s) == \A j \in DOMAIN s.params : \A k \in DOMAIN s.params[j][2] : ~BadVal(s.params[j][2][k])
RT(s) == LET t == PrintSpec(s)
             r == ParsePipeline(t, NumTable(t))
         IN r.e = "" /\ r.specs = <<PlainSpec(s)>>

\* Two levels so that TLC's workers share the enumeration: a seed (first value / two-character prefix) per initial state,
\* every completion of it as a successor.  The invariants speak about completed elements (stage = 1).
SeedVals == Vals \cup {<<"none">>} \cup {<<"two", vs>> : vs \in ValSeqs(FewVals)}
SpecsFrom(v) ==
  IF v = <<"none">> THEN Specs1NoVals
  ELSE IF v[1] = "two" THEN {[name |-> <<112>>, params |-> << <<k1, v[2]>>, <<k2, v2>> >>] : k1 \in Keys, k2 \in Keys, v2 \in ValSeqs(FewVals)}
                            \ {s \in [name : {<<112>>}, params : {<< <<k, v[2]>>, <<k, v2>> >> : k \in Keys, v2 \in ValSeqs(FewVals)}] : TRUE}
  ELSE {[name |-> nk[1], params |-> << <<nk[2], vs>> >>] : nk \in NK, vs \in {<<v>>} \cup {<<v, w>> : w \in Vals}}
Init == /\ mode = Mode /\ stage = 0
        /\ IF Mode = "spec" THEN x \in SeedVals ELSE x \in {t \in Texts(2) : Len(t) = 2 \/ MaxLen < 2}
Next == /\ stage = 0 /\ stage' = 1 /\ UNCHANGED mode
        /\ IF Mode = "spec" THEN x' \in SpecsFrom(x)
           ELSE x' \in {x \o u : u \in Texts(IF MaxLen > 2 THEN MaxLen - 2 ELSE 0)} \cup (IF x = <<97, 97>> THEN Texts(1) ELSE {})
Spec == Init /\ [][Next]_vars

RoundTrip == (mode = "spec" /\ stage = 1) => (Representable(x) => RT(x))
RoundTripEvenUnrepresentable == (mode = "spec" /\ stage = 1) => RT(x)
TotalWithDiagnostics == (mode = "text" /\ stage = 1) => ParsePipeline(x, <<>>).e \in Diagnostics
TokensTile == (mode = "text" /\ stage = 1) =>
  LET ts == AllToks(x, 1) IN
  /\ ts[1].lo = 1
  /\ \A k \in DOMAIN ts : (ts[k].k # "EOF" => ts[k].hi > ts[k].lo) /\ (k > 1 => ts[k].lo = ts[k - 1].hi)
  /\ ts[Len(ts)].k = "EOF" => ts[Len(ts)].lo = Len(x) + 1
=============================================================================
