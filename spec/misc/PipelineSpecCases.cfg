SPECIFICATION Spec
INVARIANT Done
