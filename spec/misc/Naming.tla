------------------------------- MODULE Naming -------------------------------
(* The stateful part of generic printing (property C04): how the printer turns name hints into printed
   SSA names.  A name is a sequence <<base, n1, n2, ...>> standing for base_n1_n2...  (TLC strings are atomic,
   so the suffix structure is made explicit).  Transcribed from IRWithName.extract_valid_name (the hint setter
   strips ONE trailing _N) and Printer.print_ssa_value (first use of a hint prints it as is, the k-th reuse
   prints hint_k; unhinted values get consecutive numbers).
   TLC tries every assignment of raw hints from a small alphabet to NVals values printed in one scope and checks
   that two values never print the same name - which the parser needs to resolve every use to its definition.
   Deduplicate = TRUE models a printer that also skips names already handed out. *)
EXTENDS Naturals, Sequences, FiniteSets, TLC

CONSTANTS NVals, Deduplicate
RawHints == {<<>>, <<"a">>, <<"a", 1>>, <<"a", 1, 2>>, <<"a", 2>>, <<"b">>, <<"a", 1, 1>>}     \* <<>> = no hint

Strip(h) == IF Len(h) >= 2 THEN SubSeq(h, 1, Len(h) - 1) ELSE h     \* extract_valid_name: one numeric suffix removed
VARIABLES raw, k, counts, names, nextId
vars == <<raw, k, counts, names, nextId>>

Init == /\ raw \in [1 .. NVals -> RawHints] /\ k = 1 /\ counts = [h \in {} |-> 0] /\ names = <<>> /\ nextId = 0

Count(h) == IF h \in DOMAIN counts THEN counts[h] ELSE 0
Used(n) == \E i \in DOMAIN names : names[i] = n
RECURSIVE Pick(_, _)
Pick(h, c) == LET n == IF c = 0 THEN h ELSE Append(h, c) IN
              IF Deduplicate /\ c > 0 /\ (Used(n) \/ n \in DOMAIN counts) THEN Pick(h, c + 1) ELSE <<n, c>>
Bump(f, h, c) == [x \in DOMAIN f \cup {h} |-> IF x = h THEN c ELSE f[x]]

PrintNext ==
  /\ k <= NVals
  /\ LET h == Strip(raw[k]) IN
     IF h = <<>>
     THEN /\ names' = Append(names, <<"#", nextId>>) /\ nextId' = nextId + 1 /\ UNCHANGED counts
     ELSE LET p == Pick(h, Count(h)) IN
          /\ names' = Append(names, p[1])
          /\ counts' = IF Deduplicate THEN Bump(Bump(counts, h, p[2] + 1), p[1], IF p[1] \in DOMAIN counts /\ p[1] # h THEN counts[p[1]] ELSE IF p[1] = h THEN p[2] + 1 ELSE 1)
                                      ELSE Bump(counts, h, p[2] + 1)
          /\ UNCHANGED nextId
  /\ k' = k + 1 /\ UNCHANGED raw
Spec == Init /\ [][PrintNext]_vars

Injective == \A i, j \in DOMAIN names : names[i] = names[j] => i = j
=============================================================================
