---------------------------- MODULE PipelineSpec ----------------------------
(* Pass-pipeline specifications (property C18): the lexer, the parser, the printer and the typed conversion
   between option values and dataclass fields, transcribed from xdsl/utils/arg_spec.py.

   Text is a sequence of code points.  The lexer is the ordered rule list of `_lexer_rules` (first rule that
   matches at the current position wins, each rule greedy); it is lazy - a token is only produced when the
   parser asks for it - so the parser operators carry a character position and call Tok on demand, which keeps
   the order of errors of the implementation (a bad escape in a value is reported before an unknown token
   further right).

   Values:  <<"b", 0|1>>   <<"i", neg, digits>>   <<"s", codepoints>>   <<"f", limbs, key>>
   A float is opaque to TLC: `limbs` are the four 16-bit limbs of its binary64 pattern and `key` is
   <<"i", neg, digits>> when the float is integral, <<"nan">> for NaNs and <<"x">> otherwise - enough to decide Python's ==
   between numbers.  The decimal->binary rounding of a NUMBER lexeme is not something TLC can compute: the
   parser operators take it from a table `num` of <<lo, hi, float>> entries supplied with the text (computed by
   exact rational arithmetic in the harness); which lexeme is a float token is decided here. *)
EXTENDS Naturals, Integers, Sequences, FiniteSets

Digit(c) == c \in 48 .. 57
Alpha(c) == c \in 65 .. 90 \/ c \in 97 .. 122
IdCh(c) == Digit(c) \/ Alpha(c) \/ c = 95 \/ c = 45            \* [A-Za-z0-9_-]
IdTail(c) == Alpha(c) \/ c = 95 \/ c = 45                      \* [A-Za-z_-]
WS == {9, 10, 11, 12, 13, 28, 29, 30, 31, 32, 133, 160, 5760} \cup (8192 .. 8202) \cup {8232, 8233, 8239, 8287, 12288}
Space(c) == c \in WS                                           \* Python's \s on str patterns
Hex(c) == Digit(c) \/ c \in 65 .. 70 \/ c \in 97 .. 102
HexVal(c) == IF c <= 57 THEN c - 48 ELSE IF c <= 70 THEN c - 55 ELSE c - 87
EscSet == {110, 102, 118, 116, 114, 34, 92}                    \* \\[nfvtr"\\]
LineBreaks == {10, 11, 12, 13}                                 \* excluded from string / pipeline literals

RunEnd(t, p, P(_)) == CHOOSE q \in p .. (Len(t) + 1) : (\A j \in p .. (q - 1) : P(t[j])) /\ (q = Len(t) + 1 \/ ~P(t[q]))

\* rule 1: [0-9]+[A-Za-z_-]+[A-Za-z0-9_-]*   (so that 2d-slice is an identifier); 0 = no match, else end (exclusive)
R1(t, p) == LET d == RunEnd(t, p, Digit) IN IF d > p /\ d <= Len(t) /\ IdTail(t[d]) THEN RunEnd(t, d, IdCh) ELSE 0
\* rule 2: [-+]?[0-9]+(\.[0-9]*([eE][-+]?[0-9]+)?)?
R2(t, p) ==
  LET s == IF t[p] \in {43, 45} THEN p + 1 ELSE p
      d == IF s <= Len(t) THEN RunEnd(t, s, Digit) ELSE s
  IN IF d = s THEN 0
     ELSE IF d <= Len(t) /\ t[d] = 46
          THEN LET f == RunEnd(t, d + 1, Digit) IN
               IF f <= Len(t) /\ t[f] \in {69, 101}
               THEN LET es == IF f + 1 <= Len(t) /\ t[f + 1] \in {43, 45} THEN f + 2 ELSE f + 1
                        ed == IF es <= Len(t) THEN RunEnd(t, es, Digit) ELSE es
                    IN IF ed > es THEN ed ELSE f
               ELSE f
          ELSE d
\* rules 4 and 5: "(\\[nfvtr"\\]|[^\n\f\v\r"\\])*"   and the same between [ and ]
RECURSIVE LitEnd(_, _, _)
LitEnd(t, j, term) ==
  IF j > Len(t) THEN 0
  ELSE IF t[j] = term THEN j + 1
  ELSE IF t[j] = 92 THEN (IF j + 1 <= Len(t) /\ t[j + 1] \in EscSet THEN LitEnd(t, j + 2, term) ELSE 0)
  ELSE IF t[j] \in LineBreaks THEN 0
  ELSE LitEnd(t, j + 1, term)

T(k, lo, hi) == [k |-> k, lo |-> lo, hi |-> hi]
Tok(t, p) ==
  IF p > Len(t) THEN T("EOF", p, p)
  ELSE LET c == t[p] IN
       IF R1(t, p) # 0 THEN T("IDENT", p, R1(t, p))
       ELSE IF R2(t, p) # 0 THEN T("NUMBER", p, R2(t, p))
       ELSE IF IdCh(c) THEN T("IDENT", p, RunEnd(t, p, IdCh))
       ELSE IF c = 34 /\ LitEnd(t, p + 1, 34) # 0 THEN T("STRING", p, LitEnd(t, p + 1, 34))
       ELSE IF c = 91 /\ LitEnd(t, p + 1, 93) # 0 THEN T("MLIR", p, LitEnd(t, p + 1, 93))
       ELSE IF c = 123 THEN T("LB", p, p + 1)
       ELSE IF c = 125 THEN T("RB", p, p + 1)
       ELSE IF c = 61 THEN T("EQ", p, p + 1)
       ELSE IF Space(c) THEN T("SPACE", p, RunEnd(t, p, Space))
       ELSE IF c = 44 THEN T("COMMA", p, p + 1)
       ELSE T("ERR", p, p + 1)
Lexeme(t, tk) == SubSeq(t, tk.lo, tk.hi - 1)
RECURSIVE AllToks(_, _)
AllToks(t, p) == LET tk == Tok(t, p) IN IF tk.k \in {"EOF", "ERR"} THEN <<tk>> ELSE <<tk>> \o AllToks(t, tk.hi)

(* ---- UTF-8 (StringLiteral.bytes_contents encodes the text, .string_contents decodes the bytes) ---- *)
Utf8(c) == IF c < 128 THEN <<c>>
           ELSE IF c < 2048 THEN <<192 + (c \div 64), 128 + (c % 64)>>
           ELSE IF c < 65536 THEN <<224 + (c \div 4096), 128 + ((c \div 64) % 64), 128 + (c % 64)>>
           ELSE <<240 + (c \div 262144), 128 + ((c \div 4096) % 64), 128 + ((c \div 64) % 64), 128 + (c % 64)>>
In(b, j, lo, hi) == j <= Len(b) /\ b[j] >= lo /\ b[j] <= hi
C(b, j) == b[j] - 128
RECURSIVE Dec(_, _, _)
Dec(b, j, acc) ==
  IF j > Len(b) THEN [ok |-> TRUE, s |-> acc]
  ELSE LET x == b[j] IN
    IF x < 128 THEN Dec(b, j + 1, Append(acc, x))
    ELSE IF x \in 194 .. 223 /\ In(b, j + 1, 128, 191) THEN Dec(b, j + 2, Append(acc, (x - 192) * 64 + C(b, j + 1)))
    ELSE IF /\ x \in 224 .. 239
            /\ In(b, j + 1, IF x = 224 THEN 160 ELSE 128, IF x = 237 THEN 159 ELSE 191)
            /\ In(b, j + 2, 128, 191)
         THEN Dec(b, j + 3, Append(acc, (x - 224) * 4096 + C(b, j + 1) * 64 + C(b, j + 2)))
    ELSE IF /\ x \in 240 .. 244
            /\ In(b, j + 1, IF x = 240 THEN 144 ELSE 128, IF x = 244 THEN 143 ELSE 191)
            /\ In(b, j + 2, 128, 191) /\ In(b, j + 3, 128, 191)
         THEN Dec(b, j + 4, Append(acc, (x - 240) * 262144 + C(b, j + 1) * 4096 + C(b, j + 2) * 64 + C(b, j + 3)))
    ELSE [ok |-> FALSE, s |-> <<>>]

\* StringLiteral.bytes_contents over the characters strictly between the quotes: t[j .. e]
RECURSIVE Unesc(_, _, _, _)
Unesc(t, j, e, acc) ==
  IF j > e THEN [ok |-> TRUE, b |-> acc]
  ELSE IF t[j] # 92 THEN Unesc(t, j + 1, e, acc \o Utf8(t[j]))
  ELSE IF j + 1 > e THEN [ok |-> FALSE, b |-> <<>>]
  ELSE IF t[j + 1] \in {110, 116, 92, 34}
       THEN Unesc(t, j + 2, e, Append(acc, CASE t[j + 1] = 110 -> 10 [] t[j + 1] = 116 -> 9 [] OTHER -> t[j + 1]))
  ELSE IF j + 2 <= e /\ Hex(t[j + 1]) /\ Hex(t[j + 2]) THEN Unesc(t, j + 3, e, Append(acc, 16 * HexVal(t[j + 1]) + HexVal(t[j + 2])))
  ELSE [ok |-> FALSE, b |-> <<>>]

(* ---- values ---- *)
RECURSIVE StripZeros(_)
StripZeros(d) == IF Len(d) > 1 /\ d[1] = 0 THEN StripZeros(Tail(d)) ELSE d
IntOf(lex) ==
  LET signed == lex[1] \in {43, 45}
      ds == StripZeros([k \in 1 .. (Len(lex) - (IF signed THEN 1 ELSE 0)) |-> lex[k + (IF signed THEN 1 ELSE 0)] - 48])
  IN <<"i", IF lex[1] = 45 /\ ds # <<0>> THEN 1 ELSE 0, ds>>
FloatAt(num, lo, hi) == IF \E k \in DOMAIN num : num[k][1] = lo /\ num[k][2] = hi
                        THEN (num[CHOOSE k \in DOMAIN num : num[k][1] = lo /\ num[k][2] = hi])[3]
                        ELSE <<"f", <<>>, <<"unknown-lexeme">>>>
Has(s, c) == \E k \in DOMAIN s : s[k] = c
TrueS == <<116, 114, 117, 101>>
FalseS == <<102, 97, 108, 115, 101>>
MlirOpt == <<109, 108, 105, 114, 45, 111, 112, 116>>

(* ---- parser: results are records with e = "" (success) or the class of the raised exception ---- *)
Fail(e) == [e |-> e]
BadUtf8 == "ArgSpecParseError"     \* bytes from hex escapes that do not decode (before the fix: the UnicodeDecodeError escaped)
\* _parse_parameter_value_element
PElem(t, num, p) ==
  LET tk == Tok(t, p) IN
  CASE tk.k = "STRING" ->
         LET u == Unesc(t, tk.lo + 1, tk.hi - 2, <<>>) IN
         IF ~u.ok THEN Fail("ParseError")
         ELSE LET d == Dec(u.b, 1, <<>>) IN
              IF d.ok THEN [e |-> "", pos |-> tk.hi, v |-> <<"s", d.s>>] ELSE Fail(BadUtf8)
    [] tk.k = "NUMBER" -> [e |-> "", pos |-> tk.hi,
                           v |-> IF Has(Lexeme(t, tk), 46) THEN FloatAt(num, tk.lo, tk.hi) ELSE IntOf(Lexeme(t, tk))]
    [] tk.k = "IDENT" -> [e |-> "", pos |-> tk.hi,
                          v |-> IF Lexeme(t, tk) = TrueS THEN <<"b", 1>> ELSE IF Lexeme(t, tk) = FalseS THEN <<"b", 0>> ELSE <<"s", Lexeme(t, tk)>>]
    [] OTHER -> Fail("ArgSpecParseError")
\* _parse_parameter_value: value (`,` value)*
RECURSIVE PValue(_, _, _, _)
PValue(t, num, p, acc) ==
  LET r == PElem(t, num, p) IN
  IF r.e # "" THEN r
  ELSE LET nx == Tok(t, r.pos) IN
       IF nx.k = "ERR" THEN Fail("ArgSpecParseError")
       ELSE IF nx.k = "COMMA" THEN PValue(t, num, nx.hi, Append(acc, r.v))
       ELSE [e |-> "", pos |-> r.pos, v |-> Append(acc, r.v)]
\* dict assignment: an existing key keeps its position and takes the new value
Put(args, k, v) == IF \E j \in DOMAIN args : args[j][1] = k
                   THEN [j \in DOMAIN args |-> IF args[j][1] = k THEN <<k, v>> ELSE args[j]]
                   ELSE Append(args, <<k, v>>)
\* _parse_pass_parameters (the `{` is already consumed)
RECURSIVE PParams(_, _, _, _)
PParams(t, num, p, args) ==
  LET name == Tok(t, p) IN
  IF name.k = "RB" THEN [e |-> "", pos |-> name.hi, args |-> args]
  ELSE IF name.k # "IDENT" THEN Fail("ArgSpecParseError")
  ELSE LET key == Lexeme(t, name)
           nx == Tok(t, name.hi) IN
       CASE nx.k = "SPACE" -> PParams(t, num, nx.hi, Put(args, key, <<>>))
         [] nx.k = "RB" -> [e |-> "", pos |-> nx.hi, args |-> Put(args, key, <<>>)]
         [] nx.k = "EQ" ->
              LET r == PValue(t, num, nx.hi, <<>>) IN
              IF r.e # "" THEN r
              ELSE LET af == Tok(t, r.pos) IN
                   CASE af.k = "SPACE" -> PParams(t, num, af.hi, Put(args, key, r.v))
                     [] af.k = "RB" -> [e |-> "", pos |-> af.hi, args |-> Put(args, key, r.v)]
                     [] OTHER -> Fail("ArgSpecParseError")
         [] OTHER -> Fail("ArgSpecParseError")
Str(s) == <<"s", s>>
MlirArgs(inner) ==   \* what the `mlir-opt[...]` shorthand expands to
  << Str(<<45,45,109,108,105,114,45,112,114,105,110,116,45,111,112,45,103,101,110,101,114,105,99>>),
     Str(<<45,45,97,108,108,111,119,45,117,110,114,101,103,105,115,116,101,114,101,100,45,100,105,97,108,101,99,116>>),
     Str(<<45,112>>),
     Str(<<98,117,105,108,116,105,110,46,109,111,100,117,108,101,40>> \o inner \o <<41>>) >>
Arguments == <<97, 114, 103, 117, 109, 101, 110, 116, 115>>
\* _parse_spec
PSpec(t, num, p) ==
  LET name == Tok(t, p) IN
  IF name.k # "IDENT" THEN Fail("ArgSpecParseError")
  ELSE LET nx == Tok(t, name.hi)
           nm == Lexeme(t, name) IN
       CASE nx.k \in {"EOF", "COMMA"} -> [e |-> "", pos |-> name.hi, spec |-> [name |-> nm, params |-> <<>>]]
         [] nx.k = "LB" -> LET r == PParams(t, num, nx.hi, <<>>) IN
                           IF r.e # "" THEN r ELSE [e |-> "", pos |-> r.pos, spec |-> [name |-> nm, params |-> r.args]]
         [] nx.k = "MLIR" -> IF nm # MlirOpt THEN Fail("ArgSpecParseError")
                             ELSE [e |-> "", pos |-> nx.hi,
                                   spec |-> [name |-> MlirOpt, params |-> << <<Arguments, MlirArgs(SubSeq(t, nx.lo + 1, nx.hi - 2))>> >>]]
         [] OTHER -> Fail("ArgSpecParseError")
\* parse_pipeline, consumed to the end (tuple(parse_pipeline(text)))
RECURSIVE PPipe(_, _, _, _)
PPipe(t, num, p, acc) ==
  LET first == Tok(t, p) IN
  IF first.k = "EOF" THEN [e |-> "", specs |-> acc]
  ELSE LET r == PSpec(t, num, p) IN
       IF r.e # "" THEN [e |-> r.e, specs |-> acc]
       ELSE LET nx == Tok(t, r.pos) IN
            CASE nx.k = "EOF" -> [e |-> "", specs |-> Append(acc, r.spec)]
              [] nx.k = "COMMA" -> PPipe(t, num, nx.hi, Append(acc, r.spec))
              [] OTHER -> [e |-> "ArgSpecParseError", specs |-> Append(acc, r.spec)]
ParsePipeline(t, num) == PPipe(t, num, 1, <<>>)
\* the classes of exception the property allows a pipeline string to end in
Diagnostics == {"", "ArgSpecParseError", "ParseError"}

(* ---- printer: ArgSpec.__str__; a float is printed through its Python str(), given with the value as
        <<"f", limbs, key, text>> ---- *)
RECURSIVE Join(_, _)
Join(parts, sep) == IF parts = <<>> THEN <<>> ELSE IF Len(parts) = 1 THEN parts[1] ELSE parts[1] \o sep \o Join(Tail(parts), sep)
RECURSIVE Escape(_)
Escape(s) == IF s = <<>> THEN <<>>
             ELSE (CASE s[1] = 92 -> <<92, 92>> [] s[1] = 34 -> <<92, 34>> [] s[1] = 10 -> <<92, 110>> [] OTHER -> <<s[1]>>) \o Escape(Tail(s))
FloatText(r) == IF Has(r, 101) /\ ~Has(r, 46)
                THEN LET k == CHOOSE k \in DOMAIN r : r[k] = 101 IN SubSeq(r, 1, k - 1) \o <<46, 48>> \o SubSeq(r, k, Len(r))
                ELSE r
PrintVal(v) == CASE v[1] = "b" -> IF v[2] = 1 THEN TrueS ELSE FalseS
                 [] v[1] = "s" -> <<34>> \o Escape(v[2]) \o <<34>>
                 [] v[1] = "i" -> (IF v[2] = 1 THEN <<45>> ELSE <<>>) \o [k \in DOMAIN v[3] |-> v[3][k] + 48]
                 [] v[1] = "f" -> FloatText(v[4])
PrintParam(kv) == IF kv[2] = <<>> THEN kv[1] ELSE kv[1] \o <<61>> \o Join([k \in DOMAIN kv[2] |-> PrintVal(kv[2][k])], <<44>>)
PrintSpec(s) == s.name \o (IF s.params = <<>> THEN <<>> ELSE <<123>> \o Join([k \in DOMAIN s.params |-> PrintParam(s.params[k])], <<32>>) \o <<125>>)
PrintPipeline(ss) == Join([k \in DOMAIN ss |-> PrintSpec(ss[k])], <<44>>)

(* ---- Python's == on option values (bool is an int, an integral float equals the int, NaN equals nothing) ---- *)
NumKey(v) == CASE v[1] = "b" -> <<"i", 0, <<v[2]>>>>
               [] v[1] = "i" -> v
               [] v[1] = "f" -> IF v[3][1] = "i" THEN v[3] ELSE <<"f", v[2]>>
PyEq(a, b) == IF a[1] = "s" \/ b[1] = "s" THEN a[1] = b[1] /\ a[2] = b[2]
              ELSE IF (a[1] = "f" /\ a[3][1] = "nan") \/ (b[1] = "f" /\ b[3][1] = "nan") THEN FALSE
              ELSE NumKey(a) = NumKey(b)
Plain(v) == IF v[1] = "f" THEN <<"f", v[2], v[3]>> ELSE v       \* drops the print text of a float
SameVals(x, y) == Len(x) = Len(y) /\ \A k \in DOMAIN x : PyEq(x[k], y[k])
\* dict equality of two parameter lists (keys unique on both sides)
SameParams(x, y) == /\ Len(x) = Len(y)
                    /\ \A j \in DOMAIN x : \E k \in DOMAIN y : x[j][1] = y[k][1] /\ SameVals(x[j][2], y[k][2])
SameSpec(a, b) == a.name = b.name /\ SameParams(a.params, b.params)

(* ---- typed conversion: ArgSpecConvertible.from_spec / .spec().
   A field is [name, alts, hasdef, def]; alts is the set of alternatives of its annotation:
   <<"int">> <<"float">> <<"bool">> <<"str">> <<"none">>, <<"lit", <<strings>>>>, <<"tuple", <<element alternatives>>>>;
   union = the annotation is a Union (X | Y, Optional[X]).  A field value is <<"N">> (None), <<"T", values>> or a value. ---- *)
IsaBase(v, a) == CASE a[1] = "int" -> v[1] \in {"i", "b"}       \* isinstance(True, int)
                   [] a[1] = "float" -> v[1] = "f"
                   [] a[1] = "bool" -> v[1] = "b"
                   [] a[1] = "str" -> v[1] = "s"
                   [] a[1] = "lit" -> v[1] = "s" /\ \E k \in DOMAIN a[2] : a[2][k] = v[2]
                   [] OTHER -> FALSE
IsaOne(v, alts) == \E k \in DOMAIN alts : IsaBase(v, alts[k])
IsaTuple(vals, alts) == \E k \in DOMAIN alts : alts[k][1] = "tuple" /\ \A j \in DOMAIN vals : IsaOne(vals[j], alts[k][2])
HasNone(alts) == \E k \in DOMAIN alts : alts[k][1] = "none"
\* _convert_arg_to_type
Convert(vals, f) ==
  IF f.union = 1 /\ vals = <<>> /\ HasNone(f.alts) THEN [e |-> "", v |-> <<"N">>]
  ELSE IF f.union = 1 /\ vals = <<>> /\ ~IsaTuple(vals, f.alts) THEN [e |-> "ValueError"]
  ELSE IF Len(vals) = 1 /\ IsaOne(vals[1], f.alts) THEN [e |-> "", v |-> vals[1]]
  ELSE IF IsaTuple(vals, f.alts) THEN [e |-> "", v |-> <<"T", vals>>]
  ELSE [e |-> "ValueError"]
Optional(f) == HasNone(f.alts) \/ f.hasdef = 1                     \* _is_optional
Norm(k) == [j \in DOMAIN k |-> IF k[j] = 45 THEN 95 ELSE k[j]]   \* normalize_parameter_names
Lookup(params, name) == IF \E j \in DOMAIN params : Norm(params[j][1]) = name
                        THEN <<TRUE, (params[CHOOSE j \in DOMAIN params : Norm(params[j][1]) = name /\
                                                   \A i \in DOMAIN params : Norm(params[i][1]) = name => i <= j])[2]>>
                        ELSE <<FALSE, <<>>>>
\* from_spec: every field converted in declaration order, left-over arguments are an error
FromSpec(fields, name, spec) ==
  IF spec.name # name THEN [e |-> "ValueError"]
  ELSE LET one(f) == LET l == Lookup(spec.params, f.name) IN
                     IF ~l[1] THEN (IF Optional(f) THEN [e |-> "", v |-> f.def] ELSE [e |-> "ValueError"])
                     ELSE Convert(l[2], f)
       IN IF \E k \in DOMAIN fields : one(fields[k]).e # "" THEN [e |-> "ValueError"]
          ELSE IF \E j \in DOMAIN spec.params : ~\E k \in DOMAIN fields : fields[k].name = Norm(spec.params[j][1]) THEN [e |-> "ValueError"]
          ELSE [e |-> "", inst |-> [k \in DOMAIN fields |-> one(fields[k]).v]]
\* Python == between two field values
FieldEq(x, y) == IF x[1] = "N" \/ y[1] = "N" THEN x[1] = y[1]
                 ELSE IF x[1] = "T" \/ y[1] = "T" THEN x[1] = y[1] /\ SameVals(x[2], y[2])
                 ELSE PyEq(x, y)
\* spec(): defaults of optional fields are left out
RECURSIVE SpecParams(_, _, _)
SpecParams(fields, inst, k) ==
  IF k > Len(fields) THEN <<>>
  ELSE LET f == fields[k]
           v == inst[k]
           rest == SpecParams(fields, inst, k + 1)
       IN IF Optional(f) /\ FieldEq(v, f.def) THEN rest
          ELSE << <<f.name, IF v[1] = "N" THEN <<>> ELSE IF v[1] = "T" THEN v[2] ELSE <<v>>>> >> \o rest
ToSpec(fields, name, inst) == [name |-> name, params |-> SpecParams(fields, inst, 1)]
SameInst(x, y) == Len(x) = Len(y) /\ \A k \in DOMAIN x : FieldEq(x[k], y[k])
=============================================================================
