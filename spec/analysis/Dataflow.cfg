SPECIFICATION Spec
CONSTANTS
  NOps = 3
  NArgs = 1
INVARIANT FixpointReached
INVARIANT NeverOvershoots
