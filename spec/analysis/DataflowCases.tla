---------------------------- MODULE DataflowCases ----------------------------
(* Judge for C25: each case is a program, the seeded values and the liveness the REAL solver computed
   under one schedule; TLC evaluates the declarative fixpoint and compares.
   Case: [prog |-> <<[opn, nres, rem]...>>, seeds |-> <<v...>>, live |-> <<v...>>]  with values as <<i, k>>. *)
EXTENDS DataflowDefs, Json, IOUtils, TLC

Cases == JsonDeserialize(IOEnv.CASE_FILE)
VARIABLE i
ToSet(s) == {s[k] : k \in DOMAIN s}
Prog(c) == [k \in DOMAIN c.prog |-> [opn |-> c.prog[k].opn, nres |-> c.prog[k].nres, rem |-> c.prog[k].rem = 1]]
Verdict(c) == LET want == LiveSet(Prog(c), ToSet(c.seeds)) got == ToSet(c.live) IN
  IF want \ got # {} THEN "LiveValueReportedDead"
  ELSE IF got \ want # {} THEN "DeadValueReportedLive" ELSE "ok"
Init == i = 0
Next == /\ i < Len(Cases) /\ i' = i + 1
        /\ LET v == Verdict(Cases[i + 1]) IN (v # "ok" => PrintT(<<"VERIF", "mismatch", i + 1, v>>))
Spec == Init /\ [][Next]_i
Done == (i = Len(Cases)) => PrintT(<<"VERIF", "done", Len(Cases)>>)
=============================================================================
