SPECIFICATION Spec
INVARIANT Done
