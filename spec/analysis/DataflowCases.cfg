SPECIFICATION Spec
INVARIANT Done
