---------------------------- MODULE DataflowDefs ----------------------------
(* Branch-free single-block programs for the liveness property (C25) and the declarative fixpoint.
   A program is a sequence of ops; op i = [opn |-> Seq(value), nres |-> 0..2, rem |-> BOOLEAN]
   (rem = would_be_trivially_dead: pure / read-only, no terminator, no symbol).
   Values: <<0, k>> = k-th block argument, <<i, k>> = k-th result of op i.
   Live(prog, seeds) is the LEAST set containing the seeds and closed under
     "v is an operand of an op that is not trivially removable or has a live result". *)
EXTENDS Naturals, Sequences, FiniteSets

Operands(op) == {op.opn[k] : k \in DOMAIN op.opn}
Results(i, op) == {<<i, k>> : k \in 1 .. op.nres}

RECURSIVE Close(_, _)
Close(prog, S) ==
  LET add == UNION {Operands(prog[i]) : i \in {i \in DOMAIN prog : ~prog[i].rem \/ Results(i, prog[i]) \cap S # {}}}
      T == S \cup add
  IN IF T = S THEN S ELSE Close(prog, T)
LiveSet(prog, seeds) == Close(prog, seeds)
=============================================================================
