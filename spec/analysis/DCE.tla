--------------------------------- MODULE DCE ---------------------------------
(* Dead-code elimination (property C13), declaratively.
   A program graph:  ops[o]     = [rem, rec, eff, blk, opn, regs]   rem = would be trivially dead when unused (no terminator,
                                                           no symbol, no possibly observable effect); opn = defining
                                                           ops of the operands (0 = block argument); rec = 1: the op's
                                                           effects are those of the ops nested in its regions (all blocks)
                     blocks[b]  = [reg, succ]              successors of the block's terminator
                     regions[r] = [par, first]             parent op (0 = the root region) and entry block
   Visited ops  : ops whose block is reachable from the entry of its region, the region's parent op being
                  visited itself (region_dce walks into the regions of every op it visits).
   Live         : least set with   o visited /\ (~rem[o] \/ some Live op uses a result of o).
   Kept         : Live ops all of whose ancestors are Live; kept blocks: reachable blocks of visited regions.
   C13: the dce pass keeps exactly Kept; trivial-dead removal in the greedy driver removes only non-Kept ops
   that are removable and unused. *)
EXTENDS Naturals, Sequences, FiniteSets

AsSet(s) == {s[i] : i \in DOMAIN s}
RECURSIVE ReachFrom(_, _)
ReachFrom(g, S) == LET T == S \cup UNION {AsSet(g.blocks[b].succ) : b \in S} IN IF T = S THEN S ELSE ReachFrom(g, T)
ReachBlocks(g, r) == IF g.regions[r].first = 0 THEN {} ELSE ReachFrom(g, {g.regions[r].first})

RECURSIVE VisitedOp(_, _, _)
VisitedOp(g, o, fuel) ==
  LET b == g.ops[o].blk r == g.blocks[b].reg p == g.regions[r].par IN
  /\ b \in ReachBlocks(g, r)
  /\ (p = 0 \/ (fuel > 0 /\ VisitedOp(g, p, fuel - 1)))
Visited(g) == {o \in DOMAIN g.ops : VisitedOp(g, o, Len(g.ops))}

\* recursive effects: an op with rec = 1 has an observable effect iff some op nested in any block of its regions has one
\* (eff = 1: write / unknown effects; pure and read-only ops, also pure terminators and pure symbols, have eff = 0);
\* it is removable when unused iff it has none.  Other ops: rem as given.
NestedOps(g, o) == {x \in DOMAIN g.ops : \E k \in DOMAIN g.ops[o].regs : g.blocks[g.ops[x].blk].reg = g.ops[o].regs[k]}
RECURSIVE NoEff(_, _, _)
NoEff(g, o, fuel) == IF g.ops[o].rec = 1 THEN fuel > 0 /\ \A x \in NestedOps(g, o) : NoEff(g, x, fuel - 1) ELSE g.ops[o].eff = 0
Rem(g, o) == IF g.ops[o].rec = 1 THEN NoEff(g, o, Len(g.ops)) ELSE g.ops[o].rem = 1
Users(g, o) == {u \in DOMAIN g.ops : \E k \in DOMAIN g.ops[u].opn : g.ops[u].opn[k] = o}
RECURSIVE LiveFrom(_, _)
LiveFrom(g, S) == LET T == S \cup {o \in Visited(g) : Users(g, o) \cap S # {}} IN IF T = S THEN S ELSE LiveFrom(g, T)
Live(g) == LiveFrom(g, {o \in Visited(g) : ~Rem(g, o)})

RECURSIVE AncLive(_, _, _, _)
AncLive(g, L, o, fuel) == LET p == g.regions[g.blocks[g.ops[o].blk].reg].par IN
  p = 0 \/ (fuel > 0 /\ p \in L /\ AncLive(g, L, p, fuel - 1))
Kept(g) == LET L == Live(g) IN {o \in L : AncLive(g, L, o, Len(g.ops))}
KeptBlocks(g) == {b \in DOMAIN g.blocks :
                    LET r == g.blocks[b].reg p == g.regions[r].par IN
                    b \in ReachBlocks(g, r) /\ (p = 0 \/ p \in Kept(g))}

\* ops nested (transitively) in a set of removed ops disappear with them
RECURSIVE Under(_, _, _)
Under(g, S, fuel) == IF fuel = 0 THEN S ELSE
  LET T == S \cup {o \in DOMAIN g.ops : g.regions[g.blocks[g.ops[o].blk].reg].par \in S} IN IF T = S THEN S ELSE Under(g, T, fuel - 1)
\* what the trivial-dead removal of the greedy driver may remove: removable ops all of whose users are already gone
\* (removed themselves or nested in a removed op), transitively
RECURSIVE TrivDead(_, _)
TrivDead(g, D) == LET T == D \cup {o \in DOMAIN g.ops : Rem(g, o) /\ Users(g, o) \subseteq Under(g, D, Len(g.ops))} IN
                  IF T = D THEN D ELSE TrivDead(g, T)
RemovableByApplier(g) == TrivDead(g, {})
=============================================================================
