------------------------------ MODULE Dataflow ------------------------------
(* The sparse backward liveness analysis running inside DataFlowSolver (property C25), transcribed:
   SparseBackwardDataFlowAnalysis.initialize (backward walk of the block), visit_operation (early return
   while the block is not executable; registering the op as dependent of its result lattices),
   LivenessAnalysis.visit_operation_impl, AnalysisState.on_update (enqueue dependents),
   Executable.on_update (enqueue every op of a block that becomes executable for its subscribers).
   The solver's worklist is a SET from which ANY element may be taken: every schedule is explored.
   Modes: "premarked" (block marked executable up front, as the repository's tests do) and
   "liveness_first" (LivenessAnalysis loaded before DeadCodeAnalysis, so all ops are re-enqueued when the
   block becomes executable).  Checked at quiescence: the lattice equals the declarative least fixpoint. *)
EXTENDS DataflowDefs, TLC

CONSTANTS NOps, NArgs
VARIABLES prog, seeds, mode, live, wl, registered, executable, pc, pos
vars == <<prog, seeds, mode, live, wl, registered, executable, pc, pos>>

ArgVals == {<<0, k>> : k \in 1 .. NArgs}
ValsBefore(p, i) == ArgVals \cup UNION {Results(j, p[j]) : j \in 1 .. i - 1}
OperandSeqs(V) == {<<>>} \cup {<<v>> : v \in V} \cup {<<v, w>> : v, w \in V}
OpChoices(V) == [opn : OperandSeqs(V), nres : 0 .. 2, rem : BOOLEAN]

RECURSIVE Programs(_, _)
Programs(p, i) == IF i > NOps THEN {p} ELSE UNION {Programs(Append(p, o), i + 1) : o \in OpChoices(ValsBefore(p, i))}
AllVals(p) == ValsBefore(p, Len(p) + 1)

Init == /\ prog \in Programs(<<>>, 1)
        /\ seeds \in SUBSET AllVals(prog)
        /\ mode \in {"premarked", "liveness_first"}
        /\ live = seeds /\ wl = {} /\ registered = {}
        /\ executable = (mode = "premarked")
        /\ pc = "init" /\ pos = Len(prog)

DefOf(v) == v[1]     \* defining op (0 for block arguments)
\* the transfer function of one visit: returns <<live', registered', newly enqueued ops>>
VisitResult(o) ==
  IF prog[o].opn = <<>> \/ ~executable THEN <<live, registered, {}>>
  ELSE LET reg == registered \cup {o}
           fires == ~prog[o].rem \/ Results(o, prog[o]) \cap live # {}
           newly == IF fires THEN Operands(prog[o]) \ live ELSE {}
       IN <<live \cup newly, reg, {DefOf(v) : v \in newly} \cap reg>>

\* initialize(): backward walk over the block
InitVisit == /\ pc = "init" /\ pos >= 1
             /\ LET r == VisitResult(pos) IN live' = r[1] /\ registered' = r[2] /\ wl' = wl \cup r[3]
             /\ pos' = pos - 1 /\ UNCHANGED <<prog, seeds, mode, executable, pc>>
\* after the walk: DeadCodeAnalysis.initialize marks the entry block executable -> every op is enqueued
InitDone == /\ pc = "init" /\ pos = 0
            /\ IF mode = "liveness_first" THEN executable' = TRUE /\ wl' = wl \cup (1 .. Len(prog))
                                          ELSE UNCHANGED <<executable, wl>>
            /\ pc' = "run" /\ UNCHANGED <<prog, seeds, mode, live, registered, pos>>
\* the solver loop with an arbitrary schedule
Dequeue(o) == /\ pc = "run" /\ o \in wl
              /\ LET r == VisitResult(o) IN live' = r[1] /\ registered' = r[2] /\ wl' = (wl \ {o}) \cup r[3]
              /\ UNCHANGED <<prog, seeds, mode, executable, pc, pos>>
Quiesce == /\ pc = "run" /\ wl = {} /\ pc' = "done" /\ UNCHANGED <<prog, seeds, mode, live, wl, registered, executable, pos>>

Next == InitVisit \/ InitDone \/ (\E o \in 1 .. NOps : Dequeue(o)) \/ Quiesce
Spec == Init /\ [][Next]_vars

FixpointReached == pc = "done" => live = LiveSet(prog, seeds)
NeverOvershoots == live \subseteq LiveSet(prog, seeds)
=============================================================================
