------------------------------ MODULE DCECases ------------------------------
(* Judge for C13: a program graph plus what the real passes left of it.
   Case: [g |-> [ops, blocks, regions], pass |-> "dce" | "applier", kept |-> <<op ids>>, keptb |-> <<block ids>>] *)
EXTENDS DCE, Json, IOUtils, TLC

Cases == JsonDeserialize(IOEnv.CASE_FILE)
VARIABLE i
Verdict(c) ==
  LET g == c.g
      kept == AsSet(c.kept)
      removed == (DOMAIN g.ops) \ kept
  IN IF c.pass = "dce" THEN
        IF \E o \in removed : o \in Kept(g) THEN "RemovesOnlyUnobservableCode"
        ELSE IF \E o \in kept : o \notin Kept(g) THEN "NoRemovableOperationRemains"
        ELSE IF AsSet(c.keptb) # KeptBlocks(g) THEN
             (IF \E b \in KeptBlocks(g) : b \notin AsSet(c.keptb) THEN "RemovesOnlyUnreachableBlocks" ELSE "NoUnreachableBlockRemains")
        ELSE "ok"
     ELSE \* greedy applier / RemoveUnusedOperations: safety only
        IF ~(removed \subseteq Under(g, RemovableByApplier(g), Len(g.ops))) THEN "RemovesOnlyUnobservableCode"
        \* trivial-dead removal never removes blocks except those that disappear inside a removed (recursive-effect) op
        ELSE IF AsSet(c.keptb) # {b \in DOMAIN g.blocks : g.regions[g.blocks[b].reg].par = 0 \/ g.regions[g.blocks[b].reg].par \in kept}
             THEN "RemovesOnlyUnreachableBlocks" ELSE "ok"

Init == i = 0
Next == /\ i < Len(Cases) /\ i' = i + 1
        /\ LET v == Verdict(Cases[i + 1]) IN (v # "ok" => PrintT(<<"VERIF", "mismatch", i + 1, v>>))
Spec == Init /\ [][Next]_i
Done == (i = Len(Cases)) => PrintT(<<"VERIF", "done", Len(Cases)>>)
=============================================================================
