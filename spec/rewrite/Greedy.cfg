SPECIFICATION Spec
CONSTANTS
  NIds = 8
  InitKinds = <<"p", "a", "b", "x", "e", "c">>
  InitParent = <<0, 1, 1, 0, 0, 3>>
  Recursive = TRUE
  FaithfulRemoval = TRUE
INVARIANT InvokedOpsAreLive
INVARIANT EveryMutationNotified
INVARIANT ReturnsChanged
INVARIANT Fixpoint
