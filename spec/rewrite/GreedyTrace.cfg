SPECIFICATION Spec
INVARIANT Done
