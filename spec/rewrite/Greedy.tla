------------------------------- MODULE Greedy -------------------------------
(* Model of xdsl.pattern_rewriter.PatternRewriteWalker (property C11): the greedy worklist driver.
   IR: a forest of ops; op o has a kind and a parent op (0 = directly in the root region).
   Patterns (a terminating menu, each enabled by the op's kind):
     "a": erase self          "b": replace self by a fresh op of kind "c" (insert + erase)
     "c": modify in place -> "d" (terminal)      "p": erase self together with everything nested in it
     "x": erase the FIRST other attached op of kind "a" (if any) and become "d"
     "e": insert a fresh op of kind "a" and become "d"
   The driver is transcribed from rewrite_region / _populate_worklist / _process_worklist and the
   _handle_operation_* listeners (insertion: push; removal: remove op and everything nested; modification:
   push).  Pop order is NONDETERMINISTIC (any element of the worklist): TLC therefore covers every
   perturbed schedule.  Checked: a pattern is only invoked on attached, non-erased ops; every mutation is
   notified; the walker returns TRUE iff the IR changed; with apply_recursively no pattern is enabled on
   any op at the end (fixpoint). *)
EXTENDS Naturals, Sequences, FiniteSets, TLC

CONSTANTS NIds, InitKinds, InitParent, Recursive, FaithfulRemoval
  \* InitKinds : sequence of kinds of the initial ops 1..n ; InitParent: their parents ; ids n+1..NIds are fresh
  \* FaithfulRemoval = TRUE: removal handler drops the erased op AND everything nested (as the code does)

Ids == 1 .. NIds
VARIABLES kind,      \* [Ids -> "a".."e","p","x","d","free","dead"]
          parent,    \* [Ids -> 0 .. NIds]
          wl,        \* set of ids pending
          phase,     \* "populate" | "process" | "done"
          sweepChanged, everChanged, ret,
          notes,     \* set of <<"inserted"/"removed"/"modified", id>> notifications seen so far
          muts,      \* set of the same shape: mutations actually performed (ghost)
          invoked    \* ghost: <<id, wasLive>> of the last invocation
vars == <<kind, parent, wl, phase, sweepChanged, everChanged, ret, notes, muts, invoked>>

Live == {o \in Ids : kind[o] \notin {"free", "dead"}}
RECURSIVE Under(_, _)
Under(o, fuel) == IF fuel = 0 THEN {o} ELSE {o} \cup UNION {Under(c, fuel - 1) : c \in {c \in Live : parent[c] = o}}
Tree(o) == Under(o, NIds)
Fresh == CHOOSE o \in Ids : kind[o] = "free" /\ \A q \in Ids : kind[q] = "free" => o <= q
HasFresh == \E o \in Ids : kind[o] = "free"
Enabled(o) == \/ kind[o] \in {"a", "c", "p", "x"}
              \/ kind[o] \in {"b", "e"} /\ HasFresh

Init == /\ kind = [o \in Ids |-> IF o <= Len(InitKinds) THEN InitKinds[o] ELSE "free"]
        /\ parent = [o \in Ids |-> IF o <= Len(InitParent) THEN InitParent[o] ELSE 0]
        /\ wl = {} /\ phase = "populate" /\ sweepChanged = FALSE /\ everChanged = FALSE /\ ret = "none"
        /\ notes = {} /\ muts = {} /\ invoked = <<0, TRUE>>

Populate == /\ phase = "populate" /\ wl' = Live /\ phase' = "process" /\ sweepChanged' = FALSE
            /\ UNCHANGED <<kind, parent, everChanged, ret, notes, muts, invoked>>

\* listener effects on the worklist
OnInsert(w, o) == IF Recursive THEN w \cup {o} ELSE w
OnRemove(w, o, tree) == IF FaithfulRemoval THEN w \ tree ELSE w \ ({o} \cup {c \in tree : parent[c] = o})
OnModify(w, o) == IF Recursive THEN w \cup {o} ELSE w

Erase(o, w) == LET t == Tree(o) IN
  /\ kind' = [q \in Ids |-> IF q \in t THEN "dead" ELSE kind[q]]
  /\ wl' = OnRemove(w, o, t)
  /\ notes' = notes \cup {<<"removed", o>>} /\ muts' = muts \cup {<<"removed", o>>}
  /\ UNCHANGED parent

Invoke(o) ==
  /\ phase = "process" /\ o \in wl
  /\ invoked' = <<o, o \in Live>>
  /\ LET w == wl \ {o} IN
     CASE kind[o] \in {"a", "p"} -> Erase(o, w) /\ sweepChanged' = TRUE /\ everChanged' = TRUE
       [] kind[o] = "c" -> /\ kind' = [kind EXCEPT ![o] = "d"] /\ wl' = OnModify(w, o)
                           /\ notes' = notes \cup {<<"modified", o>>} /\ muts' = muts \cup {<<"modified", o>>}
                           /\ sweepChanged' = TRUE /\ everChanged' = TRUE /\ UNCHANGED parent
       [] kind[o] = "b" /\ HasFresh ->
            LET n == Fresh IN
            /\ kind' = [kind EXCEPT ![n] = "c", ![o] = "dead"]
            /\ parent' = [parent EXCEPT ![n] = parent[o]]
            /\ wl' = OnRemove(OnInsert(w, n), o, {o})
            /\ notes' = notes \cup {<<"inserted", n>>, <<"removed", o>>} /\ muts' = muts \cup {<<"inserted", n>>, <<"removed", o>>}
            /\ sweepChanged' = TRUE /\ everChanged' = TRUE
       [] kind[o] = "e" /\ HasFresh ->
            LET n == Fresh IN
            /\ kind' = [kind EXCEPT ![n] = "a", ![o] = "d"]
            /\ parent' = [parent EXCEPT ![n] = parent[o]]
            /\ wl' = OnModify(OnInsert(w, n), o)
            /\ notes' = notes \cup {<<"inserted", n>>, <<"modified", o>>} /\ muts' = muts \cup {<<"inserted", n>>, <<"modified", o>>}
            /\ sweepChanged' = TRUE /\ everChanged' = TRUE
       [] kind[o] = "x" ->
            LET victims == {v \in Live : kind[v] = "a" /\ v # o} IN
            IF victims = {} THEN /\ kind' = [kind EXCEPT ![o] = "d"] /\ wl' = OnModify(w, o)
                                 /\ notes' = notes \cup {<<"modified", o>>} /\ muts' = muts \cup {<<"modified", o>>}
                                 /\ sweepChanged' = TRUE /\ everChanged' = TRUE /\ UNCHANGED parent
            ELSE LET v == CHOOSE v \in victims : \A u \in victims : v <= u IN
                 /\ kind' = [kind EXCEPT ![v] = "dead", ![o] = "d"]
                 /\ wl' = OnModify(OnRemove(w, v, {v}), o)
                 /\ notes' = notes \cup {<<"removed", v>>, <<"modified", o>>} /\ muts' = muts \cup {<<"removed", v>>, <<"modified", o>>}
                 /\ sweepChanged' = TRUE /\ everChanged' = TRUE /\ UNCHANGED parent
       [] OTHER -> wl' = w /\ UNCHANGED <<kind, parent, notes, muts, sweepChanged, everChanged>>
  /\ UNCHANGED <<phase, ret>>

EndSweep == /\ phase = "process" /\ wl = {}
            /\ IF Recursive /\ sweepChanged THEN phase' = "populate" /\ ret' = ret
               ELSE phase' = "done" /\ ret' = everChanged
            /\ UNCHANGED <<kind, parent, wl, sweepChanged, everChanged, notes, muts, invoked>>

Next == Populate \/ (\E o \in Ids : Invoke(o)) \/ EndSweep
Spec == Init /\ [][Next]_vars

InvokedOpsAreLive == invoked[2]
EveryMutationNotified == muts \subseteq notes
ReturnsChanged == phase = "done" => ret = everChanged
Fixpoint == (phase = "done" /\ Recursive) => \A o \in Live : ~Enabled(o)
=============================================================================
