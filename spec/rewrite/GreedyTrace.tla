----------------------------- MODULE GreedyTrace -----------------------------
(* Safety monitor for traces of the REAL PatternRewriteWalker (property C11).  One case = the event log
   of one rewrite_region run, recorded by harness/drivers/c11.py:
     [ev |-> "start",  recursive]                         configuration
     [ev |-> "invoke", op, attached, erased]              pattern about to be called on op
     [ev |-> "call",   m, mutating, oblig, notes, flag]   a PatternRewriter method returned: obligations (listener
                                                          events the call owes, computed before it), notifications
                                                          actually delivered during it, has_done_action after it
     [ev |-> "end",    op, acted, changed]                match_and_rewrite returned; did the IR change?
     [ev |-> "return", v, everchanged]                    rewrite_region returned v
     [ev |-> "post",   stillfires]                        would any pattern still change any op?
     [ev |-> "raised", error]                             rewrite_region escaped with an exception although no pattern raised
   The monitor is a small state machine (idle / in a match / returned) that checks, in every state, the
   clauses of the property; the first failing clause of a run is reported. *)
EXTENDS Naturals, Sequences, FiniteSets, Json, IOUtils, TLC

Cases == JsonDeserialize(IOEnv.CASE_FILE)
VARIABLES i, l, st, bad     \* case index, position in its log, monitor state, first failing clause of the case
vars == <<i, l, st, bad>>

Count(s, x) == Cardinality({k \in DOMAIN s : s[k] = x})
BagIncluded(a, b) == \A k \in DOMAIN a : Count(a, a[k]) <= Count(b, a[k])

Clause(e, s) ==
  CASE e.ev = "start" -> IF s.mode = "idle" THEN "ok" ELSE "Protocol"
    [] e.ev = "invoke" -> IF s.mode # "sweeping" THEN "Protocol"
                          ELSE IF e.erased = 1 \/ e.attached = 0 THEN "NeverInvokedOnErasedOrDetachedOp" ELSE "ok"
    [] e.ev = "call" -> IF ~BagIncluded(e.oblig, e.notes) THEN "EveryRewriterMutationReportedToListeners"
                        ELSE IF e.mutating = 1 /\ e.flag = 0 THEN "ActionFlagSetWhenMatchMutated" ELSE "ok"
    [] e.ev = "end" -> IF s.mode # "matching" THEN "Protocol"
                       ELSE IF e.changed = 1 /\ e.acted = 0 THEN "ActionFlagSetWhenMatchMutated" ELSE "ok"
    [] e.ev = "return" -> IF e.everchanged = 1 /\ e.v = 0 THEN "ReportsModificationWhenIRChanged" ELSE "ok"
    [] e.ev = "raised" -> "WalkerReturnsWithoutInternalError"
    [] e.ev = "post" -> IF s.recursive = 1 /\ e.stillfires = 1 THEN "FixpointReached" ELSE "ok"

Step(e, s) ==
  CASE e.ev = "start" -> [s EXCEPT !.mode = "sweeping", !.recursive = e.recursive]
    [] e.ev = "invoke" -> [s EXCEPT !.mode = "matching"]
    [] e.ev = "end" -> [s EXCEPT !.mode = "sweeping"]
    [] e.ev = "return" -> [s EXCEPT !.mode = "returned"]
    [] OTHER -> s

S0 == [mode |-> "idle", recursive |-> 0]
Init == i = 1 /\ l = 1 /\ st = S0 /\ bad = "ok"
Next ==
  /\ i <= Len(Cases)
  /\ IF l > Len(Cases[i])
     THEN /\ i' = i + 1 /\ l' = 1 /\ st' = S0 /\ bad' = "ok"
          /\ (bad # "ok" => PrintT(<<"VERIF", "mismatch", i, bad>>))
     ELSE LET e == Cases[i][l] c == Clause(e, st) IN
          /\ l' = l + 1 /\ i' = i /\ st' = Step(e, st)
          /\ bad' = IF bad = "ok" /\ c # "ok" THEN c ELSE bad
Spec == Init /\ [][Next]_vars
Done == (i = Len(Cases) + 1) => PrintT(<<"VERIF", "done", Len(Cases)>>)
=============================================================================
