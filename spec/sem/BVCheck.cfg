SPECIFICATION Spec
CONSTANT Widths = {1, 2, 3, 4, 5, 6, 8, 9, 12, 15}
INVARIANT OK
