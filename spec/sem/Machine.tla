------------------------------- MODULE Machine -------------------------------
(* Operational semantics of the func / arith / cf / scf fragment and of the llvm dialect's integer / branch / alloca-load-store
   ops (properties C13-C16, C22, C23, C28), independent of
   the xDSL interpreter.  Programs are DATA (deserialised JSON, produced by harness/serialize.py):
     prog  = [funcs |-> << func ... >>]
     func  = [args |-> <<vid...>>, blocks |-> <<block...>>, nvals |-> N]       blocks of ALL regions, flat
     block = [args |-> <<vid...>>, ops |-> <<op...>>]
     op    = [op, a (operand vids), r (result vids), w (result width), sw (operand width), p (predicate),
              k (constant limbs), succ |-> <<[b, args]...>>, regs |-> <<entry block ids>>, callee, name]
   A machine m = [stack, status, rets, eff, fuel]; a frame = [f, b, pc, env, conts]; Step(prog, m) executes one
   operation.  status: "run" | "done" | "ub" (the source program has no defined result: division by zero,
   INT_MIN / -1, non-positive loop step ...) | "stuck" (malformed program / unsupported op) | "fuel". *)
EXTENDS BV, TLC

Undef == <<>>
\* poison (MLIR / LLVM): the result of a speculatable operation outside its domain (shift by >= width).  It is not undefined behaviour
\* by itself - only using it to branch, divide, or as a loop bound is.  Encoded as a tuple longer than any limb tuple.
Poison == [i \in 1 .. 20 |-> 0] \o <<>>
IsPoison(v) == Len(v) = 20
Put(env, vids, vals) == [v \in DOMAIN env |-> IF \E i \in DOMAIN vids : vids[i] = v
                                             THEN vals[CHOOSE i \in DOMAIN vids : vids[i] = v] ELSE env[v]]
Get(env, vids) == [i \in DOMAIN vids |-> env[vids[i]]]
B1(b) == IF b THEN <<1>> ELSE <<0>>
Truthy(v) == v[1] % 2 = 1

\* ---------------------------------------------------------------- arith: <<defined?, result values>>
CmpI(p, a, b, W) ==
  CASE p = 0 -> a = b [] p = 1 -> a # b
    [] p = 2 -> SLt(a, b, W) [] p = 3 -> SLe(a, b, W) [] p = 4 -> SLt(b, a, W) [] p = 5 -> SLe(b, a, W)
    [] p = 6 -> ULt(a, b) [] p = 7 -> ULe(a, b) [] p = 8 -> ULt(b, a) [] p = 9 -> ULe(b, a)

ArithEval(o, x) ==      \* o: the op record, x: operand values
  LET W == o.w n == o.op a == x[1] b == IF Len(x) >= 2 THEN x[2] ELSE <<>> IN
  CASE n = "arith.constant" -> <<TRUE, <<o.k>>>>
    [] n = "arith.addi" -> <<TRUE, <<Add(a, b, W)>>>>
    [] n = "arith.subi" -> <<TRUE, <<Sub(a, b, W)>>>>
    [] n = "arith.muli" -> <<TRUE, <<Mul(a, b, W)>>>>
    [] n = "arith.andi" -> <<TRUE, <<BAnd(a, b, W)>>>>
    [] n = "arith.ori" -> <<TRUE, <<BOr(a, b, W)>>>>
    [] n = "arith.xori" -> <<TRUE, <<BXor(a, b, W)>>>>
    [] n = "arith.divui" -> IF IsZero(b) THEN <<FALSE, <<>>>> ELSE <<TRUE, <<UDiv(a, b, W)>>>>
    [] n = "arith.remui" -> IF IsZero(b) THEN <<FALSE, <<>>>> ELSE <<TRUE, <<URem(a, b, W)>>>>
    [] n = "arith.ceildivui" -> IF IsZero(b) THEN <<FALSE, <<>>>> ELSE <<TRUE, <<CeilDivU(a, b, W)>>>>
    [] n \in {"arith.divsi", "arith.remsi", "arith.floordivsi", "arith.ceildivsi"} ->
         IF IsZero(b) \/ (a = IntMin(W) /\ b = AllOnes(W) /\ n # "arith.remsi") THEN <<FALSE, <<>>>>
         ELSE <<TRUE, <<CASE n = "arith.divsi" -> SDiv(a, b, W) [] n = "arith.remsi" -> SRem(a, b, W)
                          [] n = "arith.floordivsi" -> FloorDivS(a, b, W) [] n = "arith.ceildivsi" -> CeilDivS(a, b, W)>>>>
    [] n \in {"arith.shli", "arith.shrui", "arith.shrsi"} ->
         LET k == ShAmt(b, W) IN
         IF k >= W THEN <<TRUE, <<Poison>>>>
         ELSE <<TRUE, <<CASE n = "arith.shli" -> Shl(a, k, W) [] n = "arith.shrui" -> LShr(a, k, W) [] n = "arith.shrsi" -> AShr(a, k, W)>>>>
    [] n = "arith.minsi" -> <<TRUE, <<MinS(a, b, W)>>>>
    [] n = "arith.maxsi" -> <<TRUE, <<MaxS(a, b, W)>>>>
    [] n = "arith.minui" -> <<TRUE, <<MinU(a, b, W)>>>>
    [] n = "arith.maxui" -> <<TRUE, <<MaxU(a, b, W)>>>>
    [] n = "arith.cmpi" -> <<TRUE, <<B1(CmpI(o.p, a, b, o.sw))>>>>
    [] n = "arith.select" -> <<TRUE, <<IF Truthy(a) THEN x[2] ELSE x[3]>>>>
    [] n \in {"arith.extui", "arith.index_castui"} -> <<TRUE, <<IF W >= o.sw THEN ZExt(a, o.sw, W) ELSE Trunc(a, W)>>>>
    [] n \in {"arith.extsi", "arith.index_cast"} -> <<TRUE, <<IF W >= o.sw THEN SExt(a, o.sw, W) ELSE Trunc(a, W)>>>>
    [] n = "arith.trunci" -> <<TRUE, <<Trunc(a, W)>>>>
    [] n = "arith.addui_extended" -> LET s == AddUExt(a, b, W) IN <<TRUE, <<s[1], <<s[2]>>>>>>
    [] n = "arith.mului_extended" -> LET s == MulUExt(a, b, W) IN <<TRUE, <<s[1], s[2]>>>>
    [] n = "arith.mulsi_extended" -> LET s == MulSExt(a, b, W) IN <<TRUE, <<s[1], s[2]>>>>
\* ---------------------------------------------------------------- llvm dialect integer ops: <<defined (not poison / UB)?, results>>
\* o.p carries the flags: 1 = nsw, 2 = nuw, 4 = exact, 8 = disjoint, 16 = nneg
Flag(o, f) == (o.p \div f) % 2 = 1
SOvfAdd(a, b, W) == Add(SExt(a, W, W + 1), SExt(b, W, W + 1), W + 1) # SExt(Add(a, b, W), W, W + 1)
UOvfAdd(a, b, W) == Add(ZExt(a, W, W + 1), ZExt(b, W, W + 1), W + 1) # ZExt(Add(a, b, W), W, W + 1)
SOvfSub(a, b, W) == Sub(SExt(a, W, W + 1), SExt(b, W, W + 1), W + 1) # SExt(Sub(a, b, W), W, W + 1)
UOvfSub(a, b, W) == ULt(a, b)
SOvfMul(a, b, W) == Mul(SExt(a, W, 2 * W), SExt(b, W, 2 * W), 2 * W) # SExt(Mul(a, b, W), W, 2 * W)
UOvfMul(a, b, W) == Mul(ZExt(a, W, 2 * W), ZExt(b, W, 2 * W), 2 * W) # ZExt(Mul(a, b, W), W, 2 * W)
LLVMEval(o, x) ==
  LET W == o.w n == o.op a == x[1] b == IF Len(x) >= 2 THEN x[2] ELSE <<>> IN
  CASE n = "llvm.add" -> <<~(Flag(o, 1) /\ SOvfAdd(a, b, W)) /\ ~(Flag(o, 2) /\ UOvfAdd(a, b, W)), <<Add(a, b, W)>>>>
    [] n = "llvm.sub" -> <<~(Flag(o, 1) /\ SOvfSub(a, b, W)) /\ ~(Flag(o, 2) /\ UOvfSub(a, b, W)), <<Sub(a, b, W)>>>>
    [] n = "llvm.mul" -> <<~(Flag(o, 1) /\ SOvfMul(a, b, W)) /\ ~(Flag(o, 2) /\ UOvfMul(a, b, W)), <<Mul(a, b, W)>>>>
    [] n = "llvm.udiv" -> IF IsZero(b) THEN <<FALSE, <<>>>> ELSE <<~(Flag(o, 4) /\ ~IsZero(URem(a, b, W))), <<UDiv(a, b, W)>>>>
    [] n = "llvm.sdiv" -> IF IsZero(b) \/ (a = IntMin(W) /\ b = AllOnes(W)) THEN <<FALSE, <<>>>>
                          ELSE <<~(Flag(o, 4) /\ ~IsZero(SRem(a, b, W))), <<SDiv(a, b, W)>>>>
    [] n = "llvm.urem" -> IF IsZero(b) THEN <<FALSE, <<>>>> ELSE <<TRUE, <<URem(a, b, W)>>>>
    [] n = "llvm.srem" -> IF IsZero(b) \/ (a = IntMin(W) /\ b = AllOnes(W)) THEN <<FALSE, <<>>>> ELSE <<TRUE, <<SRem(a, b, W)>>>>
    [] n \in {"llvm.shl", "llvm.lshr", "llvm.ashr"} ->
         LET k == ShAmt(b, W) IN
         IF k >= W THEN <<FALSE, <<>>>>
         ELSE IF n = "llvm.shl" THEN
                LET r == Shl(a, k, W) IN <<~(Flag(o, 2) /\ LShr(r, k, W) # a) /\ ~(Flag(o, 1) /\ AShr(r, k, W) # a), <<r>>>>
         ELSE IF n = "llvm.lshr" THEN LET r == LShr(a, k, W) IN <<~(Flag(o, 4) /\ Shl(r, k, W) # a), <<r>>>>
         ELSE LET r == AShr(a, k, W) IN <<~(Flag(o, 4) /\ Shl(r, k, W) # a), <<r>>>>
    [] n = "llvm.and" -> <<TRUE, <<BAnd(a, b, W)>>>>
    [] n = "llvm.or" -> <<~(Flag(o, 8) /\ ~IsZero(BAnd(a, b, W))), <<BOr(a, b, W)>>>>
    [] n = "llvm.xor" -> <<TRUE, <<BXor(a, b, W)>>>>
    [] n = "llvm.icmp" -> <<TRUE, <<B1(CmpI(o.p, a, b, o.sw))>>>>
    [] n = "llvm.select" -> <<TRUE, <<IF Truthy(a) THEN x[2] ELSE x[3]>>>>
    [] n = "llvm.zext" -> <<~(Flag(o, 16) /\ SignBit(a, o.sw) = 1), <<ZExt(a, o.sw, W)>>>>
    [] n = "llvm.sext" -> <<TRUE, <<SExt(a, o.sw, W)>>>>
    [] n = "llvm.trunc" -> <<~(Flag(o, 1) /\ SExt(Trunc(a, W), W, o.sw) # a) /\ ~(Flag(o, 2) /\ ZExt(Trunc(a, W), W, o.sw) # a), <<Trunc(a, W)>>>>
    [] n = "llvm.mlir.constant" -> <<TRUE, <<o.k>>>>
IsLLVM(n) == n \in {"llvm.add", "llvm.sub", "llvm.mul", "llvm.udiv", "llvm.sdiv", "llvm.urem", "llvm.srem", "llvm.shl", "llvm.lshr", "llvm.ashr",
  "llvm.and", "llvm.or", "llvm.xor", "llvm.icmp", "llvm.select", "llvm.zext", "llvm.sext", "llvm.trunc", "llvm.mlir.constant"}

IsArith(n) == n \in {"arith.constant", "arith.addi", "arith.subi", "arith.muli", "arith.andi", "arith.ori", "arith.xori", "arith.divui",
  "arith.remui", "arith.ceildivui", "arith.divsi", "arith.remsi", "arith.floordivsi", "arith.ceildivsi", "arith.shli", "arith.shrui",
  "arith.shrsi", "arith.minsi", "arith.maxsi", "arith.minui", "arith.maxui", "arith.cmpi", "arith.select", "arith.extui", "arith.extsi",
  "arith.trunci", "arith.index_cast", "arith.index_castui", "arith.addui_extended", "arith.mului_extended", "arith.mulsi_extended"}

\* ---------------------------------------------------------------- affine.apply: an affine expression tree over index (64-bit) operands
\* e = [kind |-> "const" | "dim" | "sym" | "add" | "mul" | "mod" | "floordiv" | "ceildiv", v (limbs / position), l, r (sub-trees)]
\* mod / floordiv / ceildiv are the floor-based operations of the affine dialect and need a positive right-hand side
RECURSIVE AffEval(_, _, _)
AffEval(e, dims, syms) ==      \* <<defined?, value>>
  CASE e.kind = "const" -> <<TRUE, e.v>>
    [] e.kind = "dim" -> <<TRUE, dims[e.v]>>
    [] e.kind = "sym" -> <<TRUE, syms[e.v]>>
    [] OTHER ->
       LET a == AffEval(e.l, dims, syms)  b == AffEval(e.r, dims, syms) IN
       IF ~a[1] \/ ~b[1] THEN <<FALSE, <<>>>>
       ELSE CASE e.kind = "add" -> <<TRUE, Add(a[2], b[2], 64)>>
              [] e.kind = "mul" -> <<TRUE, Mul(a[2], b[2], 64)>>
              [] OTHER -> IF IsZero(b[2]) \/ SignBit(b[2], 64) = 1 THEN <<FALSE, <<>>>>
                          ELSE CASE e.kind = "floordiv" -> <<TRUE, FloorDivS(a[2], b[2], 64)>>
                                 [] e.kind = "ceildiv" -> <<TRUE, CeilDivS(a[2], b[2], 64)>>
                                 [] e.kind = "mod" -> <<TRUE, Sub(a[2], Mul(b[2], FloorDivS(a[2], b[2], 64), 64), 64)>>
DivLike == {"arith.divui", "arith.remui", "arith.ceildivui", "arith.divsi", "arith.remsi", "arith.floordivsi", "arith.ceildivsi"}
\* ---------------------------------------------------------------- machine
NewFrame(prog, f, argvals) ==
  LET F == prog.funcs[f] IN
  [f |-> f, b |-> 1, pc |-> 1, conts |-> <<>>,
   env |-> Put([v \in 1 .. F.nvals |-> Undef], F.blocks[1].args, argvals)]
InitMachine(prog, f, argvals, fuel) ==
  [stack |-> <<NewFrame(prog, f, argvals)>>, status |-> "run", rets |-> <<>>, eff |-> <<>>, fuel |-> fuel, heap |-> <<>>, pz |-> 0]

Top(m) == m.stack[Len(m.stack)]
SetTop(m, fr) == [m EXCEPT !.stack = [@ EXCEPT ![Len(m.stack)] = fr]]
Halt(m, st) == [m EXCEPT !.status = st]
\* continue in block b with argument values
Enter(prog, fr, b, vals) == [fr EXCEPT !.b = b, !.pc = 1, !.env = Put(fr.env, prog.funcs[fr.f].blocks[b].args, vals)]
\* finish a structured op located at (cb, cpc): bind its results, resume after it
Resume(prog, fr, cb, cpc, vals) ==
  LET o == prog.funcs[fr.f].blocks[cb].ops[cpc] IN
  [fr EXCEPT !.b = cb, !.pc = cpc + 1, !.env = Put(fr.env, o.r, vals), !.conts = SubSeq(fr.conts, 1, Len(fr.conts) - 1)]
PushCont(fr, c) == [fr EXCEPT !.conts = Append(fr.conts, c)]
W64 == 64

Step(prog, m) ==
  IF m.fuel = 0 THEN Halt(m, "fuel") ELSE
  LET m1 == [m EXCEPT !.fuel = m.fuel - 1]
      fr == Top(m)
      blk == prog.funcs[fr.f].blocks[fr.b]
  IN IF fr.pc > Len(blk.ops) THEN Halt(m1, "stuck") ELSE
  LET o == blk.ops[fr.pc]
      n == o.op
      x == Get(fr.env, o.a)
  IN IF \E i \in DOMAIN x : x[i] = Undef THEN Halt(m1, "stuck")
  ELSE IF IsArith(n) /\ (\E i \in DOMAIN x : IsPoison(x[i])) THEN
       \* poison propagates through speculatable ops; a division by / of poison may divide by zero: undefined behaviour;
       \* select passes on the chosen operand (a poison condition poisons the result)
       IF n \in DivLike THEN Halt(m1, "ub")
       ELSE IF n = "arith.select" /\ ~IsPoison(x[1])
            THEN SetTop(m1, [fr EXCEPT !.env = Put(fr.env, o.r, <<IF Truthy(x[1]) THEN x[2] ELSE x[3]>>), !.pc = fr.pc + 1])
            ELSE SetTop(m1, [fr EXCEPT !.env = Put(fr.env, o.r, [i \in DOMAIN o.r |-> Poison]), !.pc = fr.pc + 1])
  ELSE IF IsArith(n) THEN
       LET res == ArithEval(o, x) IN
       IF ~res[1] THEN Halt(m1, "ub")
       ELSE SetTop(IF \E k \in DOMAIN res[2] : IsPoison(res[2][k]) THEN [m1 EXCEPT !.pz = 1] ELSE m1,      \* pz: poison was created in this run
                   [fr EXCEPT !.env = Put(fr.env, o.r, res[2]), !.pc = fr.pc + 1])
  ELSE IF n = "affine.apply" THEN
       IF \E i \in DOMAIN x : IsPoison(x[i]) THEN Halt(m1, "ub")
       ELSE LET res == AffEval(o.k, SubSeq(x, 1, o.p), SubSeq(x, o.p + 1, Len(x))) IN
            IF ~res[1] THEN Halt(m1, "ub") ELSE SetTop(m1, [fr EXCEPT !.env = Put(fr.env, o.r, <<res[2]>>), !.pc = fr.pc + 1])
  ELSE IF IsLLVM(n) /\ (\E i \in DOMAIN x : IsPoison(x[i])) THEN Halt(m1, "ub")
  ELSE IF IsLLVM(n) THEN
       LET res == LLVMEval(o, x) IN
       IF ~res[1] THEN Halt(m1, "ub")       \* poison / immediate UB: no obligation on the compiled code
       ELSE SetTop(m1, [fr EXCEPT !.env = Put(fr.env, o.r, res[2]), !.pc = fr.pc + 1])
  ELSE IF n = "llvm.alloca" THEN          \* one cell; a pointer is <<"ptr", cell index>>
       SetTop([m1 EXCEPT !.heap = Append(m.heap, Undef)], [fr EXCEPT !.env = Put(fr.env, o.r, << <<"ptr", Len(m.heap) + 1>> >>), !.pc = fr.pc + 1])
  ELSE IF n = "llvm.store" THEN
       IF Len(x[2]) # 2 \/ x[2][1] # "ptr" THEN Halt(m1, "stuck")
       ELSE SetTop([m1 EXCEPT !.heap[x[2][2]] = x[1]], [fr EXCEPT !.pc = fr.pc + 1])
  ELSE IF n = "llvm.load" THEN
       IF Len(x[1]) # 2 \/ x[1][1] # "ptr" THEN Halt(m1, "stuck")
       ELSE IF m.heap[x[1][2]] = Undef \/ Len(m.heap[x[1][2]]) # NL(o.w) THEN Halt(m1, "ub")     \* uninitialised / differently typed read
       ELSE SetTop(m1, [fr EXCEPT !.env = Put(fr.env, o.r, <<m.heap[x[1][2]]>>), !.pc = fr.pc + 1])
  ELSE IF n = "cf.br" THEN SetTop(m1, Enter(prog, fr, o.succ[1].b, Get(fr.env, o.succ[1].args)))
  ELSE IF n \in {"cf.cond_br", "scf.if", "scf.for", "scf.condition"} /\ (\E i \in 1 .. (IF n = "scf.for" THEN 3 ELSE 1) : IsPoison(x[i])) THEN Halt(m1, "ub")
  ELSE IF n = "cf.cond_br" THEN
       LET s == IF Truthy(x[1]) THEN o.succ[1] ELSE o.succ[2] IN SetTop(m1, Enter(prog, fr, s.b, Get(fr.env, s.args)))
  ELSE IF n = "func.return" THEN
       IF Len(m.stack) = 1 THEN [m1 EXCEPT !.status = "done", !.rets = x]
       ELSE LET caller == m.stack[Len(m.stack) - 1]
                co == prog.funcs[caller.f].blocks[caller.b].ops[caller.pc]
            IN [m1 EXCEPT !.stack = Append(SubSeq(m.stack, 1, Len(m.stack) - 2),
                                           [caller EXCEPT !.env = Put(caller.env, co.r, x), !.pc = caller.pc + 1])]
  ELSE IF n = "func.call" THEN
       IF o.callee = 0
       THEN \* external function: an observable effect (name + argument values); its results read as zero
            LET m2 == [m1 EXCEPT !.eff = Append(m.eff, <<o.name, x>>)] IN
            SetTop(m2, [fr EXCEPT !.env = Put(fr.env, o.r, [i \in DOMAIN o.r |-> Zero(o.w)]), !.pc = fr.pc + 1])
       ELSE IF Len(m.stack) >= 8 THEN Halt(m1, "fuel")
       ELSE [m1 EXCEPT !.stack = Append(m.stack, NewFrame(prog, o.callee, x))]
  ELSE IF n = "effect" THEN
       LET m2 == [m1 EXCEPT !.eff = Append(m.eff, <<o.name, x>>)] IN SetTop(m2, [fr EXCEPT !.pc = fr.pc + 1])
  ELSE IF n = "scf.if" THEN
       LET tgt == IF Truthy(x[1]) THEN o.regs[1] ELSE (IF Len(o.regs) >= 2 THEN o.regs[2] ELSE 0) IN
       IF tgt = 0 THEN SetTop(m1, [fr EXCEPT !.pc = fr.pc + 1])
       ELSE SetTop(m1, Enter(prog, PushCont(fr, [kind |-> "if", b |-> fr.b, pc |-> fr.pc]), tgt, <<>>))
  ELSE IF n = "scf.for" THEN
       LET lb == x[1] ub == x[2] st == x[3] inits == SubSeq(x, 4, Len(x)) IN
       IF IsZero(st) \/ SignBit(st, o.sw) = 1 THEN Halt(m1, "ub")
       ELSE IF SLt(lb, ub, o.sw)
            THEN SetTop(m1, Enter(prog, PushCont(fr, [kind |-> "for", b |-> fr.b, pc |-> fr.pc, iv |-> lb, ub |-> ub, st |-> st, w |-> o.sw]),
                                  o.regs[1], <<lb>> \o inits))
            ELSE SetTop(m1, [fr EXCEPT !.env = Put(fr.env, o.r, inits), !.pc = fr.pc + 1])
  ELSE IF n = "scf.while" THEN
       SetTop(m1, Enter(prog, PushCont(fr, [kind |-> "while", b |-> fr.b, pc |-> fr.pc, after |-> o.regs[2], before |-> o.regs[1]]), o.regs[1], x))
  ELSE IF n = "scf.condition" THEN
       IF fr.conts = <<>> THEN Halt(m1, "stuck") ELSE
       LET c == fr.conts[Len(fr.conts)] rest == SubSeq(x, 2, Len(x)) IN
       IF c.kind # "while" THEN Halt(m1, "stuck")
       ELSE IF Truthy(x[1]) THEN SetTop(m1, Enter(prog, fr, c.after, rest))
       ELSE SetTop(m1, Resume(prog, fr, c.b, c.pc, rest))
  ELSE IF n = "scf.yield" THEN
       IF fr.conts = <<>> THEN Halt(m1, "stuck") ELSE
       LET c == fr.conts[Len(fr.conts)] IN
       CASE c.kind = "if" -> SetTop(m1, Resume(prog, fr, c.b, c.pc, x))
         [] c.kind = "while" -> SetTop(m1, Enter(prog, fr, c.before, x))
         [] c.kind = "for" ->
              LET nxt == Add(c.iv, c.st, c.w)
                  \* the induction variable advances in mathematical integers: stop on wrap-around
                  more == SLt(c.iv, nxt, c.w) /\ SLt(nxt, c.ub, c.w)
              IN IF more
                 THEN LET fo == prog.funcs[fr.f].blocks[c.b].ops[c.pc] IN
                      SetTop(m1, Enter(prog, [fr EXCEPT !.conts = [@ EXCEPT ![Len(fr.conts)] = [c EXCEPT !.iv = nxt]]], fo.regs[1], <<nxt>> \o x))
                 ELSE SetTop(m1, Resume(prog, fr, c.b, c.pc, x))
  ELSE Halt(m1, "stuck")

(* Agreement of a target run B with a source run A on the same input (translation validation):
   if the source completes, the target must complete with the same results and the same effects in the
   same order.  A source that hits undefined behaviour or runs out of fuel imposes nothing. *)
\* target values refine source values: equal, or the source value is poison (then anything is allowed)
RefinesVals(a, b) == Len(a) = Len(b) /\ \A k \in DOMAIN a : IsPoison(a[k]) \/ a[k] = b[k]
AgreeClause(mA, mB) ==
  IF mA.status # "done" THEN "ok"
  ELSE IF mB.status = "fuel" THEN "ok"      \* inconclusive: the checker's own budget
  ELSE IF mB.status # "done" THEN "TargetCompletesWhenSourceDoes"
  ELSE IF ~RefinesVals(mA.rets, mB.rets) THEN "SameResults"
  ELSE IF Len(mB.eff) # Len(mA.eff) \/ \E k \in DOMAIN mA.eff : mA.eff[k][1] # mB.eff[k][1] \/ ~RefinesVals(mA.eff[k][2], mB.eff[k][2]) THEN "SameEffectsInOrder"
  ELSE "ok"
=============================================================================
