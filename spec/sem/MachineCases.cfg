SPECIFICATION Spec
INVARIANT EndNote
