----------------------------- MODULE MachineCases -----------------------------
(* Runs programs under Machine.tla, one TLC state per executed operation.
   Case kinds:
     "pair": [A, B, inputs]        A = program before a pass, B = after it: AgreeClause on every input
                                   (translation validation: C13, C14, C16, C28)
     "run" : [A, inputs, got]      got[j] = [st, rets] observed from the real interpreter on input j (C15):
                                   when the machine completes, the interpreter must have produced its results
   Every (case, input) pair is an initial state; TLC steps the machines to completion. *)
EXTENDS Machine, Json, IOUtils

Cases == JsonDeserialize(IOEnv.CASE_FILE)
Fuel == 4000
VARIABLES i, j, phase, mA, mB
vars == <<i, j, phase, mA, mB>>

Init == /\ i \in 1 .. Len(Cases) /\ j \in 1 .. Len(Cases[i].inputs)
        /\ phase = "A"
        /\ mA = InitMachine(Cases[i].A, 1, Cases[i].inputs[j], Fuel)
        /\ mB = [status |-> "idle"]

Report(clause) == (clause # "ok") => PrintT(<<"VERIF", "mismatch", i, clause, j>>)
RunClause(c) ==
  IF mA.status # "done" \/ mA.pz = 1 THEN "ok"          \* a run that creates poison puts no obligation on an executing implementation
  ELSE LET g == c.got[j] IN
       IF g.st # "done" THEN "InterpreterFailsWhereSemanticsDefined"
       ELSE IF ~RefinesVals(mA.rets, g.rets) THEN "InterpreterComputesMLIRSemantics" ELSE "ok"

Next ==
  \/ /\ phase = "A" /\ mA.status = "run" /\ mA' = Step(Cases[i].A, mA) /\ UNCHANGED <<i, j, phase, mB>>
  \/ /\ phase = "A" /\ mA.status # "run"
     /\ IF Cases[i].kind = "pair"
        THEN phase' = "B" /\ mB' = InitMachine(Cases[i].B, 1, Cases[i].inputs[j], Fuel)
        ELSE phase' = "end" /\ mB' = mB /\ Report(RunClause(Cases[i]))
     /\ UNCHANGED <<i, j, mA>>
  \/ /\ phase = "B" /\ mB.status = "run" /\ mB' = Step(Cases[i].B, mB) /\ UNCHANGED <<i, j, phase, mA>>
  \/ /\ phase = "B" /\ mB.status # "run" /\ phase' = "end" /\ Report(AgreeClause(mA, mB)) /\ UNCHANGED <<i, j, mA, mB>>
Spec == Init /\ [][Next]_vars

\* bookkeeping for the harness: how every run ended (counted per status)
EndNote == phase = "end" => PrintT(<<"VERIF", "end", i, j, mA.status, IF Cases[i].kind = "pair" THEN mB.status ELSE "-">>)
=============================================================================
