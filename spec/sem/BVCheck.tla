------------------------------- MODULE BVCheck -------------------------------
(* Self-check of BV.tla: for small widths every operator is compared, exhaustively, with the obvious
   definition on mathematical integers. *)
EXTENDS BV, TLC
CONSTANT Widths
VARIABLES w, x, y
U(a) == ToNat(a)
S(a, W) == IF U(a) >= Pow2(W - 1) THEN U(a) - Pow2(W) ELSE U(a)
M(n, W) == n % Pow2(W)
F(n, W) == FromNat(M(n, W), W)
TDiv(p, q) == IF (p >= 0) = (q > 0) THEN (IF p >= 0 THEN p ELSE -p) \div (IF q > 0 THEN q ELSE -q) ELSE -((IF p >= 0 THEN p ELSE -p) \div (IF q > 0 THEN q ELSE -q))
Vals(W) == IF W <= 6 THEN 0 .. Pow2(W) - 1
           ELSE {0, 1, 2, 3, 7, Pow2(W - 1) - 1, Pow2(W - 1), Pow2(W - 1) + 1, Pow2(W) - 2, Pow2(W) - 1, 85 % Pow2(W), 170 % Pow2(W), 255, 256 % Pow2(W), 300 % Pow2(W)}
Init == w \in Widths /\ x \in Vals(w) /\ y \in Vals(w)
Next == UNCHANGED <<w, x, y>>
Spec == Init /\ [][Next]_<<w, x, y>>
a == FromNat(x, w)
b == FromNat(y, w)
sa == S(a, w)
sb == S(b, w)
OK ==
  /\ U(a) = x /\ U(Add(a, b, w)) = M(x + y, w) /\ U(Sub(a, b, w)) = M(x - y, w) /\ U(Mul(a, b, w)) = M(x * y, w)
  /\ U(Neg(a, w)) = M(-x, w) /\ U(BNot(a, w)) = Pow2(w) - 1 - x
  /\ ULt(a, b) = (x < y) /\ SLt(a, b, w) = (sa < sb) /\ ULe(a, b) = (x <= y) /\ SLe(a, b, w) = (sa <= sb)
  /\ U(BAnd(a, b, w)) = (x & y) /\ U(BOr(a, b, w)) = (x | y) /\ U(BXor(a, b, w)) = (x ^^ y)
  /\ (y <= w => /\ U(Shl(a, y, w)) = M(x * Pow2(y), w)
                /\ U(LShr(a, y, w)) = x \div Pow2(y)
                /\ U(AShr(a, y, w)) = M(sa \div Pow2(y), w))
  /\ ShAmt(b, w) = (IF y > w THEN w + 1 ELSE y)
  /\ (y # 0 => /\ U(UDiv(a, b, w)) = x \div y /\ U(URem(a, b, w)) = x % y
               /\ U(CeilDivU(a, b, w)) = (x + y - 1) \div y
               /\ U(SDiv(a, b, w)) = M(TDiv(sa, sb), w)
               /\ U(SRem(a, b, w)) = M(sa - sb * TDiv(sa, sb), w)
               /\ U(FloorDivS(a, b, w)) = M(IF sb > 0 THEN sa \div sb ELSE (-sa) \div (-sb), w)
               /\ U(CeilDivS(a, b, w)) = M(IF sb > 0 THEN -((-sa) \div sb) ELSE -(sa \div (-sb)), w))
  /\ U(ZExt(a, w, w + 3)) = x /\ S(SExt(a, w, w + 3), w + 3) = sa /\ S(SExt(a, w, w + 9), w + 9) = sa
  /\ (w > 1 => U(Trunc(a, w - 1)) = x % Pow2(w - 1))
  /\ U(MinS(a, b, w)) = M(IF sa < sb THEN sa ELSE sb, w) /\ U(MaxU(a, b, w)) = (IF x > y THEN x ELSE y)
  /\ LET p == MulUExt(a, b, w) IN U(p[1]) = M(x * y, w) /\ U(p[2]) = (x * y) \div Pow2(w)
  /\ LET p == MulSExt(a, b, w) IN U(p[1]) = M(sa * sb, w) /\ U(p[2]) = M((sa * sb) \div Pow2(w), w)
  /\ LET p == AddUExt(a, b, w) IN U(p[1]) = M(x + y, w) /\ p[2] = (x + y) \div Pow2(w)
  /\ U(IntMin(w)) = Pow2(w - 1)
=============================================================================
