--------------------------------- MODULE BV ---------------------------------
(* Fixed-width bit-vector arithmetic without leaving TLC's 32-bit integers.
   A W-bit value (1 <= W <= 64) is a tuple of NL(W) = ceil(W/8) limbs in 0..255, least significant first;
   the unused high bits of the top limb are 0.  All operators take the width explicitly.
   Semantics follow MLIR's arith dialect: two's complement wrap-around; signed ops interpret the top bit
   as sign; unsigned ops the raw pattern.  Defined(op, a, b, W) gives the side conditions under which MLIR
   defines the result (division by zero, INT_MIN / -1, shift amount >= width are undefined/poison). *)
EXTENDS Integers, Sequences, Bitwise

NL(W) == (W + 7) \div 8
\* TLC builds [i \in S |-> e] lazily; chains of such values (shifts inside long division) would be re-evaluated
\* exponentially often.  Concatenating with the empty sequence forces a plain tuple.
Str(f) == f \o <<>>
Pow2(k) == 2 ^ k
TopBits(W) == ((W - 1) % 8) + 1                 \* number of used bits in the top limb
TopMask(W) == Pow2(TopBits(W)) - 1
Norm(a, W) == Str([i \in 1 .. NL(W) |-> IF i = NL(W) THEN a[i] % Pow2(TopBits(W)) ELSE a[i]])

Zero(W) == Str([i \in 1 .. NL(W) |-> 0])
One(W) == Str([i \in 1 .. NL(W) |-> IF i = 1 THEN 1 ELSE 0])
AllOnes(W) == Norm([i \in 1 .. NL(W) |-> 255], W)
\* small naturals (n < 2^31) to limbs and back (ToNat only for W <= 30)
FromNat(n, W) == Norm([i \in 1 .. NL(W) |-> (n \div Pow2(8 * (i - 1))) % 256], W)
RECURSIVE ToNatFrom(_, _)
ToNatFrom(a, i) == IF i > Len(a) THEN 0 ELSE a[i] + 256 * ToNatFrom(a, i + 1)
ToNat(a) == ToNatFrom(a, 1)

Bit(a, k) == (a[(k \div 8) + 1] \div Pow2(k % 8)) % 2          \* k = 0 is the least significant bit
SignBit(a, W) == Bit(a, W - 1)
IsZero(a) == \A i \in DOMAIN a : a[i] = 0

\* ---- addition / subtraction
RECURSIVE AddC(_, _, _, _, _)
AddC(a, b, i, carry, n) ==       \* limbs i..n of a + b + carry, and the carry out
  IF i > n THEN <<(<<>>), carry>>
  ELSE LET s == a[i] + b[i] + carry
           rest == AddC(a, b, i + 1, s \div 256, n)
       IN <<(<<s % 256>>) \o rest[1], rest[2]>>
Add(a, b, W) == Norm(AddC(a, b, 1, 0, NL(W))[1], W)
BNot(a, W) == Norm([i \in 1 .. NL(W) |-> 255 - a[i]], W)
Neg(a, W) == Add(BNot(a, W), One(W), W)
Sub(a, b, W) == Add(a, Neg(b, W), W)

\* ---- comparison
RECURSIVE ULtFrom(_, _, _)
ULtFrom(a, b, i) == IF i = 0 THEN FALSE ELSE IF a[i] # b[i] THEN a[i] < b[i] ELSE ULtFrom(a, b, i - 1)
ULt(a, b) == ULtFrom(a, b, Len(a))
ULe(a, b) == a = b \/ ULt(a, b)
SLt(a, b, W) == IF SignBit(a, W) # SignBit(b, W) THEN SignBit(a, W) = 1 ELSE ULt(a, b)
SLe(a, b, W) == a = b \/ SLt(a, b, W)

\* ---- multiplication (schoolbook, low W bits)
RECURSIVE ColSum(_, _, _, _)
ColSum(a, b, k, i) ==            \* sum of a[i] * b[k + 1 - i] for i .. min(k, n)
  IF i > k \/ i > Len(a) THEN 0
  ELSE (IF k + 1 - i <= Len(b) THEN a[i] * b[k + 1 - i] ELSE 0) + ColSum(a, b, k, i + 1)
RECURSIVE MulFrom(_, _, _, _, _)
MulFrom(a, b, k, carry, n) ==
  IF k > n THEN <<>>
  ELSE LET s == ColSum(a, b, k, 1) + carry IN <<s % 256>> \o MulFrom(a, b, k + 1, s \div 256, n)
Mul(a, b, W) == Norm(MulFrom(a, b, 1, 0, NL(W)), W)

\* ---- width changes
ZExt(a, W1, W2) == Str([i \in 1 .. NL(W2) |-> IF i <= NL(W1) THEN a[i] ELSE 0])
SExt(a, W1, W2) ==
  IF SignBit(a, W1) = 0 THEN ZExt(a, W1, W2)
  ELSE Norm([i \in 1 .. NL(W2) |-> IF i < NL(W1) THEN a[i]
                                  ELSE IF i = NL(W1) THEN a[i] + (255 - TopMask(W1))
                                  ELSE 255], W2)
Trunc(a, W2) == Norm([i \in 1 .. NL(W2) |-> a[i]], W2)

\* ---- shifts by one bit, then by k
Shl1(a, W) == Norm([i \in 1 .. NL(W) |-> ((a[i] * 2) % 256) + (IF i > 1 THEN a[i - 1] \div 128 ELSE 0)], W)
LShr1(a, W) == Str([i \in 1 .. NL(W) |-> (a[i] \div 2) + (IF i < NL(W) THEN (a[i + 1] % 2) * 128 ELSE 0)])
AShr1(a, W) == LET s == SignBit(a, W) r == LShr1(a, W) IN
               [r EXCEPT ![NL(W)] = r[NL(W)] + s * Pow2(TopBits(W) - 1)]
RECURSIVE Iter(_, _, _, _)
Iter(Op(_, _), a, k, W) == IF k = 0 THEN a ELSE Iter(Op, Op(a, W), k - 1, W)
Shl(a, k, W) == IF k >= W THEN Zero(W) ELSE Iter(Shl1, a, k, W)
LShr(a, k, W) == IF k >= W THEN Zero(W) ELSE Iter(LShr1, a, k, W)
AShr(a, k, W) == Iter(AShr1, a, IF k >= W THEN W ELSE k, W)
\* shift amount as a small natural, W + 1 if the amount is >= 2^16 (anything >= W behaves alike)
ShAmt(b, W) == IF \E i \in DOMAIN b : i > 2 /\ b[i] # 0 THEN W + 1
               ELSE LET n == b[1] + (IF Len(b) >= 2 THEN 256 * b[2] ELSE 0) IN IF n > W THEN W + 1 ELSE n

\* ---- bitwise
BAnd(a, b, W) == Str([i \in 1 .. NL(W) |-> a[i] & b[i]])
BOr(a, b, W) == Str([i \in 1 .. NL(W) |-> a[i] | b[i]])
BXor(a, b, W) == Str([i \in 1 .. NL(W) |-> a[i] ^^ b[i]])

\* ---- unsigned division (restoring, most significant bit first): <<quotient, remainder>>
RECURSIVE DivStep(_, _, _, _, _, _)
DivStep(a, b, k, q, r, W) ==
  IF k < 0 THEN <<q, r>>
  ELSE LET r1 == LET sh == Shl1(r, W) IN [sh EXCEPT ![1] = sh[1] + Bit(a, k)]
           ge == ~ULt(r1, b)
           r2 == IF ge THEN Sub(r1, b, W) ELSE r1
           q2 == IF ge THEN [q EXCEPT ![(k \div 8) + 1] = q[(k \div 8) + 1] + Pow2(k % 8)] ELSE q
       IN DivStep(a, b, k - 1, q2, r2, W)
\* the remainder register needs one spare bit: compute at width W + 1
UDivRem(a, b, W) ==
  LET W1 == W + 1
      r == DivStep(ZExt(a, W, W1), ZExt(b, W, W1), W - 1, Zero(W1), Zero(W1), W1)
  IN <<Trunc(r[1], W), Trunc(r[2], W)>>
UDiv(a, b, W) == UDivRem(a, b, W)[1]
URem(a, b, W) == UDivRem(a, b, W)[2]
Abs(a, W) == IF SignBit(a, W) = 1 THEN Neg(a, W) ELSE a
\* signed division truncating towards zero
SDiv(a, b, W) == LET q == UDiv(Abs(a, W), Abs(b, W), W) IN IF SignBit(a, W) # SignBit(b, W) THEN Neg(q, W) ELSE q
SRem(a, b, W) == LET r == URem(Abs(a, W), Abs(b, W), W) IN IF SignBit(a, W) = 1 THEN Neg(r, W) ELSE r
FloorDivS(a, b, W) == LET q == SDiv(a, b, W) r == SRem(a, b, W) IN
                      IF ~IsZero(r) /\ SignBit(r, W) # SignBit(b, W) THEN Sub(q, One(W), W) ELSE q
CeilDivS(a, b, W) == LET q == SDiv(a, b, W) r == SRem(a, b, W) IN
                     IF ~IsZero(r) /\ SignBit(r, W) = SignBit(b, W) THEN Add(q, One(W), W) ELSE q
CeilDivU(a, b, W) == LET d == UDivRem(a, b, W) IN IF IsZero(d[2]) THEN d[1] ELSE Add(d[1], One(W), W)

MinS(a, b, W) == IF SLt(a, b, W) THEN a ELSE b
MaxS(a, b, W) == IF SLt(a, b, W) THEN b ELSE a
MinU(a, b, W) == IF ULt(a, b) THEN a ELSE b
MaxU(a, b, W) == IF ULt(a, b) THEN b ELSE a

IntMin(W) == Str([i \in 1 .. NL(W) |-> IF i = NL(W) THEN Pow2(TopBits(W) - 1) ELSE 0])
\* full products: <<low, high>> of the 2W-bit product
MulUExt(a, b, W) == LET p == Mul(ZExt(a, W, 2 * W), ZExt(b, W, 2 * W), 2 * W) IN <<Trunc(p, W), Trunc(Iter(LShr1, p, W, 2 * W), W)>>
MulSExt(a, b, W) == LET p == Mul(SExt(a, W, 2 * W), SExt(b, W, 2 * W), 2 * W) IN <<Trunc(p, W), Trunc(Iter(LShr1, p, W, 2 * W), W)>>
\* sum and carry-out
AddUExt(a, b, W) == LET s == Add(ZExt(a, W, W + 1), ZExt(b, W, W + 1), W + 1) IN <<Trunc(s, W), Bit(s, W)>>
=============================================================================
