SPECIFICATION Spec
INVARIANT Done
