------------------------------ MODULE ValueSem ------------------------------
(* Attributes as immutable values (property C08).

   An attribute is abstracted to its payload tree: a node <<tag, kids>> where tag is a sequence of code points
   (the class, or a data leaf: "i-5", "f" + the sixteen hex digits of the binary64 pattern, "s" + text ...) and
   kids the sequence of parameter payloads.  The value semantics the property asks for is: two attributes are the
   same value exactly when their payload trees are the same tree.  Over a family of attributes with an observed
   equality matrix eq[i][j] (the real ==) and observed hash classes h[i] this unfolds into the laws below.

   ValueSemMC.tla explores, over a small float domain, the candidate definitions of float equality a FloatData-like
   leaf could use (by bit pattern, Python's ==, == with all NaNs merged) and shows that only the bit pattern makes
   a consistent value semantics. *)
EXTENDS Naturals, Sequences, FiniteSets

SamePayload(p, q) == p = q

Reflexive(n, eq) == \A i \in 1 .. n : eq[i][i] = 1
Symmetric(n, eq) == \A i, j \in 1 .. n : eq[i][j] = eq[j][i]
Transitive(n, eq) == \A i, j, k \in 1 .. n : (eq[i][j] = 1 /\ eq[j][k] = 1) => eq[i][k] = 1
HashConsistent(n, eq, h) == \A i, j \in 1 .. n : eq[i][j] = 1 => h[i] = h[j]
SameParametersEqual(n, eq, proj) == \A i, j \in 1 .. n : SamePayload(proj[i], proj[j]) => eq[i][j] = 1
DifferentPayloadsUnequal(n, eq, proj) == \A i, j \in 1 .. n : ~SamePayload(proj[i], proj[j]) => eq[i][j] = 0
ValueSemantics(n, eq, h, proj) ==
  /\ Reflexive(n, eq) /\ Symmetric(n, eq) /\ Transitive(n, eq) /\ HashConsistent(n, eq, h)
  /\ SameParametersEqual(n, eq, proj) /\ DifferentPayloadsUnequal(n, eq, proj)
=============================================================================
