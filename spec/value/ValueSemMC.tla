----------------------------- MODULE ValueSemMC -----------------------------
(* Which equality/hash on a float leaf gives a value semantics?  Floats of a small domain are records
   [bits, nan, zero, num]: bit pattern id, is-NaN, is-a-zero, numeric class (what Python's == compares).
   A Scheme picks eq and hash; TLC evaluates the laws of ValueSem on the whole domain for the chosen scheme.
   "bits" satisfies all of them; "pyeq" (==, hash of the number; the hash of a NaN is per object) breaks
   Reflexive; "nanmerged" (the unchanged FloatData: all NaNs equal, 0.0 == -0.0, hash(float)) breaks
   DifferentPayloadsUnequal and - NaN hashes being per object - HashConsistent. *)
EXTENDS ValueSem, TLC

CONSTANT Scheme
VARIABLE done
F(b, nan, zero, num) == [bits |-> b, nan |-> nan, zero |-> zero, num |-> num]
Dom == << F(1, FALSE, TRUE, 0), F(2, FALSE, TRUE, 0),      \* 0.0, -0.0
          F(3, TRUE, FALSE, 100), F(4, TRUE, FALSE, 101),   \* two NaN payloads
          F(3, TRUE, FALSE, 100),                           \* the first NaN again, as another object
          F(5, FALSE, FALSE, 1), F(5, FALSE, FALSE, 1) >>   \* 1.0 twice
N == Len(Dom)
Eq(a, b) == CASE Scheme = "bits" -> a.bits = b.bits
              [] Scheme = "pyeq" -> ~a.nan /\ ~b.nan /\ a.num = b.num
              [] Scheme = "nanmerged" -> (a.nan /\ b.nan) \/ (~a.nan /\ ~b.nan /\ a.num = b.num)
\* hash: per-object for NaNs under the Python-float schemes (object identity = position in Dom)
Hash(i) == LET a == Dom[i] IN
           CASE Scheme = "bits" -> a.bits
             [] OTHER -> IF a.nan THEN 1000 + i ELSE a.num
eqm == [i \in 1 .. N |-> [j \in 1 .. N |-> IF Eq(Dom[i], Dom[j]) THEN 1 ELSE 0]]
hm == [i \in 1 .. N |-> Hash(i)]
pm == [i \in 1 .. N |-> <<Dom[i].bits>>]
Init == done = FALSE
Next == done' = TRUE
Spec == Init /\ [][Next]_done
IsValueSemantics == ValueSemantics(N, eqm, hm, pm)
LawReflexive == Reflexive(N, eqm)
LawHash == HashConsistent(N, eqm, hm)
LawDifferent == DifferentPayloadsUnequal(N, eqm, pm)
=============================================================================
