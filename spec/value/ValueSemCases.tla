---------------------------- MODULE ValueSemCases ----------------------------
(* Judge for C08.  Case: [n, twins |-> <<pairs of indices built from the same parameters>>, proj |-> <<payload trees>>, eq |-> n x n matrix of the real ==, h |-> hash class per
   attribute (equal numbers = equal hash() values)]; one mismatch record per failing law and pair. *)
EXTENDS ValueSem, Json, IOUtils, TLC

Cases == JsonDeserialize(IOEnv.CASE_FILE)
VARIABLE i
Report(k, law, a, b) == PrintT(<<"VERIF", "mismatch", k, law, a, b>>)
CheckCase(k) ==
  LET c == Cases[k] n == c.n IN
  /\ \A a \in 1 .. n : c.eq[a][a] = 1 \/ Report(k, "Reflexive", a, a)
  /\ \A a, b \in 1 .. n : c.eq[a][b] = c.eq[b][a] \/ Report(k, "Symmetric", a, b)
  /\ \A a, b \in 1 .. n : (c.eq[a][b] = 1 => c.h[a] = c.h[b]) \/ Report(k, "HashConsistent", a, b)
  /\ \A a, b \in 1 .. n : (SamePayload(c.proj[a], c.proj[b]) => c.eq[a][b] = 1) \/ Report(k, "SameParametersEqual", a, b)
  /\ \A a, b \in 1 .. n : (~SamePayload(c.proj[a], c.proj[b]) => c.eq[a][b] = 0) \/ Report(k, "DifferentPayloadsUnequal", a, b)
  /\ \A a, b \in 1 .. n : (\A m \in 1 .. n : (c.eq[a][m] = 1 /\ c.eq[m][b] = 1) => c.eq[a][b] = 1) \/ Report(k, "Transitive", a, b)
  \* pairs the harness built from the same constructor arguments (possibly through different constructor paths) / parsed from the same text
  /\ \A p \in DOMAIN c.twins : c.eq[c.twins[p][1]][c.twins[p][2]] = 1 \/ Report(k, "BuiltFromTheSameParametersEqual", c.twins[p][1], c.twins[p][2])
Init == i = 0
Next == i < Len(Cases) /\ i' = i + 1 /\ CheckCase(i + 1)
Spec == Init /\ [][Next]_i
Done == (i = Len(Cases)) => PrintT(<<"VERIF", "done", Len(Cases)>>)
=============================================================================
