SPECIFICATION Spec
INVARIANT Done
