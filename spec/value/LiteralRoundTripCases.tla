------------------------ MODULE LiteralRoundTripCases ------------------------
(* Judge for C06.  Case: [printed (1 = the printer produced text), parsed (1 = the parser accepted that text),
   a (payload tree of the original value), b (payload tree of the value parsed back, <<>> if none),
   eq (1 = original == parsed-back for real), reprint (1 = printing the parsed-back value gives the same text)].
   The reference is ValueSem.tla: a value IS its payload tree (class, parameters, leaves by exact content, floats by
   the bit pattern of their type), so "parses back to an equal value, numeric payloads bit for bit" is SamePayload. *)
EXTENDS ValueSem, Json, IOUtils, TLC

Cases == JsonDeserialize(IOEnv.CASE_FILE)
VARIABLE i
Failing(c) ==
  IF c.printed = 0 THEN {"Prints"}
  ELSE IF c.parsed = 0 THEN {"PrintedTextParsesBack"}
  ELSE (IF ~SamePayload(c.a, c.b) THEN {"ParsesBackToTheSamePayload"} ELSE {})
       \cup (IF c.eq = 0 THEN {"ParsesBackToAnEqualValue"} ELSE {})
       \cup (IF c.reprint = 0 THEN {"ReprintIsStable"} ELSE {})
Init == i = 0
Next == /\ i < Len(Cases) /\ i' = i + 1
        /\ \A cl \in Failing(Cases[i + 1]) : PrintT(<<"VERIF", "mismatch", i + 1, cl>>)
Spec == Init /\ [][Next]_i
Done == (i = Len(Cases)) => PrintT(<<"VERIF", "done", Len(Cases)>>)
=============================================================================
