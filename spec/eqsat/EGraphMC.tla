------------------------------ MODULE EGraphMC ------------------------------
(* Model checking the e-graph design of EGraph.tla on 2-bit integers with two arguments: starting from the e-graph
   of a small term, any sequence of guarded AddNode / Merge steps and Rebuild keeps every class sound for every
   argument tuple, and extraction of any acyclic choice evaluates to the root class's value. *)
EXTENDS EGraph, FiniteSets

CONSTANTS MaxNodes, MaxClasses, Guarded      \* Guarded = FALSE drops the soundness guard of Merge (negative control: Sound must then fail)
W == 2
Vals == {<<v>> : v \in 0 .. 3}
ArgTuples == {<<a, b>> : a \in Vals, b \in Vals}
Ops == {"arith.addi", "arith.muli", "arith.xori"}
OpRec(n) == [op |-> n, w |-> W, sw |-> W, p |-> 0, k |-> <<>>]
ConstRec(v) == [op |-> "arith.constant", w |-> W, sw |-> W, p |-> 0, k |-> <<v>>]
ArgRec(i) == [op |-> "arg", i |-> i]

VARIABLES g, root, last      \* last: name of the action that produced the state (lets TLC show that every action is taken)
vars == <<g, root, last>>
\* initial e-graph: the term  op1(arg1, op2(arg2, const))  one class per node (what eqsat-create-eclasses builds)
Init == \E o1 \in Ops, o2 \in Ops, v \in {0, 1} :
  /\ g = [nodes |-> << [o |-> ArgRec(1), kids |-> <<>>, cls |-> 1], [o |-> ArgRec(2), kids |-> <<>>, cls |-> 2],
                      [o |-> ConstRec(v), kids |-> <<>>, cls |-> 3], [o |-> OpRec(o2), kids |-> <<2, 3>>, cls |-> 4],
                      [o |-> OpRec(o1), kids |-> <<1, 4>>, cls |-> 5] >>, nclasses |-> 5]
  /\ root = 5 /\ last = "init"
SoundEverywhere(h) == \A args \in ArgTuples : ClassSound(h, args)
SameValueEverywhere(h, n) == \A args \in ArgTuples :
  LET val == ClassValues(h, args) IN NodeReady(n, val) /\ val[n.cls] # Undef /\ NodeVal(n, val, args) = val[n.cls]
AddNode == /\ Len(g.nodes) < MaxNodes
           /\ \E o \in Ops, k1 \in 1 .. g.nclasses, k2 \in 1 .. g.nclasses, c \in 1 .. g.nclasses :
                LET n == [o |-> OpRec(o), kids |-> <<k1, k2>>, cls |-> c] IN
                /\ \A j \in DOMAIN g.nodes : ~(SameOp(g.nodes[j], n) /\ g.nodes[j].cls = c)
                /\ SameValueEverywhere(g, n)                   \* the rewrite rule is sound
                /\ g' = [g EXCEPT !.nodes = Append(@, n)]
           /\ UNCHANGED root /\ last' = "add"
Rename(h, c, d) == [h EXCEPT !.nodes = [j \in DOMAIN h.nodes |->
                      [h.nodes[j] EXCEPT !.cls = IF @ = d THEN c ELSE @, !.kids = [k \in DOMAIN @ |-> IF @[k] = d THEN c ELSE @[k]]]]]
Merge == \E c, d \in 1 .. g.nclasses :
           /\ c < d /\ \E j \in DOMAIN g.nodes : g.nodes[j].cls = d
           /\ (Guarded => \A args \in ArgTuples : ClassValues(g, args)[c] = ClassValues(g, args)[d])   \* the rule is sound
           /\ g' = Rename(g, c, d) /\ root' = (IF root = d THEN c ELSE root) /\ last' = "merge"
Rebuild == \E i, j \in DOMAIN g.nodes :
           /\ SameOp(g.nodes[i], g.nodes[j]) /\ g.nodes[i].cls < g.nodes[j].cls           \* no guard: congruence
           /\ g' = Rename(g, g.nodes[i].cls, g.nodes[j].cls) /\ root' = (IF root = g.nodes[j].cls THEN g.nodes[i].cls ELSE root) /\ last' = "rebuild"
Next == AddNode \/ Merge \/ Rebuild
Spec == Init /\ [][Next]_vars

Sound == SoundEverywhere(g)
RootKeepsItsValue ==      \* the root class denotes the original term for every argument tuple
  \A args \in ArgTuples : LET val == ClassValues(g, args) IN
     val[root] = NodeVal(g.nodes[5], [c \in 1 .. g.nclasses |-> IF c = g.nodes[5].kids[1] THEN val[g.nodes[1].cls] ELSE val[g.nodes[4].cls]], args)
\* extraction: any choice of one ready member per class (taken in saturation order) evaluates to the class value -
\* this is ClassSound itself; cost only selects among members
ExtractionSound == Sound
NeverAdd == last # "add"
NeverMerge == last # "merge"
NeverRebuild == last # "rebuild"
=============================================================================
