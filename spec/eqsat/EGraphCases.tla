----------------------------- MODULE EGraphCases -----------------------------
(* Judge for C28: e-graph snapshots projected from the REAL IR (harness/drivers/c28.py) after eqsat-create-eclasses
   (g0: one class per value), after apply-eqsat-pdl-interp with sound rules (g1) and after eqsat-add-costs (g2).
   case = [g0, g1, g2, rets0, rets1, rets2 (classes of the returned values), consts1 (<<class, limbs>> of const_class ops),
           inputs (argument tuples)].  For every argument tuple: every snapshot is ClassSound, the returned classes
   have a value and the SAME value in all snapshots (g0 is the source program), constant classes have their constant. *)
EXTENDS EGraph, Json, IOUtils

Cases == JsonDeserialize(IOEnv.CASE_FILE)
VARIABLES i, j
vars == <<i, j>>
Init == i = 1 /\ j = 1
RetVals(g, rets, args) == LET val == ClassValues(g, args) IN [k \in DOMAIN rets |-> val[rets[k]]]
Clause(c, args) ==
  LET r0 == RetVals(c.g0, c.rets0, args) IN
  IF ~ClassSound(c.g0, args) THEN "SourceEGraphSound"
  ELSE IF \E k \in DOMAIN r0 : r0[k] = Undef THEN "SourceEGraphEvaluates"
  ELSE IF ~ClassSound(c.g1, args) THEN "ClassSoundAfterSaturation"
  ELSE IF RetVals(c.g1, c.rets1, args) # r0 THEN "ReturnedClassKeepsItsValueAfterSaturation"
  ELSE IF \E k \in DOMAIN c.consts1 : ClassValues(c.g1, args)[c.consts1[k][1]] \notin {Undef, c.consts1[k][2]} THEN "ConstantClassHasItsConstant"
  ELSE IF ~ClassSound(c.g2, args) THEN "ClassSoundAfterAddCosts"
  ELSE IF RetVals(c.g2, c.rets2, args) # r0 THEN "ReturnedClassKeepsItsValueAfterAddCosts"
  ELSE "ok"
Next ==
  /\ i <= Len(Cases)
  /\ LET c == Cases[i] IN
     IF j > Len(c.inputs) THEN
        /\ (~Congruent(c.g1) => PrintT(<<"VERIF", "note", i, "NotCongruenceClosed">>))
        /\ i' = i + 1 /\ j' = 1
     ELSE LET v == Clause(c, c.inputs[j]) IN
          /\ (v # "ok" => PrintT(<<"VERIF", "mismatch", i, v, j>>))
          /\ i' = i /\ j' = j + 1
Spec == Init /\ [][Next]_vars
Done == (i = Len(Cases) + 1) => PrintT(<<"VERIF", "done", Len(Cases)>>)
=============================================================================
