SPECIFICATION Spec
INVARIANT Done
