SPECIFICATION Spec
CONSTANTS
  MaxNodes = 7
  MaxClasses = 5
  Guarded = TRUE
INVARIANT Sound
INVARIANT RootKeepsItsValue
