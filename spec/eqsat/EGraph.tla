------------------------------- MODULE EGraph -------------------------------
(* C28: equality saturation on an e-graph, and what "sound" means for it.

   An e-graph is DATA:  g = [nodes |-> << node ... >>, nclasses |-> N]
     node = [o   |-> op record of Machine.tla (op, w, sw, p, k)  or  [op |-> "arg", i |-> argument index],
             kids |-> << class id ... >>,           the operand e-classes
             cls  |-> class id]                     the e-class the node belongs to
   Sem: the value of a class for one argument tuple is the value of ANY member whose operand classes have a
   value (least fixpoint, computed by Saturate below: cycles through the e-graph never justify a value).
   ClassSound(g, args): every member of every class that can be evaluated evaluates to the class's value.

   Design-level actions (model-checked in EGraphMC.tla over all small e-graphs):
     AddNode(n)     a rewrite adds e-node n to class n.cls      - allowed only if n evaluates to the class value
     Merge(c, d)    a rewrite unions two classes                - allowed only if they have the same value
     Rebuild        congruence closure: nodes with the same operator and operand classes get the same class
     Extract(pick)  choose one member per class (acyclic): the extracted term evaluates to the class value
   TLC checks that ClassSound is preserved by AddNode / Merge under those guards and by Rebuild always, and that
   Extract returns a term with the root class's value.  The implementation is bound in EGraphCases.tla. *)
EXTENDS Machine

NodeReady(n, val) == \A k \in DOMAIN n.kids : val[n.kids[k]] # Undef
NodeVal(n, val, args) ==
  IF n.o.op = "arg" THEN args[n.o.i]
  ELSE LET r == ArithEval(n.o, [k \in DOMAIN n.kids |-> val[n.kids[k]]]) IN IF r[1] THEN r[2][1] ELSE <<"ub">>

\* one round: every class without a value takes the value of its first ready member
Round(g, val, args) ==
  [c \in 1 .. g.nclasses |->
     IF val[c] # Undef THEN val[c]
     ELSE LET R == {j \in DOMAIN g.nodes : g.nodes[j].cls = c /\ NodeReady(g.nodes[j], val)} IN
          IF R = {} THEN Undef ELSE NodeVal(g.nodes[CHOOSE j \in R : \A j2 \in R : j <= j2], val, args)]
RECURSIVE Saturate(_, _, _, _)
Saturate(g, val, args, fuel) ==
  LET nxt == Round(g, val, args) IN IF nxt = val \/ fuel = 0 THEN val ELSE Saturate(g, nxt, args, fuel - 1)
ClassValues(g, args) == Saturate(g, [c \in 1 .. g.nclasses |-> Undef], args, g.nclasses + 1)

ClassSoundAt(g, val, args) ==
  \A j \in DOMAIN g.nodes : LET n == g.nodes[j] IN
     (NodeReady(n, val) /\ val[n.cls] # Undef) => NodeVal(n, val, args) = val[n.cls]
ClassSound(g, args) == ClassSoundAt(g, ClassValues(g, args), args)
AllClassesHaveAValue(g, args) == \A c \in 1 .. g.nclasses : ClassValues(g, args)[c] # Undef
\* congruence closure: same operator, same operand classes => same class
SameOp(a, b) == a.o = b.o /\ a.kids = b.kids
Congruent(g) == \A i, j \in DOMAIN g.nodes : SameOp(g.nodes[i], g.nodes[j]) => g.nodes[i].cls = g.nodes[j].cls
=============================================================================
