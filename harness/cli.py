"""./check dispatcher."""
import importlib
import sys

from .core import main


def cli(argv: list[str]) -> int:
    if not argv or argv[0].startswith("-"):
        print("usage: check <PROPERTY_ID> [--tier quick|thorough] [--seed N] [--replay PATH]", file=sys.stderr)
        return 2
    prop = argv[0]
    try:
        mod = importlib.import_module(f"harness.drivers.{prop.lower()}")
    except ModuleNotFoundError as e:
        print(f"no driver for {prop}: {e}", file=sys.stderr)
        return 2
    return main(prop, mod.run, argv[1:])


if __name__ == "__main__":
    sys.exit(cli(sys.argv[1:]))
