#!/bin/sh
# usage: confirm_seed.sh <name> <patch> <demo.py>   -> confirms in a scratch worktree and stores under /verif/seeded/<name>/
# (demo passes at /repo HEAD, fails with the patch; pinned test-suite still passes with the patch)
NAME="$1"; PATCH="$2"; DEMO="$3"
WT=/tmp/confirm/$NAME
mkdir -p /tmp/confirm; rm -rf "$WT"
git -C /repo worktree add -q --detach "$WT" HEAD || exit 2
cp "$DEMO" "$WT/demo_confirm.py"
cd "$WT"
PYTHONPATH="$WT" /venv/bin/python demo_confirm.py >/tmp/confirm/$NAME.before 2>&1; B=$?
if ! git apply --3way "$PATCH" 2>/dev/null; then git apply "$PATCH" || { echo "$NAME: PATCH DOES NOT APPLY"; git -C /repo worktree remove --force "$WT"; exit 1; }; fi
git reset -q
git diff > /tmp/confirm/$NAME.patch
PYTHONPATH="$WT" /venv/bin/python demo_confirm.py >/tmp/confirm/$NAME.after 2>&1; A=$?
PYTHONPATH="$WT" timeout 1500 /venv/bin/python -m pytest -q -p no:cacheprovider --timeout=900 -n 8 -o addopts="--import-mode=importlib" 2>&1 | tail -4 > /tmp/confirm/$NAME.tests
T=$(tail -1 /tmp/confirm/$NAME.tests)
echo "$NAME: demo before rc=$B after rc=$A tests: $T"
case "$T" in *"2 failed, 5247 passed"*) TOK=1;; *) TOK=0;; esac
if [ "$B" = 0 ] && [ "$A" != 0 ] && [ "$TOK" = 1 ]; then
  mkdir -p /verif/seeded/$NAME
  cp /tmp/confirm/$NAME.patch /verif/seeded/$NAME/patch.diff
  cp "$DEMO" /verif/seeded/$NAME/demo.py
  printf '%s\n' "demo at HEAD: rc=$B" "demo with patch: rc=$A ($(tail -2 /tmp/confirm/$NAME.after | tr '\n' ' ' | cut -c1-300))" "tests with patch: $T" > /verif/seeded/$NAME/confirm.txt
  echo "$NAME: CONFIRMED"
else
  echo "$NAME: NOT CONFIRMED"
fi
cd / && git -C /repo worktree remove --force "$WT"
