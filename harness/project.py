"""Projection of real xDSL IR objects to the abstract state used by the IR specs (spec/ir).

A Universe registers every Operation / Block / Region / SSAValue the harness has created or has
met while walking, assigns them small integer ids (creation order), and produces a `chk` record:
the raw pointer walks of the real objects in BOTH directions, parent pointers, operand / successor
lists, use chains forward and backward, stored arg/result indices.  Nothing is interpreted here:
TLC evaluates the well-formedness predicate on this data (spec/ir/IRProj.tla)."""

from __future__ import annotations

from typing import Any

from xdsl.ir import Block, BlockArgument, ErasedSSAValue, Operation, OpResult, Region, SSAValue


class Universe:
    def __init__(self):
        self.ops: list[Operation] = []
        self.blocks: list[Block] = []
        self.regions: list[Region] = []
        self.vals: list[SSAValue] = []
        self._op_id: dict[int, int] = {}
        self._blk_id: dict[int, int] = {}
        self._reg_id: dict[int, int] = {}
        self._val_id: dict[int, int] = {}
        self.dead_ops: set[int] = set()
        self.dead_blocks: set[int] = set()
        self.dead_regions: set[int] = set()
        self.dead_vals: set[int] = set()
        self._tokens: dict[Any, int] = {}
        self._by_text: dict[str, list] = {}
        self._by_num: list = []

    def token(self, x: Any) -> int:
        """Intern an attribute / type (by its own ==/hash) as a small integer."""
        t = self._tokens.get(x)
        if t is None:
            # == is the relation; hash may disagree with it (NaN payloads hash by identity: C08, not ours), so a miss is
            # re-checked by == among the values that print the same
            try:
                s = str(x)
            except Exception:  # noqa: BLE001
                s = None
            for y, ty in self._by_text.get(s, ()) if s is not None else ():
                if y == x:
                    self._tokens[x] = ty
                    return ty
            t = self._tokens[x] = len(self._by_num) + 1
            self._by_num.append(x)
            if s is not None:
                self._by_text.setdefault(s, []).append((x, t))
        return t

    def dict_token(self, d) -> list:
        return sorted([k, self.token(v)] for k, v in d.items())

    # ---- registration (ids are 1-based; 0 means "none")
    def op(self, o: Operation | None) -> int:
        if o is None:
            return 0
        i = self._op_id.get(id(o))
        if i is None:
            self.ops.append(o)
            i = self._op_id[id(o)] = len(self.ops)
            for r in o.results:
                self.val(r)
        return i

    def block(self, b: Block | None) -> int:
        if b is None:
            return 0
        i = self._blk_id.get(id(b))
        if i is None:
            self.blocks.append(b)
            i = self._blk_id[id(b)] = len(self.blocks)
            for a in b.args:
                self.val(a)
        return i

    def region(self, r: Region | None) -> int:
        if r is None:
            return 0
        i = self._reg_id.get(id(r))
        if i is None:
            self.regions.append(r)
            i = self._reg_id[id(r)] = len(self.regions)
        return i

    def val(self, v: SSAValue | None) -> int:
        if v is None:
            return 0
        i = self._val_id.get(id(v))
        if i is None:
            self.vals.append(v)
            i = self._val_id[id(v)] = len(self.vals)
        return i

    def register_tree(self, o: Operation):
        """Register an op and everything nested in it, in a deterministic pre-order."""
        self.op(o)
        for r in o.regions:
            self.region(r)
            for b in _walk(r._first_block, "_next_block", 10_000):  # pyright: ignore
                self.block(b)
                for c in _walk(b._first_op, "_next_op", 100_000):  # pyright: ignore
                    self.register_tree(c)

    def mark_dead_tree(self, o: Operation):
        """Called just before an op is erased: it and everything nested in it leave the universe."""
        self.dead_ops.add(self.op(o))
        for r in o.results:
            self.dead_vals.add(self.val(r))
        for r in o.regions:
            self.mark_dead_region(r)

    def mark_dead_region(self, r: Region):
        self.dead_regions.add(self.region(r))
        for b in _walk(r._first_block, "_next_block", 10_000):  # pyright: ignore
            self.mark_dead_block(b)

    def mark_dead_block(self, b: Block):
        self.dead_blocks.add(self.block(b))
        for a in b.args:
            self.dead_vals.add(self.val(a))
        for c in _walk(b._first_op, "_next_op", 100_000):  # pyright: ignore
            self.mark_dead_tree(c)

    # ---- discovery: close the universe under "reachable from a registered live object"
    def discover(self):
        changed = True
        no, nb, nr, nv = 0, 0, 0, 0
        while changed:
            changed = False
            while no < len(self.ops):
                o = self.ops[no]
                no += 1
                if no in self.dead_ops:
                    continue
                self.block(o.parent)
                for r in o.regions:
                    self.region(r)
                for v in o._operands:  # pyright: ignore
                    self.val(v)
                for s in o._successors:  # pyright: ignore
                    self.block(s)
                for r in o.results:
                    self.val(r)
                changed = True
            while nb < len(self.blocks):
                b = self.blocks[nb]
                nb += 1
                if nb in self.dead_blocks:
                    continue
                self.region(b.parent)
                for a in b._args:  # pyright: ignore
                    self.val(a)
                for c in _walk(b._first_op, "_next_op", len(self.ops) + 64):  # pyright: ignore
                    self.op(c)
                for c in _walk(b._last_op, "_prev_op", len(self.ops) + 64):  # pyright: ignore
                    self.op(c)
                for u in _walk(b.first_use, "_next_use", 100_000):   # users of the block (e.g. a not yet inserted branch op)
                    self.op(u.operation)
                changed = True
            while nr < len(self.regions):
                r = self.regions[nr]
                nr += 1
                if nr in self.dead_regions:
                    continue
                self.op(r.parent)
                for c in _walk(r._first_block, "_next_block", len(self.blocks) + 64):  # pyright: ignore
                    self.block(c)
                for c in _walk(r._last_block, "_prev_block", len(self.blocks) + 64):  # pyright: ignore
                    self.block(c)
                changed = True
            while nv < len(self.vals):
                v = self.vals[nv]
                nv += 1
                if nv in self.dead_vals or isinstance(v, ErasedSSAValue):
                    continue
                if isinstance(v, OpResult):
                    self.op(v.op)
                elif isinstance(v, BlockArgument):
                    self.block(v.block)
                for u in _walk(v.first_use, "_next_use", 100_000):
                    self.op(u.operation)
                changed = True

    # ---- projection
    @staticmethod
    def _normal_dicts(o):
        """C04's equivalence: an inherent attribute given in the attribute dictionary is the property it denotes,
        a property equal to its declared default is like an absent one."""
        attrs, props = dict(o.attributes), dict(o.properties)
        try:
            op_def = type(o).get_irdl_definition()
        except Exception:  # noqa: BLE001  (unregistered / non-IRDL op)
            return attrs, props
        for name, pdef in op_def.properties.items():
            if name in attrs and name not in props:
                props[name] = attrs.pop(name)
            dv = getattr(pdef, "default_value", None)
            if dv is not None and name in props and props[name] == dv:
                del props[name]
        return attrs, props

    def project(self, extras: bool = False, normalize: bool = False) -> dict[str, Any]:
        """extras=True adds what structural equivalence looks at: op name, attribute / property
        dictionaries and value types, interned as tokens."""
        self.discover()
        cap_o, cap_b, cap_u = len(self.ops) + 2, len(self.blocks) + 2, 4 * len(self.ops) + 8
        ops = []
        for i, o in enumerate(self.ops, 1):
            if i in self.dead_ops:
                ops.append({"alive": 0, "parent": 0, "operands": [], "succs": [], "results": [], "regions": []}
                           | ({"name": "", "attrs": [], "props": []} if extras else {}))
                continue
            if extras:
                o_attrs, o_props = self._normal_dicts(o) if normalize else (o.attributes, o.properties)
            ops.append(({"name": o.name if o.name != "builtin.unregistered" else "unregistered:" + str(getattr(o, "op_name", "")),
                         "attrs": self.dict_token(o_attrs), "props": self.dict_token(o_props)} if extras else {}) | {
                "alive": 1,
                "parent": self.block(o.parent),
                "operands": [self.val(v) for v in o._operands],  # pyright: ignore
                "succs": [self.block(b) for b in o._successors],  # pyright: ignore
                "results": [self.val(v) for v in o.results],
                "regions": [self.region(r) for r in o.regions],
            })
        blocks = []
        for i, b in enumerate(self.blocks, 1):
            if i in self.dead_blocks:
                blocks.append({"alive": 0, "parent": 0, "fwd": [], "bwd": [], "args": [], "ufwd": [], "ubwd": []})
                continue
            uf, ub = self._uses(b, cap_u)
            blocks.append({
                "alive": 1,
                "parent": self.region(b.parent),
                "fwd": [self.op(c) for c in _walk(b._first_op, "_next_op", cap_o)],  # pyright: ignore
                "bwd": [self.op(c) for c in _walk(b._last_op, "_prev_op", cap_o)],  # pyright: ignore
                "args": [self.val(a) for a in b._args],  # pyright: ignore
                "ufwd": uf, "ubwd": ub,
            })
        regions = []
        for i, r in enumerate(self.regions, 1):
            if i in self.dead_regions:
                regions.append({"alive": 0, "parent": 0, "fwd": [], "bwd": []})
                continue
            regions.append({
                "alive": 1,
                "parent": self.op(r.parent),
                "fwd": [self.block(c) for c in _walk(r._first_block, "_next_block", cap_b)],  # pyright: ignore
                "bwd": [self.block(c) for c in _walk(r._last_block, "_prev_block", cap_b)],  # pyright: ignore
            })
        vals = []
        for i, v in enumerate(self.vals, 1):
            if i in self.dead_vals or isinstance(v, ErasedSSAValue):
                vals.append({"alive": 0, "kind": "erased", "owner": 0, "index": 0, "ufwd": [], "ubwd": []} | ({"type": 0} if extras else {}))
                continue
            uf, ub = self._uses(v, cap_u)
            if isinstance(v, OpResult):
                kind, owner = "res", self.op(v.op)
            elif isinstance(v, BlockArgument):
                kind, owner = "arg", self.block(v.block)
            else:
                kind, owner = "other", 0
            vals.append({"alive": 1, "kind": kind, "owner": owner, "index": int(getattr(v, "index", 0)), "ufwd": uf, "ubwd": ub}
                        | ({"type": self.token(v.type)} if extras else {}))
        return {"ops": ops, "blocks": blocks, "regions": regions, "vals": vals}

    def _uses(self, x, cap: int):
        fwd = list(_walk(x.first_use, "_next_use", cap))
        uf = [[self.op(u.operation), u.index + 1] for u in fwd]
        ub = [[self.op(u.operation), u.index + 1] for u in _walk(fwd[-1], "_prev_use", cap)] if fwd else []
        return uf, ub


def _walk(start, attr: str, cap: int):
    """Follow a pointer chain; stop at None or after `cap` steps (a cycle shows up as an over-long walk)."""
    x = start
    n = 0
    while x is not None and n < cap:
        yield x
        x = getattr(x, attr)
        n += 1
