"""Shared check plumbing: context, violation records, known findings, evidence, exit codes."""

from __future__ import annotations

import json
import os
import random
import sys
import time
import traceback
from dataclasses import dataclass, field
from pathlib import Path
from typing import Any, Callable

VERIF = Path(__file__).resolve().parent.parent
EVIDENCE = Path(os.environ.get("VERIF_EVIDENCE_DIR") or VERIF / "evidence")
REPLAY = Path(os.environ["VERIF_EVIDENCE_DIR"]) / "replay" if os.environ.get("VERIF_EVIDENCE_DIR") else VERIF / "replay"
REPO = Path(os.environ.get("VERIF_REPO") or "/repo")
FINDINGS = VERIF / "known_findings.json"


@dataclass
class Violation:
    """A failure of the property's own predicate on implementation data."""

    what: str  # one-line human description
    case: dict[str, Any]  # the failing case: fields used for known-finding matching + replay
    clause: str = ""  # name of the failing conjunct of the spec


@dataclass
class Ctx:
    prop: str
    tier: str
    seed: int
    replay: str | None = None
    t0: float = field(default_factory=time.time)
    violations: list[Violation] = field(default_factory=list)
    divergences: list[dict[str, Any]] = field(default_factory=list)
    coverage: dict[str, Any] = field(default_factory=dict)
    assumptions: list[str] = field(default_factory=list)
    level: str = "exploration"
    notes: list[str] = field(default_factory=list)

    @property
    def quick(self) -> bool:
        return self.tier == "quick"

    def rng(self, salt: str = "") -> random.Random:
        return random.Random(f"{self.seed}/{self.prop}/{salt}")

    def violate(self, what: str, case: dict[str, Any], clause: str = ""):
        self.violations.append(Violation(what, case, clause))

    def diverge(self, what: str, **kw: Any):
        if len(self.divergences) < 50:
            self.divergences.append({"what": what, **kw})

    def cov_add(self, key: str, n: int = 1):
        self.coverage[key] = self.coverage.get(key, 0) + n

    def sample(self, s: Any, cap: int = 4):
        lst = self.coverage.setdefault("samples", [])
        if len(lst) < cap:
            lst.append(s)

    def log(self, *a: Any):
        print("[%s %6.1fs]" % (self.prop, time.time() - self.t0), *a, file=sys.stderr, flush=True)


class Hang(BaseException):
    """Raised by `time_limit` when the code under test does not come back."""


_TL = {"active": False, "deadline": 0.0, "installed": False}


def _tl_handler(signum, frame):
    if _TL["active"]:      # one shot: a stale tick (nothing being timed) is ignored
        _TL["active"] = False
        raise Hang()


class time_limit:
    """Context manager: raise Hang in the main thread if the body uses more than `seconds` of CPU time (ITIMER_VIRTUAL:
    machine load must not turn into a verdict), with a wall-clock backstop at 20 x `seconds` (at least 60 s) for bodies
    that wait rather than compute.  The handlers are installed once and stay installed (they ignore ticks while nothing
    is timed)."""

    def __init__(self, seconds: float):
        self.seconds = seconds

    def __enter__(self):
        import signal

        if not _TL["installed"]:
            signal.signal(signal.SIGVTALRM, _tl_handler)
            signal.signal(signal.SIGALRM, _tl_handler)
            _TL["installed"] = True
        _TL["deadline"] = time.time() + self.seconds
        _TL["active"] = True
        signal.setitimer(signal.ITIMER_VIRTUAL, self.seconds)
        signal.setitimer(signal.ITIMER_REAL, max(60.0, 20 * self.seconds))
        return self

    def __exit__(self, *exc):
        import signal

        for _ in range(2):
            try:
                _TL["active"] = False
                signal.setitimer(signal.ITIMER_VIRTUAL, 0)
                signal.setitimer(signal.ITIMER_REAL, 0)
                break
            except Hang:  # the tick arrived while leaving: the body had finished, nothing to report
                continue
        return False


def _match(matcher: dict[str, Any], case: dict[str, Any]) -> bool:
    """Declarative matcher: every key of the matcher must be present in the case and equal
    (or, when the matcher's value is a list, the case's value must be one of its elements;
    a dict value {"any_of": [...]} / {"prefix": "..."} is also understood)."""
    for k, want in matcher.items():
        if k not in case:
            return False
        have = case[k]
        if isinstance(want, dict):
            if "any_of" in want:
                if have not in want["any_of"]:
                    return False
            elif "prefix" in want:
                if not (isinstance(have, str) and have.startswith(want["prefix"])):
                    return False
            elif have != want:
                return False
        elif isinstance(want, list) and not isinstance(have, list):
            if have not in want:
                return False
        elif have != want:
            return False
    return True


def load_findings(prop: str) -> list[dict[str, Any]]:
    if not FINDINGS.exists():
        return []
    data = json.loads(FINDINGS.read_text())
    return [f for f in data.get("findings", []) if f.get("property") == prop and f.get("status") == "open"]


def _jsonable(v: Any) -> Any:
    if isinstance(v, dict):
        return {str(k): _jsonable(x) for k, x in v.items()}
    if isinstance(v, (list, tuple)):
        return [_jsonable(x) for x in v]
    if isinstance(v, (set, frozenset)):
        return sorted((_jsonable(x) for x in v), key=repr)
    if isinstance(v, (str, int, float, bool)) or v is None:
        return v
    return repr(v)


def finish(ctx: Ctx) -> int:
    """Match violations against known findings, write evidence + replay files, print verdict lines."""
    findings = load_findings(ctx.prop)
    known_hit: dict[str, int] = {}
    unknown: list[Violation] = []
    for v in ctx.violations:
        hit = None
        for f in findings:
            if _match(f["match"], v.case):
                hit = f
                break
        if hit is None:
            unknown.append(v)
        else:
            known_hit[hit["key"]] = known_hit.get(hit["key"], 0) + 1
    for f in findings:
        if f["key"] in known_hit:
            print(f"KNOWN-FINDING: property={ctx.prop} {f['key']}: {f['what']} (reproduced on {known_hit[f['key']]} case(s))")
    rc = 0
    REPLAY.mkdir(parents=True, exist_ok=True)
    # group unknown violations by clause to keep output readable
    shown = 0
    for n, v in enumerate(unknown):
        if shown >= int(os.environ.get("VERIF_REPLAY_MAX", "10")):
            break
        path = REPLAY / f"{ctx.prop}-{n}.json"
        path.write_text(json.dumps({"property": ctx.prop, "tier": ctx.tier, "seed": ctx.seed, "what": v.what,
                                    "clause": v.clause, "case": _jsonable(v.case)}, indent=1))
        print(f"VIOLATION property={ctx.prop} replay={path}")
        print(f"  what: {v.what}" + (f"  [clause {v.clause}]" if v.clause else ""))
        shown += 1
        rc = 1
    if len(unknown) > shown:
        print(f"  ... and {len(unknown) - shown} more violations of {ctx.prop}")
    write_evidence(ctx, len(unknown), known_hit)
    if rc == 0:
        print(f"OK property={ctx.prop} tier={ctx.tier} seed={ctx.seed} wall={time.time()-ctx.t0:.1f}s "
              + " ".join(f"{k}={v}" for k, v in ctx.coverage.items() if isinstance(v, (int, bool))))
    return rc


def write_evidence(ctx: Ctx, n_viol: int, known_hit: dict[str, int]):
    cov = dict(ctx.coverage)
    cov.setdefault("samples", [])
    if not cov["samples"]:
        cov["samples"] = ["(no sample recorded)"]
    cov["samples"] = _jsonable(cov["samples"])
    if known_hit:
        cov["known_findings_reproduced"] = known_hit
    if ctx.divergences:
        cov["divergences"] = _jsonable(ctx.divergences[:20])
    if ctx.notes:
        cov["notes"] = ctx.notes
    ev = {
        "property_id": ctx.prop,
        "tier": ctx.tier,
        "seed": ctx.seed,
        "level": ctx.level,
        "coverage": _jsonable(cov),
        "assumptions": ctx.assumptions,
        "wall_s": round(time.time() - ctx.t0, 2),
        "violations": n_viol,
    }
    EVIDENCE.mkdir(parents=True, exist_ok=True)
    (EVIDENCE / f"{ctx.prop}.json").write_text(json.dumps(ev, indent=1) + "\n")


def main(prop: str, runner: Callable[[Ctx], None], argv: list[str]) -> int:
    import argparse

    ap = argparse.ArgumentParser(prog=f"check {prop}")
    ap.add_argument("--tier", default=os.environ.get("VERIF_TIER", "quick"), choices=["quick", "thorough"])
    ap.add_argument("--seed", type=int, default=int(os.environ.get("VERIF_SEED", "0") or 0))
    ap.add_argument("--replay", default=None)
    a = ap.parse_args(argv)
    want = None
    if a.replay:
        # a replay file records tier, seed and the failing case; every driver is deterministic in (tier, seed), so the
        # failing case is regenerated by re-running with them and looked up among the violations
        want = json.loads(Path(a.replay).read_text())
        a.tier, a.seed = want.get("tier", a.tier), int(want.get("seed", a.seed))
    ctx = Ctx(prop=prop, tier=a.tier, seed=a.seed, replay=a.replay)
    try:
        runner(ctx)
    except Exception:
        traceback.print_exc()
        print(f"MACHINERY-FAILURE property={prop} (see traceback on stderr); no verdict", flush=True)
        return 2
    if want is not None:
        hit = [v for v in ctx.violations if v.what == want.get("what") or (v.clause == want.get("clause") and _jsonable(v.case) == want.get("case"))]
        print(f"REPLAY property={prop} tier={a.tier} seed={a.seed} reproduced={'yes' if hit else 'no'} ({len(ctx.violations)} violation(s) in this run)")
        if hit:
            print(f"  what: {hit[0].what}")
    return finish(ctx)
