"""Spec-to-code helpers: turn a TLC state graph into a transition cover (paths from an initial state)."""

from __future__ import annotations

import re
from collections import deque
from typing import Any

_LABEL = re.compile(r"^(\w+)(?:\((.*)\))?$")


def parse_label(lab: str) -> tuple[str, list[Any]]:
    """'Push(1)' -> ('Push', [1]);  'Set(1, 2, 0)' -> ('Set', [1, 2, 0]); args parsed as TLA+ values."""
    from . import tlaval

    m = _LABEL.match(lab.strip())
    if not m:
        return lab, []
    name, args = m.group(1), m.group(2)
    if args is None or not args.strip():
        return name, []
    vals = tlaval.parse("<<" + args + ">>")
    return name, list(vals)


def transition_cover(edges: list[tuple[str, str, str]], inits: list[str], max_paths: int | None = None,
                     rng=None) -> list[list[tuple[str, str, str]]]:
    """Paths (lists of edges) from an initial state that together traverse every edge at least once.

    Greedy: BFS tree gives a shortest path to every state; edges are then consumed by walking: from the
    end of a path keep following an uncovered outgoing edge as long as there is one."""
    out: dict[str, list[tuple[str, str, str]]] = {}
    for e in edges:
        out.setdefault(e[0], []).append(e)
    pred: dict[str, tuple[str, str, str] | None] = {i: None for i in inits}
    dq = deque(inits)
    while dq:
        u = dq.popleft()
        for e in out.get(u, []):
            if e[1] not in pred:
                pred[e[1]] = e
                dq.append(e[1])

    def path_to(u: str) -> list[tuple[str, str, str]]:
        p = []
        while pred[u] is not None:
            e = pred[u]
            p.append(e)
            u = e[0]
        p.reverse()
        return p

    covered: set[tuple[str, str, str]] = set()
    paths: list[list[tuple[str, str, str]]] = []
    order = [e for e in edges if e[0] in pred]
    if rng is not None:
        rng.shuffle(order)
    for e in order:
        if e in covered:
            continue
        p = path_to(e[0]) + [e]
        covered.update(p)
        u = e[1]
        # extend greedily through uncovered edges
        while True:
            nxt = [f for f in out.get(u, []) if f not in covered]
            if not nxt:
                break
            f = nxt[0]
            p.append(f)
            covered.add(f)
            u = f[1]
        paths.append(p)
        if max_paths is not None and len(paths) >= max_paths:
            break
    return paths
