"""Regenerates the tables of DESIGN.md §11.5 / §11.6 from known_findings.json (python -m harness.design_tables)."""
import json
import re
from pathlib import Path

VERIF = Path(__file__).resolve().parent.parent


def cell(t: str) -> str:
    return t.replace("|", "\\|").replace("\n", " ")


def main():
    d = json.loads((VERIF / "known_findings.json").read_text())
    fx = [f for f in d["findings"] if f["status"] == "fixed"]
    op = [f for f in d["findings"] if f["status"] == "open"]
    fixed = "| Prop. | Commit | What failed |\n|---|---|---|\n" + "\n".join(
        f"| {f['property']} | `{f['commit']}` | {cell(f['what'].split(f['commit'], 1)[1].strip()[:330])} |" for f in fx)
    opened = "| Prop. | Key | What fails |\n|---|---|---|\n" + "\n".join(
        f"| {f['property']} | `{f['key']}` | {cell(f['what'][:330])} |" for f in op if f["property"] != "C17")
    c17 = "| Pass / clause | Example |\n|---|---|\n" + "\n".join(
        f"| `{f['key']}` | {cell(f['what'].split('e.g. on ', 1)[1][:200] if 'e.g. on ' in f['what'] else f['what'][:200])} |" for f in op if f["property"] == "C17")
    p = VERIF / "DESIGN.md"
    s = p.read_text()
    for name, table in (("fixed", fixed), ("open", opened), ("c17", c17)):
        s, n = re.subn(rf"<!-- BEGIN:{name} -->.*?<!-- END:{name} -->", lambda _m: f"<!-- BEGIN:{name} -->\n{table}\n<!-- END:{name} -->", s, flags=re.S)
        assert n == 1, name
    s = re.sub(r"\(\d+ `fix:` commits, \d+ open findings\)", f"({len({f['commit'] for f in fx})} `fix:` commits, {len(op)} open findings)", s)
    p.write_text(s)
    print(f"fixed {len(fx)} open {len(op)} (C17: {sum(1 for f in op if f['property'] == 'C17')})")


if __name__ == "__main__":
    main()
