#!/bin/sh
# usage: harness/process_round.sh SUFFIX N1 N2 P...   (e.g. c 5 6 C15 C03)  -> names P-N1 (patch1/demo), P-N2 (patch2/demo2)
SUF=$1; N1=$2; N2=$3; shift 3
cd /verif
for P in "$@"; do
  mkdir -p /tmp/seedkeep/${P}${SUF}
  (cd /tmp/seed/${P}${SUF} && git diff > /tmp/seedkeep/${P}${SUF}/patch1.diff; cp demo.py demo2.py patch2.diff /tmp/seedkeep/${P}${SUF}/ 2>/dev/null)
  git -C /repo worktree remove --force /tmp/seed/${P}${SUF}
  sh harness/confirm_seed.sh $P-$N1 /tmp/seedkeep/${P}${SUF}/patch1.diff /tmp/seedkeep/${P}${SUF}/demo.py | tail -1 >> /tmp/round.out
  [ -f /tmp/seedkeep/${P}${SUF}/patch2.diff ] && sh harness/confirm_seed.sh $P-$N2 /tmp/seedkeep/${P}${SUF}/patch2.diff /tmp/seedkeep/${P}${SUF}/demo2.py | tail -1 >> /tmp/round.out
  for s in $P-$N1 $P-$N2; do
    [ -d /verif/seeded/$s ] && echo "== $s $(sh harness/seedtest2.sh /verif/seeded/$s $P 2>&1 | grep -v '^KNOWN' | head -1 | cut -c1-140)" >> /tmp/round.out
  done
done
echo DONE >> /tmp/round.out
