"""Seeded generator of test-dialect IR trees (shared by the C02 / C03 / C04 drivers).

Shapes covered on purpose: multi-block regions with successors (forward and backward edges), block
arguments, nested regions, values used before their definition (graph-region style, same block and
across blocks), operands defined outside the generated tree (external values), attributes and
properties, several result types, multi-result ops."""

from __future__ import annotations

from typing import Any

from xdsl.dialects import test
from xdsl.dialects.builtin import IndexType, IntegerAttr, StringAttr, UnitAttr, i1, i32, i64

index = IndexType()
from xdsl.ir import Block, Region, SSAValue

TYPES = [i32, i64, i1, index]


def _attrs(rng) -> dict[str, Any]:
    d: dict[str, Any] = {}
    if rng.random() < 0.4:
        d["a"] = IntegerAttr(rng.randint(0, 2), i32)
    if rng.random() < 0.2:
        d["s"] = StringAttr(rng.choice(["x", "y"]))
    if rng.random() < 0.1:
        d["u"] = UnitAttr()
    return d


def _props(rng) -> dict[str, Any]:
    d: dict[str, Any] = {}
    if rng.random() < 0.3:
        d["prop1"] = IntegerAttr(rng.randint(0, 2), i64)
    if rng.random() < 0.15:
        d["prop2"] = StringAttr(rng.choice(["p", "q"]))
    return d


def gen_region(rng, ext: list[SSAValue], depth: int, max_blocks: int = 3, max_ops: int = 4, forward_refs: bool = True) -> Region:
    """A region whose ops may use: block args and earlier results of the region, `ext` values, and (forward_refs)
    results defined later in the region."""
    nblocks = rng.randint(1, max_blocks)
    blocks = [Block(arg_types=[rng.choice(TYPES) for _ in range(rng.randint(0, 2))]) for _ in range(nblocks)]
    ops_by_block: list[list[Any]] = []
    avail: list[SSAValue] = list(ext)
    for b in blocks:
        avail.extend(b.args)
    all_ops = []
    for bi, b in enumerate(blocks):
        ops = []
        for _ in range(rng.randint(1, max_ops)):
            regions = []
            if depth > 0 and rng.random() < 0.25:
                regions = [gen_region(rng, avail, depth - 1, 2, 3, forward_refs)]
            k = rng.choice([0, 1, 1, 2, 2, 3])
            operands = [rng.choice(avail) for _ in range(k)] if avail else []
            op = test.TestOp.create(operands=operands, result_types=[rng.choice(TYPES) for _ in range(rng.choice([0, 1, 1, 2]))],
                                    attributes=_attrs(rng), properties=_props(rng), regions=regions)
            ops.append(op)
            all_ops.append(op)
            avail.extend(op.results)
        # terminator-like last op with successors
        if nblocks > 1 or rng.random() < 0.3:
            succ = [rng.choice(blocks) for _ in range(rng.choice([0, 1, 1, 2]))]
            t = test.TestTermOp.create(operands=[rng.choice(avail) for _ in range(rng.choice([0, 1]))] if avail else [],
                                       successors=succ, attributes=_attrs(rng))
            ops.append(t)
            all_ops.append(t)
        ops_by_block.append(ops)
    if forward_refs and all_ops:
        # rewire a few operands to values defined later (use before def) anywhere in this region
        results = [r for o in all_ops for r in o.results]
        for o in all_ops:
            for i in range(len(o.operands)):
                if results and rng.random() < 0.2:
                    o.operands[i] = rng.choice(results)
    for b, ops in zip(blocks, ops_by_block):
        b.add_ops(ops)
    return Region(blocks)


def gen_op(rng, ext: list[SSAValue] | None = None, depth: int = 2, forward_refs: bool = True):
    """A detached op with 1-2 regions, possibly using external values."""
    ext = list(ext or [])
    regions = [gen_region(rng, ext, depth, forward_refs=forward_refs) for _ in range(rng.randint(1, 2))]
    return test.TestOp.create(operands=[rng.choice(ext) for _ in range(rng.choice([0, 1, 2]))] if ext else [],
                              result_types=[rng.choice(TYPES) for _ in range(rng.choice([0, 1, 2]))],
                              attributes=_attrs(rng), properties=_props(rng), regions=regions)


def gen_externals(rng, n: int = 3):
    """A holder block with an op defining n external values (kept alive by the caller)."""
    op = test.TestOp.create(result_types=[rng.choice(TYPES) for _ in range(n)])
    holder = Block([op], arg_types=[i32])
    return holder, list(op.results) + list(holder.args)
