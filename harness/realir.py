"""Real xDSL IR driven by the actions of spec/ir/IRGraph.tla.

RealIR holds a Universe (harness/project.py) whose ids coincide with the model's ids, can build the
real objects for any abstract state, apply every model action through the public xDSL API (each
action has several equivalent API routes: Block/Region/Operation methods, Rewriter, PatternRewriter),
and compare its projection with an abstract state."""

from __future__ import annotations

from typing import Any

from xdsl.dialects import test
from xdsl.dialects.builtin import i32
from xdsl.ir import Block, Region
from xdsl.pattern_rewriter import PatternRewriter
from xdsl.rewriter import BlockInsertPoint, InsertPoint, Rewriter

from .project import Universe


def _anchor():
    """An attached scratch op (outside every universe) for PatternRewriter instances that need a current op."""
    op = test.TestOp()
    Block([op])
    _KEEP.append(op.parent)
    if len(_KEEP) > 1000:
        del _KEEP[:500]
    return op


_KEEP: list = []


def seq(v: Any) -> list:
    """A TLA+ sequence as parsed by tlaval: tuple, or dict with keys 1..n, or empty."""
    if isinstance(v, (tuple, list)):
        return list(v)
    if isinstance(v, dict):
        return [v[k] for k in sorted(v)]
    if isinstance(v, frozenset) and not v:
        return []
    raise TypeError(f"not a sequence: {v!r}")


class RealIR:
    def __init__(self, rng=None):
        self.u = Universe()
        self.rng = rng

    # id -> object (1-based)
    def O(self, i: int):
        return self.u.ops[i - 1]

    def B(self, i: int):
        return self.u.blocks[i - 1]

    def R(self, i: int):
        return self.u.regions[i - 1]

    def V(self, i: int):
        return self.u.vals[i - 1]

    def pick(self, n: int) -> int:
        return self.rng.randrange(n) if self.rng is not None else 0

    # ------------------------------------------------------------------ build from an abstract state
    @classmethod
    def from_state(cls, ir: dict[str, Any], rng=None) -> "RealIR":
        self = cls(rng)
        ost, bst, rst, vst = seq(ir["ost"]), seq(ir["bst"]), seq(ir["rst"]), seq(ir["vst"])
        if any(x == "dead" for x in ost + bst + rst + vst):
            raise ValueError("cannot build a state with dead objects")
        nops, nblk, nreg, nval = (sum(1 for x in l if x == "live") for l in (ost, bst, rst, vst))
        ores, oreg, oopn, osuc = (list(map(seq, seq(ir[k]))) for k in ("ores", "oreg", "oopn", "osuc"))
        barg, bops, rblk = (list(map(seq, seq(ir[k]))) for k in ("barg", "bops", "rblk"))
        regions = [Region() for _ in range(nreg)]
        in_op = {r for o in range(nops) for r in oreg[o]}
        ops = []
        for o in range(nops):
            ops.append(test.TestOp(result_types=[i32] * len(ores[o]), regions=[regions[r - 1] for r in oreg[o]]))
        blocks = [Block(arg_types=[i32] * len(barg[b])) for b in range(nblk)]
        # register with the model's ids
        u = self.u
        vals: list[Any] = [None] * nval
        for o in range(nops):
            for k, v in enumerate(ores[o]):
                vals[v - 1] = ops[o].results[k]
        for b in range(nblk):
            for k, v in enumerate(barg[b]):
                vals[v - 1] = blocks[b].args[k]
        assert all(v is not None for v in vals)
        u.ops, u.blocks, u.regions, u.vals = ops, blocks, regions, vals
        u._op_id = {id(x): i + 1 for i, x in enumerate(ops)}
        u._blk_id = {id(x): i + 1 for i, x in enumerate(blocks)}
        u._reg_id = {id(x): i + 1 for i, x in enumerate(regions)}
        u._val_id = {id(x): i + 1 for i, x in enumerate(vals)}
        for r in range(nreg):
            for b in rblk[r]:
                regions[r].add_block(blocks[b - 1])
        for b in range(nblk):
            for o in bops[b]:
                blocks[b].add_op(ops[o - 1])
        for o in range(nops):
            ops[o].operands = [vals[v - 1] for v in oopn[o]]
            ops[o].successors = [blocks[b - 1] for b in osuc[o]]
        return self

    # ------------------------------------------------------------------ model actions through the real API
    def apply(self, act: str, a: list[Any]) -> None:
        u = self.u
        O, B, R, V = self.O, self.B, self.R, self.V
        if act == "CreateOp":
            opn, nres, nreg = seq(a[0]), a[1], a[2]
            op = test.TestOp(operands=[V(v) for v in opn], result_types=[i32] * nres, regions=[Region() for _ in range(nreg)])
            u.op(op)
            for r in op.regions:
                u.region(r)
        elif act == "CreateBlock":
            u.block(Block(arg_types=[i32] * a[0]))
        elif act == "CreateRegion":
            u.region(Region())
        elif act == "AddOp":
            b, o = B(a[0]), O(a[1])
            k = self.pick(3)
            if k == 0:
                b.add_op(o)
            elif k == 1:
                b.add_ops([o])
            else:
                Rewriter.insert_op(o, InsertPoint.at_end(b))
        elif act == "InsertOpBefore":
            o, e = O(a[0]), O(a[1])
            k = self.pick(4)
            if k == 0:
                e.parent.insert_op_before(o, e)
            elif k == 1:
                e.parent.insert_ops_before([o], e)
            elif k == 2:
                Rewriter.insert_op(o, InsertPoint.before(e))
            else:
                PatternRewriter(e).insert(o, InsertPoint.before(e))
        elif act == "InsertOpAfter":
            o, e = O(a[0]), O(a[1])
            k = self.pick(4)
            if k == 0:
                e.parent.insert_op_after(o, e)
            elif k == 1:
                e.parent.insert_ops_after([o], e)
            elif k == 2:
                Rewriter.insert_op(o, InsertPoint.after(e))
            else:
                PatternRewriter(e).insert(o, InsertPoint.after(e))
        elif act == "DetachOp":
            o = O(a[0])
            if self.pick(2):
                o.detach()
            else:
                o.parent.detach_op(o)
        elif act == "EraseOp":
            o = O(a[0])
            u.mark_dead_tree(o)
            k = self.pick(3)
            if k == 0:
                o.parent.erase_op(o)
            elif k == 1:
                Rewriter.erase_op(o)
            else:
                PatternRewriter(o).erase(o)
        elif act == "EraseDetachedOp":
            o = O(a[0])
            u.mark_dead_tree(o)
            if self.pick(2):
                o.erase()
            else:
                Rewriter.erase_op(o)
        elif act == "SplitBefore":
            o = O(a[0])
            u.block(o.parent.split_before(o))
        elif act == "AddBlock":
            r, b = R(a[0]), B(a[1])
            k = self.pick(3)
            if k == 0:
                r.add_block(b)
            elif k == 1:
                r.add_block([b])
            else:
                Rewriter.insert_block(b, BlockInsertPoint.at_end(r))
        elif act == "InsertBlockBefore":
            b, t = B(a[0]), B(a[1])
            k = self.pick(3)
            if k == 0:
                t.parent.insert_block_before(b, t)
            elif k == 1:
                t.parent.insert_block(b, t.parent.get_block_index(t))
            else:
                Rewriter.insert_block(b, BlockInsertPoint.before(t))
        elif act == "InsertBlockAfter":
            b, t = B(a[0]), B(a[1])
            k = self.pick(3)
            if k == 0:
                t.parent.insert_block_after(b, t)
            elif k == 1:
                t.parent.insert_block(b, t.parent.get_block_index(t) + 1)
            else:
                Rewriter.insert_block(b, BlockInsertPoint.after(t))
        elif act == "DetachBlock":
            b = B(a[0])
            if self.pick(2):
                b.parent.detach_block(b)
            else:
                b.parent.detach_block(b.parent.get_block_index(b))
        elif act == "EraseBlock":
            b = B(a[0])
            u.mark_dead_block(b)
            b.parent.erase_block(b)
        elif act == "MoveBlocks":
            r, d = R(a[0]), R(a[1])
            if self.pick(2):
                r.move_blocks(d)
            else:
                Rewriter.inline_region(r, BlockInsertPoint.at_end(d))
        elif act == "MoveBlocksBefore":
            r, t = R(a[0]), B(a[1])
            if self.pick(2):
                r.move_blocks_before(t)
            else:
                Rewriter.inline_region(r, BlockInsertPoint.before(t))
        elif act == "AddRegion":
            O(a[0]).add_region(R(a[1]))
        elif act == "DetachRegion":
            r = R(a[0])
            if self.pick(2):
                r.parent.detach_region(r)
            else:
                r.parent.detach_region(r.parent.get_region_index(r))
        elif act == "SetOperand":
            O(a[0]).operands[a[1] - 1] = V(a[2])
        elif act == "SetOperands":
            O(a[0]).operands = [V(v) for v in seq(a[1])]
        elif act == "SetSuccessors":
            O(a[0]).successors = [B(b) for b in seq(a[1])]
        elif act == "RAUW":
            v, w = V(a[0]), V(a[1])
            k = self.pick(3)
            if k == 0:
                v.replace_all_uses_with(w)
            elif k == 1:
                v.replace_uses_with_if(w, lambda use: True)
            else:
                PatternRewriter(_anchor()).replace_all_uses_with(v, w)
        elif act == "InsertArg":
            b = B(a[0])
            if self.pick(2):
                u.val(b.insert_arg(i32, a[1] - 1))
            else:
                u.val(PatternRewriter(_anchor()).insert_block_argument(b, a[1] - 1, i32))
        elif act == "EraseArg":
            b = B(a[0])
            arg = b.args[a[1] - 1]
            u.dead_vals.add(u.val(arg))
            if self.pick(2):
                b.erase_arg(arg)
            else:
                PatternRewriter(_anchor()).erase_block_argument(arg)
        elif act == "ReplaceOp":
            o, n = O(a[0]), O(a[1])
            u.mark_dead_tree(o)
            if self.pick(2):
                Rewriter.replace_op(o, n)
            else:
                PatternRewriter(o).replace(o, n)
        elif act == "InlineBlockBefore":
            b, e = B(a[0]), O(a[1])
            u.dead_blocks.add(u.block(b))
            for arg in b.args:
                u.dead_vals.add(u.val(arg))
            if self.pick(2):
                Rewriter.inline_block(b, InsertPoint.before(e))
            else:
                PatternRewriter(e).inline_block(b, InsertPoint.before(e))
        elif act == "InlineBlockAtEnd":
            b, d = B(a[0]), B(a[1])
            u.dead_blocks.add(u.block(b))
            for arg in b.args:
                u.dead_vals.add(u.val(arg))
            Rewriter.inline_block(b, InsertPoint.at_end(d))
        else:
            raise KeyError(act)

    # ------------------------------------------------------------------ comparison with an abstract state
    def diff(self, ir: dict[str, Any], chk: dict[str, Any]) -> str | None:
        """First difference between the abstract state and the (forward part of the) projection."""
        st = {"free": None, "live": 1, "dead": 0}
        ost, bst, rst, vst = seq(ir["ost"]), seq(ir["bst"]), seq(ir["rst"]), seq(ir["vst"])
        for name, sts, objs in (("op", ost, chk["ops"]), ("block", bst, chk["blocks"]), ("region", rst, chk["regions"]), ("value", vst, chk["vals"])):
            known = [s for s in sts if s != "free"]
            if len(known) != len(objs):
                return f"{name} count: model {len(known)} vs impl {len(objs)}"
            for i, (s, o) in enumerate(zip(known, objs), 1):
                if st[s] != o["alive"]:
                    return f"{name} {i}: model {s} vs impl alive={o['alive']}"
        for i, o in enumerate(chk["ops"], 1):
            if not o["alive"]:
                continue
            for mk, ck in (("opar", "parent"),):
                if seq(ir[mk])[i - 1] != o[ck]:
                    return f"op {i} {ck}: model {seq(ir[mk])[i-1]} vs impl {o[ck]}"
            for mk, ck in (("oopn", "operands"), ("osuc", "succs"), ("ores", "results"), ("oreg", "regions")):
                if seq(seq(ir[mk])[i - 1]) != o[ck]:
                    return f"op {i} {ck}: model {seq(seq(ir[mk])[i-1])} vs impl {o[ck]}"
        for i, b in enumerate(chk["blocks"], 1):
            if not b["alive"]:
                continue
            if seq(ir["bpar"])[i - 1] != b["parent"]:
                return f"block {i} parent: model {seq(ir['bpar'])[i-1]} vs impl {b['parent']}"
            if seq(seq(ir["bops"])[i - 1]) != b["fwd"]:
                return f"block {i} ops: model {seq(seq(ir['bops'])[i-1])} vs impl {b['fwd']}"
            if seq(seq(ir["barg"])[i - 1]) != b["args"]:
                return f"block {i} args: model {seq(seq(ir['barg'])[i-1])} vs impl {b['args']}"
        for i, r in enumerate(chk["regions"], 1):
            if not r["alive"]:
                continue
            if seq(ir["rpar"])[i - 1] != r["parent"]:
                return f"region {i} parent: model {seq(ir['rpar'])[i-1]} vs impl {r['parent']}"
            if seq(seq(ir["rblk"])[i - 1]) != r["fwd"]:
                return f"region {i} blocks: model {seq(seq(ir['rblk'])[i-1])} vs impl {r['fwd']}"
        return None
