"""Thin wrapper around TLC: run a spec, parse counters, coverage, PrintT records, error traces."""

from __future__ import annotations

import os
import re
import shutil
import subprocess
import tempfile
import time
from dataclasses import dataclass, field
from pathlib import Path
from typing import Any

from . import tlaval

VERIF = Path(__file__).resolve().parent.parent
SPEC = VERIF / "spec"
JAR = "/opt/veriftools/tla/tla2tools.jar"
DEPS = "/opt/veriftools/tla/CommunityModules-deps.jar"


class TLCMachineryError(Exception):
    """TLC crashed / could not parse / timed out: never a verdict."""


def spec_library() -> str:
    dirs = [str(SPEC)] + [str(p) for p in sorted(SPEC.iterdir()) if p.is_dir()]
    return os.pathsep.join(dirs)


@dataclass
class TLCResult:
    returncode: int
    out: str
    wall_s: float
    generated: int = 0
    distinct: int = 0
    depth: int = 0
    ok: bool = False  # finished with "No error has been found"
    violated: str | None = None  # name of violated invariant / property
    error_lines: list[str] = field(default_factory=list)
    trace: list[tuple[str, dict[str, Any]]] = field(default_factory=list)  # (action label, state)
    coverage: dict[str, tuple[int, int]] = field(default_factory=dict)  # action -> (distinct, total)
    records: list[Any] = field(default_factory=list)  # parsed <<"VERIF", ...>> PrintT records
    cmd: str = ""

    @property
    def transitions(self) -> int:
        return max(self.generated, 1)


_RE_STATES = re.compile(r"(\d+) states generated, (\d+) distinct states found")
_RE_DEPTH = re.compile(r"The depth of the complete state graph search is (\d+)")
_RE_INV = re.compile(r"Error: Invariant (\S+) is violated")
_RE_PROP = re.compile(r"Error: (?:Action|Temporal) propert(?:y|ies) (?:\(.*?\) )?(?:of line .*? )?(\S+)? ?(?:is|were) violated")
_RE_COV = re.compile(r"^<(\w+) line (\d+), col (\d+) to line (\d+), col (\d+) of module (\w+)(?: \([\d ]+\))?>: (\d+):(\d+)", re.M)
_RE_STATE_HDR = re.compile(r"^State (\d+): <(.*?)>\s*$", re.M)


def extract_records(out: str, marker: str = '<<"VERIF"') -> list[Any]:  # noqa: C901
    """Find every PrintT record that starts with the marker (bracket matching: 16 workers interleave lines)."""
    recs = []
    # single-line form: PrintT(ToString(<<"VERIF", ...>>)) prints a quoted, escaped string per line
    esc = '"<<\\"VERIF\\"'
    if esc in out:
        for ln in out.splitlines():
            if ln.startswith(esc):
                body = ln.strip()[1:-1].replace('\\"', '"').replace("\\\\", "\\")
                try:
                    recs.append(tlaval.parse(body))
                except tlaval.TLAParseError:
                    pass
    i = 0
    while True:
        j = out.find(marker, i)
        if j < 0:
            break
        try:
            v, end = tlaval.parse_prefix(out, j)
            recs.append(v)
            i = end
        except (tlaval.TLAParseError, IndexError):
            i = j + len(marker)
    return recs


def parse_state(text: str) -> dict[str, Any]:
    """Parse a TLC state printout  `/\\ x = v\\n/\\ y = w`  into a dict."""
    st: dict[str, Any] = {}
    # split on lines starting with "/\ "
    parts = re.split(r"^/\\ ", text.strip(), flags=re.M)
    for p in parts:
        p = p.strip()
        if not p:
            continue
        m = re.match(r"(\w+) = ", p)
        if not m:
            # single-variable states are printed as `x = v`
            continue
        st[m.group(1)] = tlaval.parse(p[m.end():].strip())
    if not st:
        m = re.match(r"(\w+) = ", text.strip())
        if m:
            st[m.group(1)] = tlaval.parse(text.strip()[m.end():].strip())
    return st


def parse_output(out: str, rc: int, wall: float, cmd: str = "") -> TLCResult:
    r = TLCResult(returncode=rc, out=out, wall_s=wall, cmd=cmd)
    ms = _RE_STATES.findall(out)
    if ms:
        r.generated, r.distinct = int(ms[-1][0]), int(ms[-1][1])
    md = _RE_DEPTH.search(out)
    if md:
        r.depth = int(md.group(1))
    r.ok = "No error has been found" in out or (
        "Finished in" in out and "Error:" not in out and rc == 0
    )
    mi = _RE_INV.search(out)
    if mi:
        r.violated = mi.group(1)
    elif "is violated" in out or "was violated" in out:
        m = re.search(r"Error: (.*violated.*)", out)
        r.violated = m.group(1) if m else "property"
    r.error_lines = [ln for ln in out.splitlines() if ln.startswith("Error:")]
    for m in _RE_COV.finditer(out):
        name = m.group(1)
        d, t = int(m.group(7)), int(m.group(8))
        if name in r.coverage:
            pd, pt = r.coverage[name]
            r.coverage[name] = (pd + d, pt + t)
        else:
            r.coverage[name] = (d, t)
    # error trace
    hdrs = list(_RE_STATE_HDR.finditer(out))
    for k, h in enumerate(hdrs):
        end = hdrs[k + 1].start() if k + 1 < len(hdrs) else len(out)
        body = out[h.end():end]
        # cut at first blank line
        body = body.split("\n\n")[0]
        try:
            r.trace.append((h.group(2), parse_state(body)))
        except Exception:
            r.trace.append((h.group(2), {"_raw": body}))
    r.records = extract_records(out)
    return r


def run(
    module: str | Path,
    cfg: str | Path | None = None,
    *,
    cfg_text: str | None = None,
    workers: int | str = 16,
    env: dict[str, str] | None = None,
    args: list[str] | None = None,
    timeout: float = 1800,
    coverage: bool = False,
    deadlock: bool = False,
    xss: str = "64m",
    xmx: str | None = None,
    dfs: bool = False,
    check: bool = True,
    module_text: str | None = None,
) -> TLCResult:
    """Run TLC on `module` (path to .tla) with the given cfg. Raises TLCMachineryError on crash/parse errors."""
    module = Path(module)
    if not module.is_absolute():
        module = SPEC / module
    tmp = Path(tempfile.mkdtemp(prefix="verif-tlc-"))
    try:
        if module_text is not None:
            # a generated wrapper module (e.g. constants that a cfg cannot express); it EXTENDS modules of spec/
            module = tmp / module.name
            module.write_text(module_text)
        if cfg_text is not None:
            cfgp = tmp / (module.stem + ".cfg")
            cfgp.write_text(cfg_text)
        elif cfg is not None:
            cfgp = Path(cfg)
            if not cfgp.is_absolute():
                cfgp = module.parent / cfgp
        else:
            cfgp = module.with_suffix(".cfg")
        jopts = ["-XX:+UseParallelGC", f"-Xss{xss}", f"-DTLA-Library={spec_library()}"]
        if xmx:
            jopts.append(f"-Xmx{xmx}")
        if dfs:
            jopts.append("-Dtlc2.tool.queue.IStateQueue=StateDeque")
        cmd = ["java", *jopts, "-cp", f"{JAR}:{DEPS}", "tlc2.TLC",
               "-metadir", str(tmp / "meta"), "-noGenerateSpecTE",
               "-workers", str(workers), "-config", str(cfgp)]
        if not deadlock:
            cmd.append("-deadlock")  # -deadlock DISABLES deadlock checking
        if coverage:
            cmd += ["-coverage", "1"]
        if args:
            cmd += args
        cmd.append(str(module))
        e = dict(os.environ)
        e.pop("JAVA_TOOL_OPTIONS", None)
        if env:
            e.update(env)
        t0 = time.time()
        try:
            p = subprocess.run(cmd, cwd=str(module.parent), env=e, capture_output=True, text=True, timeout=timeout)
        except subprocess.TimeoutExpired as ex:
            raise TLCMachineryError(f"TLC timeout after {timeout}s: {' '.join(cmd)}") from ex
        wall = time.time() - t0
        out = p.stdout + ("\n" + p.stderr if p.stderr.strip() else "")
        res = parse_output(out, p.returncode, wall, " ".join(cmd[cmd.index("tlc2.TLC"):]))
        if check:
            fatal = None
            if res.violated is None and not res.ok:
                fatal = "TLC did not finish cleanly"
            for pat in ("StackOverflowError", "OutOfMemoryError", "Parsing or semantic analysis failed",
                        "***Parse Error***", "TLC threw an unexpected exception", "was thrown",
                        "Error: Evaluating", "The exception was", "Error: TLC", "Error: In evaluation",
                        "Error: The first argument", "Error: Attempted to"):
                if pat in out:
                    fatal = f"TLC error: {pat}"
                    break
            if fatal:
                tail = "\n".join(out.splitlines()[-60:])
                raise TLCMachineryError(f"{fatal}\n{' '.join(cmd)}\n{tail}")
        return res
    finally:
        shutil.rmtree(tmp, ignore_errors=True)


def parse_sim_file(path: str | Path) -> list[tuple[str, dict[str, Any]]]:
    """Parse a `-simulate file=...` behaviour file: list of (action label, state)."""
    text = Path(path).read_text()
    out: list[tuple[str, dict[str, Any]]] = []
    # format:  \* <Action line ...>\nSTATE_1 == \n/\ x = ...\n\n
    chunks = re.split(r"^STATE_\d+ ==\s*$", text, flags=re.M)
    labels = re.findall(r"^\\\* (.*)$", text, flags=re.M)
    bodies = chunks[1:]
    for k, b in enumerate(bodies):
        b = b.split("\\*")[0]
        b = re.split(r"^={4,}", b, flags=re.M)[0]
        lab = labels[k] if k < len(labels) else ""
        out.append((lab, parse_state(b)))
    return out


def parse_dot(path: str | Path) -> tuple[dict[str, dict[str, Any]], list[tuple[str, str, str]], list[str]]:
    """Parse `-dump dot,actionlabels`: (states by id, edges (src, dst, label), initial ids)."""
    states: dict[str, dict[str, Any]] = {}
    edges: list[tuple[str, str, str]] = []
    inits: list[str] = []
    node_re = re.compile(r'^(-?\d+) \[label="((?:[^"\\]|\\.)*)"(,style = filled)?')
    edge_re = re.compile(r'^(-?\d+) -> (-?\d+) \[label="((?:[^"\\]|\\.)*)"')
    for ln in Path(path).read_text().splitlines():
        m = edge_re.match(ln)
        if m:
            edges.append((m.group(1), m.group(2), m.group(3)))
            continue
        m = node_re.match(ln)
        if m:
            lab = m.group(2).replace("\\n", "\n").replace('\\"', '"').replace("\\\\", "\\")
            states[m.group(1)] = parse_state(lab)
            if m.group(3):
                inits.append(m.group(1))
    return states, edges, inits
