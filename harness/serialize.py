"""xDSL func/arith/cf/scf modules -> the program format of spec/sem/Machine.tla, and value conversions."""

from __future__ import annotations

from typing import Any


class Unsupported(Exception):
    pass


def width_of(t) -> int:
    from xdsl.dialects.builtin import IndexType, IntegerType

    if isinstance(t, IntegerType):
        return t.width.data
    if isinstance(t, IndexType):
        return 64
    raise Unsupported(f"type {t}")


def limbs(v: int, w: int) -> list[int]:
    v &= (1 << w) - 1
    return [(v >> (8 * i)) & 255 for i in range((w + 7) // 8)]


def from_limbs(l: list[int] | tuple) -> int:
    return sum(int(x) << (8 * i) for i, x in enumerate(l))


ARITH_BIN = {"arith.addi", "arith.subi", "arith.muli", "arith.andi", "arith.ori", "arith.xori", "arith.divui", "arith.remui", "arith.ceildivui",
             "arith.divsi", "arith.remsi", "arith.floordivsi", "arith.ceildivsi", "arith.shli", "arith.shrui", "arith.shrsi", "arith.minsi",
             "arith.maxsi", "arith.minui", "arith.maxui", "arith.addui_extended", "arith.mului_extended", "arith.mulsi_extended"}
ARITH_CAST = {"arith.extui", "arith.extsi", "arith.trunci", "arith.index_cast", "arith.index_castui"}
EFFECT_OPS = {"test.op", "test.op_with_memwrite", "test.op_with_memread", "printf.print_format", "memref.store"}


def serialize_module(module, entry: str | None = None) -> dict[str, Any]:
    """Program for Machine.tla; the entry function (default: first func.func) becomes function 1."""
    from xdsl.dialects import func

    funcs = [o for o in module.body.block.ops if isinstance(o, func.FuncOp)]
    if not funcs:
        raise Unsupported("no function")
    if entry is not None:
        funcs.sort(key=lambda f: 0 if f.sym_name.data == entry else 1)
    findex = {f.sym_name.data: i + 1 for i, f in enumerate(funcs) if not f.is_declaration}
    out = []
    for f in funcs:
        if f.is_declaration:
            out.append({"args": [], "blocks": [{"args": [], "ops": []}], "nvals": 1, "decl": 1})
            continue
        out.append(serialize_func(f, findex))
    return {"funcs": out}


def serialize_func(f, findex: dict[str, int]) -> dict[str, Any]:
    from xdsl.dialects import arith, cf, func, scf
    from xdsl.dialects.builtin import IntegerAttr

    vid: dict[int, int] = {}
    bid: dict[int, int] = {}
    blocks: list[Any] = []
    keep_alive: list[Any] = []     # synthetic value keys (ids must stay unique while the function is serialised)

    def V(v) -> int:
        k = vid.get(id(v))
        if k is None:
            k = vid[id(v)] = len(vid) + 1
        return k

    def number_blocks(region):
        for b in region.blocks:
            bid[id(b)] = len(blocks) + 1
            blocks.append(b)
            for a in b.args:
                V(a)
            for o in b.ops:
                for r in o.regions:
                    number_blocks(r)

    number_blocks(f.body)

    def base(o, **kw):
        d = {"op": o.name, "a": [V(x) for x in o.operands], "r": [V(x) for x in o.results], "w": 0, "sw": 0, "p": 0, "k": [], "succ": [],
             "regs": [], "callee": 0, "name": ""}
        d.update(kw)
        return d

    def ser_op(o) -> dict[str, Any]:
        n = o.name
        if n == "arith.constant":
            if not isinstance(o.value, IntegerAttr):
                raise Unsupported("non-integer constant")
            w = width_of(o.result.type)
            return base(o, w=w, k=limbs(o.value.value.data, w))
        if n in ARITH_BIN:
            w = width_of(o.results[0].type)
            return base(o, w=w, sw=width_of(o.operands[0].type))
        if n == "arith.cmpi":
            return base(o, w=1, sw=width_of(o.operands[0].type), p=o.predicate.value.data)
        if n == "arith.select":
            return base(o, w=width_of(o.results[0].type), sw=1)
        if n in ARITH_CAST:
            return base(o, w=width_of(o.results[0].type), sw=width_of(o.operands[0].type))
        if n == "cf.br":
            return base(o, a=[], succ=[{"b": bid[id(o.successor)], "args": [V(x) for x in o.arguments]}])
        if n == "cf.cond_br":
            return base(o, a=[V(o.cond)], succ=[{"b": bid[id(o.then_block)], "args": [V(x) for x in o.then_arguments]},
                                                {"b": bid[id(o.else_block)], "args": [V(x) for x in o.else_arguments]}])
        if n == "func.return":
            for x in o.operands:
                width_of(x.type)
            return base(o)
        if n == "func.call":
            name = o.callee.root_reference.data
            for x in list(o.operands) + list(o.results):
                width_of(x.type)
            return base(o, callee=findex.get(name, 0), name=name, w=width_of(o.results[0].type) if o.results else 0)
        if n == "scf.if":
            regs = [bid[id(o.true_region.blocks[0])]]
            if o.false_region.blocks:
                regs.append(bid[id(o.false_region.blocks[0])])
            for x in o.results:
                width_of(x.type)
            return base(o, regs=regs)
        if n == "scf.for":
            return base(o, regs=[bid[id(o.body.blocks[0])]], sw=width_of(o.lb.type))
        if n == "scf.while":
            return base(o, regs=[bid[id(o.before_region.blocks[0])], bid[id(o.after_region.blocks[0])]])
        if n in ("scf.yield", "scf.condition"):
            return base(o)
        if n == "affine.apply":
            amap = o.map.data
            if len(amap.results) != 1:
                raise Unsupported("affine.apply with several results")
            return base(o, w=64, p=amap.num_dims, k=affine_tree(amap.results[0]))
        if n == "affine.yield":
            return base(o, op="scf.yield")
        if n == "affine.for":
            # the loop of the affine dialect with constant single-result bound maps = scf.for over those constants
            from xdsl.ir.affine import AffineConstantExpr

            lbm, ubm = o.lowerBoundMap.data, o.upperBoundMap.data
            if len(lbm.results) != 1 or len(ubm.results) != 1 or not isinstance(lbm.results[0], AffineConstantExpr) or not isinstance(ubm.results[0], AffineConstantExpr) \
                    or o.lowerBoundOperands or o.upperBoundOperands:
                raise Unsupported("affine.for with non-constant bounds")
            cs = []
            vids = []
            for c in (lbm.results[0].value, ubm.results[0].value, o.step.value.data):
                key = object()
                keep_alive.append(key)
                v = V(key)
                vids.append(v)
                cs.append({"op": "arith.constant", "a": [], "r": [v], "w": 64, "sw": 64, "p": 0, "k": limbs(c, 64), "succ": [], "regs": [], "callee": 0, "name": ""})
            return cs + [base(o, op="scf.for", a=vids + [V(x) for x in o.inits], regs=[bid[id(o.body.blocks[0])]], sw=64)]
        if n in EFFECT_OPS and not o.results and not o.regions:
            for x in o.operands:
                width_of(x.type)
            return base(o, op="effect", name=n)
        raise Unsupported(n)

    def ser_block(b):
        out = []
        for o in b.ops:
            r = ser_op(o)
            out.extend(r if isinstance(r, list) else [r])
        return out

    ser_blocks = [{"args": [V(a) for a in b.args], "ops": ser_block(b)} for b in blocks]
    return {"args": [V(a) for a in f.body.blocks[0].args], "blocks": ser_blocks, "nvals": max(1, len(vid))}


def affine_tree(e) -> dict[str, Any]:
    """AffineExpr -> the tree AffEval of Machine.tla evaluates."""
    from xdsl.ir.affine import AffineBinaryOpExpr, AffineBinaryOpKind, AffineConstantExpr, AffineDimExpr, AffineSymExpr

    leaf = {"kind": "const", "v": limbs(0, 64), "l": {}, "r": {}}
    if isinstance(e, AffineConstantExpr):
        return dict(leaf, v=limbs(e.value, 64))
    if isinstance(e, AffineDimExpr):
        return dict(leaf, kind="dim", v=e.position + 1)
    if isinstance(e, AffineSymExpr):
        return dict(leaf, kind="sym", v=e.position + 1)
    if isinstance(e, AffineBinaryOpExpr):
        kind = {AffineBinaryOpKind.Add: "add", AffineBinaryOpKind.Mul: "mul", AffineBinaryOpKind.Mod: "mod", AffineBinaryOpKind.FloorDiv: "floordiv",
                AffineBinaryOpKind.CeilDiv: "ceildiv"}[e.kind]
        return {"kind": kind, "v": 0, "l": affine_tree(e.lhs), "r": affine_tree(e.rhs)}
    raise Unsupported(f"affine expression {e}")


def arg_widths(func_op) -> list[int]:
    return [width_of(a.type) for a in func_op.body.blocks[0].args]


def boundary_values(w: int) -> list[int]:
    m = (1 << w) - 1
    vals = {0, 1, 2, 3, m, m - 1, 1 << (w - 1), (1 << (w - 1)) - 1, (1 << (w - 1)) + 1, m // 3, (m // 3) * 2, 7 & m, 100 & m}
    return sorted(v & m for v in vals)


def input_tuples(widths: list[int], rng, cap: int) -> list[list[list[int]]]:
    """Exhaustive when the product of domains is small, boundary x random otherwise."""
    import itertools

    doms = []
    for w in widths:
        doms.append(list(range(1 << w)) if w <= 4 else boundary_values(w))
    total = 1
    for d in doms:
        total *= len(d)
    if total <= cap:
        tuples = list(itertools.product(*doms))
    else:
        tuples = [tuple(rng.choice(d) if rng.random() < 0.8 else rng.randrange(1 << w) for d, w in zip(doms, widths)) for _ in range(cap)]
    return [[limbs(v, w) for v, w in zip(t, widths)] for t in tuples]
