#!/bin/sh
# usage: harness/seedtest2.sh <seed dir or patch> <PROP> [tier]  -- run a check against a scratch worktree of /repo with
# the seeded patch applied (VERIF_REPO), leaving /repo and the committed evidence untouched.
P="$1"; ID="$2"; TIER="${3:-quick}"
[ -d "$P" ] && P="$P/patch.diff"
N=$(echo "$P" | tr '/' '_')
WT=/tmp/wt/$N; mkdir -p /tmp/wt /tmp/wt-ev/$N; rm -rf "$WT"
git -C /repo worktree add -q --detach "$WT" HEAD || exit 2
(cd "$WT" && (git apply --3way "$P" 2>/dev/null || git apply "$P")) || { echo "patch does not apply"; git -C /repo worktree remove --force "$WT"; exit 2; }
cd /verif && VERIF_REPO="$WT" VERIF_EVIDENCE_DIR=/tmp/wt-ev/$N timeout 2400 ./check "$ID" --tier "$TIER" 2>/dev/null | grep -v "^  \.\.\.\|^KNOWN" | cut -c1-400 | head -6
git -C /repo worktree remove --force "$WT"
rm -rf /tmp/wt-ev/$N
