"""Sharded 'TLC as judge' runs: cases (JSON) recorded from the implementation are evaluated by a
*Cases.tla module which prints <<"VERIF","mismatch", index, clause, ...>> for every failing case."""

from __future__ import annotations

import json
import tempfile
from concurrent.futures import ThreadPoolExecutor
from pathlib import Path
from typing import Any

from . import tlc


class CaseResult:
    def __init__(self):
        self.mismatches: list[tuple[int, Any]] = []  # (global case index, record tail)
        self.states = 0
        self.generated = 0
        self.wall = 0.0
        self.shards = 0


def run_cases(module: str, cases: list[Any], *, shards: int = 16, env_name: str = "CASE_FILE",
              extra_env: dict[str, str] | None = None, cfg_text: str | None = None,
              timeout: float = 3600, min_per_shard: int = 50, xmx: str | None = "3g", count_ends=None,
              max_per_shard: int | None = None) -> CaseResult:
    """count_ends: for judges without a single end state (MachineCases): function case -> number of "end" records expected."""
    res = CaseResult()
    if not cases:
        return res
    k = max(1, min(shards, len(cases) // min_per_shard or 1))
    if max_per_shard and len(cases) > k * max_per_shard:
        k = -(-len(cases) // max_per_shard)      # more shards than JVMs at a time: a shard's JSON must stay loadable
    bounds = [(len(cases) * j // k, len(cases) * (j + 1) // k) for j in range(k)]
    with tempfile.TemporaryDirectory(prefix="verif-cases-") as tmp:
        files = []
        for j, (a, b) in enumerate(bounds):
            f = Path(tmp) / f"cases{j}.json"
            f.write_text(json.dumps(cases[a:b]))
            files.append(f)

        def one(j: int):
            env = {env_name: str(files[j])}
            if extra_env:
                env.update(extra_env)
            return tlc.run(module, workers=1, env=env, cfg_text=cfg_text, timeout=timeout, xmx=xmx)

        with ThreadPoolExecutor(max_workers=min(k, shards)) as ex:
            outs = list(ex.map(one, range(k)))
    for j, r in enumerate(outs):
        a, b = bounds[j]
        if r.violated:
            raise tlc.TLCMachineryError(f"{module}: judge violated {r.violated}\n" + "\n".join(r.out.splitlines()[-30:]))
        if count_ends is not None:
            want = sum(count_ends(c) for c in cases[a:b])
            got = len({(x[2], x[3]) for x in r.records if len(x) > 3 and x[1] == "end"})
            done = [("VERIF", "done", b - a)] if got == want else [("VERIF", "ends", got, want)]
            res.ends = getattr(res, "ends", []) + [(a + x[2] - 1, x[3], x[4], x[5]) for x in r.records if len(x) > 5 and x[1] == "end"]
        else:
            done = [x for x in r.records if len(x) > 2 and x[1] == "done"]
        if not done or done[0][2] != b - a:
            raise tlc.TLCMachineryError(f"{module}: shard {j} judged {done} of {b-a} cases\n" + "\n".join(r.out.splitlines()[-30:]))
        seen = set()
        for rec in r.records:
            if rec[1] == "mismatch":
                key = (rec[2], repr(rec[3:]))
                if key in seen:
                    continue
                seen.add(key)
                res.mismatches.append((a + rec[2] - 1, rec[3:]))
        res.states += r.distinct
        res.generated += r.generated
        res.wall = max(res.wall, r.wall_s)
    res.shards = k
    res.mismatches.sort(key=lambda m: m[0])
    return res
