"""Regenerates MANIFEST.json from the table below (python -m harness.manifest_gen)."""
import json
from pathlib import Path

VERIF = Path(__file__).resolve().parent.parent

CHECKS = {
    "C12": dict(
        category="model_checking", design_ref="DESIGN.md §3.2, §4 C12",
        technique="TLA+ refinement (impl-shaped -> abstract) model-checked by TLC; transition-cover replay into the real objects; TLC trace validation of recorded call logs",
        text="TLC exhaustively checks that the implementation-shaped models of Worklist (tombstoned stack + index map) and IntDisjointSet (parent forest, path compression, union by size) refine the abstract LIFO-set / partition models including every return value, and checks the ScopedDict model's lookup consistency; every edge of those state graphs is replayed on the real objects and every return value compared with the model; long seeded histories over 12 keys are validated by the trace specs.",
        note="Trusted: the abstract TLA+ models state the property; TLC; the adapters that map calls and return values (harness/drivers/c12.py). Bounds: 3 items / 4+1 elements / 3 scopes x 2 keys x 3 values, depth 5-9; random histories beyond."),
    "C24": dict(
        category="model_checking", design_ref="DESIGN.md §3.5, §4 C24",
        technique="TLA+ graph definitions (reachability, dominance as 'unreachable once a is removed', checked against simple-path enumeration) + both algorithms as TLC state machines from every small graph; real DominanceInfo/PostOrderIterator results on all graphs judged by TLC",
        text="TLC starts the transcribed dominator fixpoint and post-order iterator from every graph with 3 (thorough: 4) blocks and out-degree <=2 and checks them against the declarative definitions; the real code is run on every graph with <=3 blocks (thorough: <=4, 194k graphs) plus seeded random graphs up to 9 blocks, and TLC judges each recorded dominance relation and iteration order against CFG.tla.",
        note="Trusted: CFG.tla's definitions (cross-checked by TLC against literal simple-path enumeration), the region builder (test.termop terminators). Graphs beyond 4 blocks are sampled, not enumerated."),
    "C20": dict(
        category="model_checking", design_ref="DESIGN.md §3.7, §4 C20",
        technique="TLA+ symbolic register-file semantics (XOR algebra, NaN-boxing fmv.s, hard-wired zero) + simultaneous-assignment requirement; sequences emitted by the real pass for every small move graph executed and judged by TLC",
        text="Every move graph over 4 (thorough: 5) integer registers incl. zero as source, every graph over 3 (thorough: 4) float registers x both widths, each with every small free-register set, plus seeded mixed graphs (shuffled operand order, zero destinations, distinct SSA values per use) is lowered by the real riscv-lower-parallel-mov; TLC executes the emitted mv/fmv/xor sequence on a symbolic register file and checks that every destination holds its source's old value and no other register changed. Exhaustive for the stated bound.",
        note="Trusted: the instruction semantics in ParallelMov.tla; the extraction of the emitted ops. Four genuine defects of the unchanged tree are listed as open findings (keyed by root-cause class + registers TLC found wrong); a pass failure/crash is recorded as divergence, not violation."),
    "C01": dict(
        category="model_checking", design_ref="DESIGN.md §3.3, §4 C01",
        technique="TLA+ abstract IR object graph (one pure operator per public mutator) explored by TLC breadth-first and by simulation; every explored history replayed on real objects; TLC evaluates the C01 predicate on pointer-walk projections taken after every call (also from traced real passes and random wider-API histories)",
        text="TLC enumerates every history of <=2 mutator calls from two initial IRs over 28 action kinds (thorough: over a wider universe of 8 ops / 5 blocks / 7 values to pick arguments from) plus random walks of depth 30-40 (400 / 3000 per initial IR); each history is replayed through the public API (Block/Region/Operation methods, Rewriter, PatternRewriter routes) and after every call both directions of every op/block list, parent pointers, use chains and indices are projected and judged by TLC against IRProj.tla; the same judge sees projections from seeded random histories over the wider API and from the repository's passes running on corpus modules under run-time mutator wrappers. End states are compared with the model (divergence only).",
        note="Trusted: harness/project.py reads the private pointers faithfully; erased objects are those the harness saw erased; calls with false documented preconditions are not issued and a raising/hanging call ends its history. Bounds: universe of 7-9 ops, 4-6 blocks, 3 regions in the model; larger in random histories and traced passes."),
    "C02": dict(
        category="exploration", design_ref="DESIGN.md §3.3, §4 C02",
        technique="TLA+ isomorphism + frame conditions (IRIso.tla, IRCloneCases.tla) evaluated by TLC on before/after projections of real clone calls",
        text="Generated trees (multi-block CFGs, use-before-def, external operands, nested regions) living next to bystander IR are cloned through every entry point (Operation.clone, clone_without_regions, nested op, Region.clone, clone_into non-empty destinations at default and every index, ModulePass.apply_to_clone on corpus modules); TLC checks equivalence with internal references remapped and external ones identical, nothing shared, insertion index, and that source, bystanders and destination contents are unchanged, also after local edits on either side.",
        note="Trusted: projection with attribute/type tokens (Python ==). Attribute objects are treated as immutable values."),
    "C03": dict(
        category="exploration", design_ref="DESIGN.md §3.3, §4 C03",
        technique="TLA+ definition of structural equivalence (positional bijection of values and blocks, IRIso.tla) evaluated by TLC as reference; real is_structurally_equivalent compared on generated IR, clones and single-point mutants",
        text="For generated trees and parseable corpus chunks, their clones and clones with one mutation of each kind (result/arg type, attribute added/removed/changed, property changed or moved to the attribute dictionary, operand rewired internally or to an outside value, successor, block order, op order, op name, extra op) the real check is asked in both directions on ops (detached and attached), regions and blocks; TLC evaluates the property's definition on the projection and every disagreement is a violation.",
        note="Trusted: IRIso.tla is the property's relation; attribute/type equality is Python == via interned tokens; mutants are produced with the real API."),
    "C11": dict(
        category="model_checking", design_ref="DESIGN.md §3.4, §4 C11",
        technique="TLA+ transcription of PatternRewriteWalker with nondeterministic pop order model-checked by TLC; real walker runs (perturbed worklist, instrumented PatternRewriter calls, listener log) monitored by a TLA+ trace spec",
        text="Greedy.tla explores every pop order of the transcribed driver on small IRs over a terminating pattern menu (InvokedOpsAreLive, EveryMutationNotified, ReturnsChanged, Fixpoint). The real walker runs real patterns implementing that menu plus block-argument / inline-block / use-forwarding patterns on generated modules in all 8 walk configurations with LIFO and perturbed pop orders, with and without a post-walk function; each run's event log (invocations with attachment state, every rewriter call with owed vs delivered listener events and the action flag, IR-change bits, return value, post-walk re-application on a clone) is validated by GreedyTrace.tla. canonicalize on corpus modules is traced with the call-based clauses.",
        note="Trusted: the obligation table (which listener events each rewriter call owes, DESIGN §4 C11); IR change detected by printing the module; pattern sets are terminating by construction."),
    "C25": dict(
        category="model_checking", design_ref="DESIGN.md §3.6, §4 C25",
        technique="TLA+ transcription of the sparse backward liveness analysis + solver loop with an arbitrary-choice worklist, model-checked from every small program; real DataFlowSolver run under randomized schedules and load orders, final lattices judged by TLC against the declarative least fixpoint",
        text="TLC checks on every program with <=2 (thorough: 3) ops, every seed set, both load modes and EVERY drain order that the analysis ends in the least fixpoint and never overshoots it. The real solver is run on that program space and on generated programs with 3-9 ops (multi-result ops, read/write/unknown effects) with its worklist replaced by a random-pop deque, in three analysis load orders; TLC compares every final lattice with the declarative fixpoint and schedules must agree.",
        note="Trusted: DataflowDefs.tla's fixpoint is the property's definition; boundary liveness is seeded through the lattice API (no public-function caller exists yet)."),
    "C13": dict(
        category="exploration", design_ref="DESIGN.md §3.6, §4 C13",
        technique="TLA+ declarative liveness over program graphs (DCE.tla) evaluated by TLC as reference for what the real dce pass / trivial-dead removal leave behind",
        text="Generated program graphs (pure, read-only, writing, unknown-effect, unregistered, terminator and symbol ops incl. harness-defined PURE terminators and PURE symbols so that each clause of would_be_trivially_dead is isolated; dead chains and cross-block dead cycles; unreachable blocks; nested regions; unregistered terminators) are built as IR; the dce pass must keep exactly the model's Kept ops and reachable blocks, dce() and GreedyRewritePatternApplier(dce_enabled) may only remove what the model calls trivially dead.",
        note="Trusted: DCE.tla; the removable flag assigned per op kind; region-holding ops are never removable in generated graphs. The result/effect-preservation half is covered by the translation-validation route of C14 (dce is one of its passes)."),
    "C29": dict(
        category="exploration", design_ref="DESIGN.md §3.10, §4 C29",
        technique="TLA+ definition of symbol resolution (SymbolTable.tla) evaluated by TLC as reference; exhaustive small module trees x references x `from` ops through every lookup API",
        text="Every verified module tree with <=4 (thorough: 5) nodes over named/unnamed symbol tables, non-table symbols and plain region ops with public/private visibility, every reference of length <=3 and every `from` operation is resolved through SymbolTable.lookup_nearest_symbol_from / lookup_symbol_in, the cached SymbolTableCollection (cold and warm) and traits.SymbolTable.lookup_symbol; TLC computes the designated symbol.",
        note="Trusted: SymbolTable.tla states the nesting rules. Exhaustive for the bound."),
    "C26": dict(
        category="exploration", design_ref="DESIGN.md §3.10, §4 C26",
        technique="TLA+ value semantics of affine expressions (Affine.tla: Eval, substitution) evaluated by TLC as reference for tables produced by the real eval() of built / simplified / composed / substituted / re-parsed expressions",
        text="Abstract expression trees (all depth-1 trees plus seeded depth 2-3) are built with the Python operators and the raw constructor, simplified, composed with maps, substituted and printed + re-parsed; the real eval() of each form is tabulated on a box of 75 (thorough: 147) points and TLC compares every entry with Eval of the original tree under the substitution.",
        note="Trusted: Affine.tla; TLC integer arithmetic (values far below 2^31). Divisors / moduli are positive constants as the property requires."),
    "C10": dict(
        category="exploration", design_ref="DESIGN.md §3.9, §4 C10",
        technique="TLA+ exists-a-split semantics of IRDL operation definitions (OpDefVerify.tla) evaluated by TLC as reference for verify() and the generated accessors of dynamically created real op classes",
        text="Seeded definitions (operand/result/region segments single/optional/variadic, constraints any/eq/shared type variable, segment lengths bound to shared integer variables, options none/same-size/attribute-sized) become real classes through irdl_op_definition; raw instances (incl. missing, wrong-length, negative, non-summing and sum-preserving near-miss size arrays) are verified for real and TLC decides Accepts by enumerating segment splits and variable bindings; constructor-built instances must verify; each accessor must return the segment of the unique split TLC computes. The segment structure of every IRDL operation of every registered dialect is checked one-sidedly against raw instances with arbitrary counts and size arrays: where TLC finds no admissible split, verify() must reject.",
        note="Trusted: OpDefVerify.tla; successor segments and attribute/property constraints other than the size arrays are not generated; definitions the library refuses at class creation are skipped."),
    "C09": dict(
        category="exploration", design_ref="DESIGN.md §3.9, §4 C09",
        technique="TLA+ set semantics of IRDL attribute constraints with variable contexts (Constraints.tla) evaluated by TLC as reference for verifies()/infer() of real constraint objects built raw, through the simplifying constructors and from type hints",
        text="Seeded constraint trees (any/base/eq/set/anyof/allof/param/var, depth <=3) are built for real three ways (raw dataclasses; AnyOf.get / ParamAttrConstraint.get / AttrSetConstraint.get; the | and & operators - i.e. with and without union flattening/merging); verifies() on 18 builtin attributes is compared by TLC with Accepts; wherever can_infer() holds the inferred attribute must satisfy the constraint in the given context; constraints derived from type hints are compared with isa() and with the model of the hint.",
        note="Trusted: Constraints.tla; attributes serialised structurally (class, bases, parameters, payload). One open finding (AllOf.infer) keyed by clause + presence of an AllOf node."),
    "C15": dict(
        category="exploration", design_ref="DESIGN.md §3.1, §3.8, §4 C15",
        technique="TLA+ bit-vector arithmetic on byte limbs (BV.tla, self-checked by TLC against integer arithmetic) and an operational semantics of func/arith/cf/scf (Machine.tla) executed by TLC as reference for results observed from the real interpreter",
        text="Every arith op and cmpi predicate the interpreter implements is run by the real interpreter on every operand tuple for widths 1-4 and on boundary/random tuples for 8..64 and index; generated multi-op programs with scf.if / scf.for / cf branches and loops are run on boundary inputs; TLC executes the same programs under Machine.tla (one state per executed operation) and every result is compared as a bit pattern; results outside the type's signless range are flagged.",
        note="Trusted: BV.tla / Machine.tla as MLIR semantics (BVCheck.tla compares BV with integer arithmetic for widths <=15). Floating point is not modelled (no floats in TLC). Ops the interpreter does not implement are listed in the evidence, not judged."),
    "C14": dict(
        category="translation_validation", design_ref="DESIGN.md §2.2, §3.8, §4 C14",
        technique="translation validation under a TLA+ operational semantics: programs before/after the real passes are executed by TLC (Machine.tla over BV.tla) on every input of a small domain; AgreeClause (results, effect log, refinement w.r.t. undefined behaviour) checked per run",
        text="Generated func/arith/cf/scf programs (all integer arith ops, constants at boundary values, select, scf.if/for, cf diamonds/loops, branch-condition reuse shapes, external calls as effects) are run through canonicalize, cse, constant-fold-interp, test-constant-folding and dce; every (program, pass) pair that changed is executed before and after by TLC on all inputs for widths <=4 and boundary/random inputs otherwise; a pass that raises on a valid program is a violation.",
        note="Trusted: Machine.tla/BV.tla (self-checked) as reference semantics; the serialiser harness/serialize.py (tied to the interpreter by C15). Floating point is not modelled. Open findings: test-constant-folding asserts; folds of unsigned cmpi inherited from the interpreter."),
    "C16": dict(
        category="translation_validation", design_ref="DESIGN.md §2.2, §3.8, §4 C16",
        technique="translation validation under a TLA+ operational semantics (Machine.tla gives scf.if/for/while and cf their own semantics); before/after programs of the real lowering / loop passes executed by TLC",
        text="Generated programs with nested scf.for/scf.if, an exhaustive family of constant-bound loops (lb -2..3, ub -1..5, step 1..3), loop nests with used/unused induction variables and effects in the body, range-folding shapes with constant and symbolic factors, and affine.for / affine.apply programs (floor-based mod / floordiv / ceildiv over negative symbols) are run through convert-scf-to-cf, scf-for-loop-range-folding, scf-for-loop-flatten, licm, control-flow-hoist, lower-affine and scf-for-loop-unroll; TLC executes before/after on boundary/random inputs and compares results and the ordered effect log.",
        note="Trusted: Machine.tla (incl. AffEval for affine.apply). frontend-desymrefy is not exercised; affine.if/load/store/parallel are not generated. Three open findings (range folding with non-positive factor, flatten with uneven trip counts, lower-affine mod of a negative value)."),
    "C04": dict(
        category="exploration", design_ref="DESIGN.md §3.2, §4 C04",
        technique="TLA+ model of printer name allocation (Naming.tla, Injective checked by TLC over every hint assignment) replayed on real IR, and TLC-judged structural equivalence (IRIso.tla) of original and re-parsed IR on the joint projection",
        text="Every assignment of the model's raw-hint alphabet to 4 values and every pair of block hints is applied to real IR, printed in generic form, parsed in a fresh context; TLC judges original ~ re-parsed (names, attributes, properties, types, successors, nesting, use-def incl. forward references); printing twice, printing the clone and re-printing the parse must give the same text. Same for generated test-dialect trees with random hints and forward references, for every parseable chunk of the repository's .mlir corpus, and for the IR that the corpus files' own RUN pipelines leave (pass outputs).",
        note="Trusted: IRIso.tla as the definition of structural equivalence; attribute values compared by Python == after re-parse. Five defects repaired (fix: commits), one open finding (dense_resource keys renamed by the process-global blob storage)."),
    "C28": dict(
        category="translation_validation", design_ref="DESIGN.md §4 C28",
        technique="TLA+ e-graph model (EGraph.tla: class values by least fixpoint, ClassSound; AddNode/Merge/Rebuild model-checked in EGraphMC.tla with a negative control) evaluated by TLC on e-graph snapshots of the real pipeline; source vs extracted program executed by TLC under Machine.tla",
        text="Generated single-block pure arith functions over i8/i32 run through the real eqsat-create-eclasses, apply-eqsat-pdl-interp (seven sound PDL rule sets converted by the repository's own PDL->pdl_interp->eqsat_pdl_interp passes, 1-5 iterations), eqsat-add-costs and eqsat-extract; the IR after each stage is projected to an e-graph and TLC checks on every input tuple that every class is sound and the returned classes keep the source's values; TLC executes source and extracted program on the same inputs; without rules the round trip must preserve results.",
        note="Trusted: BV.tla/Machine.tla semantics; the e-graph projection (harness/drivers/c28.py). apply-eqsat-pdl itself needs mlir-opt and cannot run offline. One defect repaired (falsy constant attribute constraints), one open finding (extraction order)."),
    "C17": dict(
        category="exploration", design_ref="DESIGN.md §3.3, §4 C17",
        technique="TLA+ pass-contract state machine (PassContract.tla: ApplyOk must re-establish validity, ApplyRaised is reported failure) whose post-state predicate - verify flag, C01 pointer-walk predicate of IRProj.tla, no erased/detached operand, no dangling successor, operands defined in an enclosing region, printed form re-parses - is evaluated by TLC on recorded histories of real pass runs",
        text="Every registered pass is applied to corpus chunks: the RUN-line pipelines of its own filecheck inputs pass by pass, and the cross product pass x foreign chunk with default options and option sets seen in RUN lines (thorough: all 440k combinations; quick: a seeded sample of 20000), schedule_space instances, generated func/arith/scf/cf programs through random pipelines of 1-3 passes, an idiom family (both-constant and identity operands for every foldable op), and dominance-respecting cf CFGs with pass-through blocks, loops and block arguments read in dominated blocks through canonicalize / dce / cse. Each successful application is an event with verify()/re-parse outcome and (for changed modules <= 60 ops) the pointer-walk projection; TLC accepts or rejects the history.",
        note="Trusted: IRProj/PassContract predicates; projection; 'parses back' decided on the generic format (custom-format-only failures are divergences, C05 is not applicable). Exceptions are reported failure; 30 s timeouts are divergences. 35 (pass, clause) defect classes of the unchanged tree are listed as open findings with their diagnostics."),
    "C27": dict(
        category="exploration", design_ref="DESIGN.md §4 C27",
        technique="TLA+ semantics of PDL patterns (PDLMatch.tla: match relation with shared variables and result-of constraints, rewrite step; TLC explores every application order to the fixpoints) used by TLC to judge the payloads produced by the two real paths",
        text="Generated single-root PDL patterns (nested result-of producers incl. diamonds, shared value/attribute/type variables, constant attributes incl. falsy values, typed operands; erase / replace-with-operand / replace-with-new-op) are applied to generated payloads (instantiations of the pattern with one perturbation each plus noise) by apply-pdl and by convert-pdl-to-pdl-interp + apply-pdl-interp; TLC decides that both results are equal and diagnoses against the model's fixpoints which path deviates.",
        note="Trusted: PDLMatch.tla as PDL's meaning (only needed for diagnosis/coverage; the verdict is the equality of the two real results); canonical encoding of payloads. Native constraints, variadic operand/result groups and multi-pattern modules are not generated. Three defects repaired, three open findings."),
    "C22": dict(
        category="translation_validation", design_ref="DESIGN.md §4 C22",
        technique="TLA+ RV32IM instruction-level model (RV.tla) executed by TLC on the parsed assembly emitted by the real pipeline, next to the source under Machine.tla, on the same inputs; calling-convention clauses (results in a0/a1, callee-saved registers and sp restored)",
        text="Generated i32 programs (arith incl. division, shifts and boundary constants, all cmpi predicates observed through index casts, scf.for with iter_args and dynamic bounds, up to >= 10 live values) are compiled by the documented RISC-V pipeline and printed as assembly; TLC runs source and instructions on boundary/random inputs. RISC-V snippets (random, plus the grid of every R-/I-type op on boundary constants and immediates) are printed before and after canonicalize alone and both executed under RV.tla. riscv-level functions writing pre-assigned s-registers are printed before and after riscv-prologue-epilogue-insertion: same a0, callee-saved registers and sp restored (the arith pipeline itself never allocates s-registers).",
        note="Trusted: RV.tla / Machine.tla; the assembly parser (harness/drivers/c22.py). Integer only: floating point (f32/f64 constants, fcvt, fadd..) is not modelled, so float lowering defects are out of reach. Programs the pipeline refuses (unsupported ops, out of registers, si12 immediates rejected by canonicalize) are outside the property and counted in the evidence. One defect repaired (cmpi predicate table), one open finding (loop-carried register taken before the last use of the block argument; directed family of two-variable loops with controls)."),
    "C23": dict(
        category="exploration", design_ref="DESIGN.md §4 C23",
        technique="TLA+ semantics of the llvm dialect's integer / branch / stack-slot ops (Machine.tla LLVMEval, poison = no obligation) executed by TLC to judge the results of natively executed code produced by the real backend (LLVM verifier + MCJIT via llvmlite)",
        text="Generated llvm-dialect integer functions (binary ops with nsw/nuw/exact/disjoint flags, ten icmp predicates, zext/sext/trunc with nneg/nsw/nuw, select, alloca/store/load with constant and block-computed element counts, diamonds with block arguments incl. both edges into one block, counted loops with loop-carried block arguments; i1-i64) are translated by xdsl.backend.llvm, parsed and verified by LLVM (rejection = violation), JIT-compiled and called on boundary/random arguments in a forked child; TLC runs the function under Machine.tla and compares every defined result; a corrupted-result negative control must be rejected.",
        note="Trusted: LLVMEval in Machine.tla (built on BV.tla, self-checked in BVCheck.tla); llvmlite's LLVM; the host CPU. Floats, vectors, calls, GEP, globals are not generated. One open finding (cond_br with both edges to one block)."),
    "C21": dict(
        category="translation_validation", design_ref="DESIGN.md §4 C21",
        technique="TLA+ x86-64 instruction-subset model (X86.tla) executed by TLC on the parsed assembly of the real pipeline next to the source under Machine.tla, with SysV clauses (rax, callee-saved registers, rsp); the same assembly is assembled by gcc and run natively through a register-checking trampoline whose observations must equal X86.tla's predictions",
        text="Generated i64 functions (1-6 arguments, constants, add / mul chains, argument reuse, a third with many simultaneously live values) are compiled by the documented x86 pipeline; TLC runs source and emitted instructions on boundary/random argument vectors and checks the result in rax and that rbx, rbp, r12-r15 and rsp are restored at ret; every run is also executed natively (forked child) and the trampoline's record of rax, callee-saved registers and stack-pointer drift is compared with the model by TLC.",
        note="Trusted: X86.tla (cross-checked against the CPU on every run), Machine.tla, the assembly parser and the trampoline. Only arith.constant/addi/muli on i64 are lowered by the backend; refused programs are outside the property."),
    "C19": dict(
        category="exploration", design_ref="DESIGN.md §3.7, §4 C19",
        technique="TLA+ register-file execution of allocated blocks (RegAlloc.tla: the register file remembers which value each register holds) evaluated by TLC on the assignments produced by the real allocators",
        text="Seeded single-block functions are allocated by the real RegisterAllocatorLivenessBlockNaive (RISC-V li/add/sub/mul/mv, pre-allocated arguments and results, zero constants, pools of 1-6 registers with and without infinite registers), functions with riscv_scf.for loops in the shape the lowering produces (carried variables initialised by dedicated copies, live-ins and bounds read in the body, pass-through and recomputed yields, one level of nesting) are allocated and unrolled by the harness into the reads and writes of two iterations of every loop (entry, back edge, exit), every dynamic instance of a value with its own id, and single-block x86_func functions in the shape convert-arith-to-x86 produces (argument copies out of rdi/rsi, two-address rs.add/sub/imul/and/xor, r.neg/inc, ri.add on dedicated copies, dsi.imul, result into rax) are allocated by the real X86RegisterAllocator with the default and with small pools and by BlockNaiveAllocator on test.allocatable ops with in/out/inout constraints; TLC executes each allocated block on a value-tracking register file: every operand must still be in its register when read, results of one op are in distinct registers, in/out pairs share a register, pre-assigned registers are kept, new registers come from the allocatable pool, only constant zero lives in `zero`.",
        note="Trusted: RegAlloc.tla; extraction of in/out/inout constraints through get_register_constraints(); generated inputs satisfy the allocator's documented precondition (an inout operand is used for the last time there; no conflicting pre-assignments). OutOfRegisters/diagnostics are reported failures. One defect repaired (dangling yield operand), one open finding (carried register taken before the last use of the block argument)."),
    "C18": dict(
        category="model_checking", design_ref="DESIGN.md §4 C18, §11.9",
        technique="TLA+ transcription of the pipeline lexer (ordered rule list, lazy), recursive-descent parser, printer and typed option conversion (PipelineSpec.tla): TLC checks print-then-parse identity over a bounded value universe and diagnostic-totality over every short text; the real printer / parser / from_spec / spec() are run on generated passes, ArgSpecs and texts and TLC judges the recorded results against the model and the property's clauses",
        text="TLC checks on the model that each of 220k ArgSpecs (strings over a 15-character alphabet with quotes, backslashes, separators, newline, tab, non-ASCII; booleans; integers; plain and exponent-form floats; 1-2 parameters, 0-2 values) prints to a text that parses back to it, must refute the claim for values without textual form (negative control), and that every text over a 20-character alphabet up to length 4 (thorough: 5) lexes into tiling tokens and ends in a result or a diagnostic. Conformance: every registered pass (133) and ten synthetic pass classes covering the documented option types get generated option values (ints to 10^20, boundary/random-bit floats, strings with special characters, tuples, None, literals) and are taken through spec() -> str -> parse_pipeline -> from_spec -> str; generated ArgSpec pipelines likewise; every text over the alphabet up to length 3 (thorough: 4), mutated printed specs, random token sequences and malformed option lists are parsed for real. TLC evaluates RoundTrip (Python ==), ReprintStable and FailsOnlyWithDiagnostics on the recorded data and compares every real result with the model's (divergence).",
        note="Trusted: PipelineSpec.tla as transcription (kept honest by the zero-divergence requirement reported in the evidence); the decimal->binary64 rounding table computed with exact rationals in the harness (TLC has no floats); equality of passes is Python's ==. Lone surrogates are not generated. Four defects repaired, three open findings (inf/nan, \\r \\f \\v in strings, () in an optional tuple field); each case touching an open finding has a twin without the offending value that is judged separately."),
    "C08": dict(
        category="exploration", design_ref="DESIGN.md §11.10",
        technique="TLA+ statement of value semantics over payload trees (ValueSem.tla: same value iff same payload tree; reflexive / symmetric / transitive / hash-consistent / same-parameters-equal / different-payloads-unequal), model-checked by TLC for three candidate float-leaf equalities over a float domain with signed zeros and NaN payloads (only the bit pattern passes), and evaluated by TLC on recorded ==/hash matrices of families of real attributes and CSE keys",
        text="Families of 2-10 real attributes are compared pairwise for real (== and hash()) and TLC evaluates the laws on each recorded matrix together with the payload trees projected by the harness: every distinct attribute of the corpus (quick: ~4000 from a seeded sample of files, thorough: all) with the same attribute parsed again through another context, ~350 generated builtin attributes (FloatData / FloatAttr of six float types over signed zeros, four NaN payloads, infinities, subnormals; integers at width boundaries; strings, bytes, symbol refs, dense arrays and dense elements with -0.0 / NaN, shaped types, arrays, dictionaries in two orders, affine maps, unregistered attributes and types parsed in two contexts) each with an independently rebuilt twin, single-parameter mutants built with .new(), and all generated attributes of one class against each other; likewise the CSE keys (OperationInfo) of region-free corpus operations with clones and clones with one attribute replaced.",
        note="Trusted: the payload projection (class, parameters in order, leaves by exact content, floats by binary64 pattern, Python bool = int, dictionaries as mappings) defines 'observably different'; attributes that are unhashable or whose payload holds objects without a value repr are skipped and counted. Four defects repaired (FloatData ==/hash, DLTI entry maps comparing equal regardless of content, unregistered attributes across contexts); no open finding."),
}

NOT_APPLICABLE = {
    "C05": "custom assembly formats of ~80 dialects: an encode/decode identity over hand-written print/parse pairs with no state/transition content a TLA+ model could add (DESIGN §5)",
    "C06": "bit-exact literal round-trip incl. IEEE-754 payloads and Unicode strings: TLC has neither floats nor character-level strings (DESIGN §5)",
    "C07": "parser robustness on arbitrary text and time proportional to input: a property of byte strings and wall-clock time, i.e. fuzzing, not model checking (DESIGN §5)",
}


def build(all_props):
    checks = []
    for pid, c in CHECKS.items():
        checks.append({
            "property_id": pid,
            "quick_cmd": f"./check {pid} --tier quick",
            "thorough_cmd": f"./check {pid} --tier thorough",
            "evidence_file": f"/verif/evidence/{pid}.json",
            "replay_cmd_template": f"./check {pid} --replay {{path}}",
            "engine": "tlc-harness",
            "level_claimed": {"category": c["category"], "text": c["text"], "design_ref": c["design_ref"]},
            "level_note": c["note"],
            "technique": c["technique"],
        })
    na = [{"property_id": p, "reason": r} for p, r in NOT_APPLICABLE.items()]
    for p in all_props:
        if p not in CHECKS and p not in NOT_APPLICABLE:
            na.append({"property_id": p, "reason": "not claimed yet: the TLA+ model/binding for this property is not built or not yet quiet on the unchanged tree (see DESIGN.md §4 for the plan)"})
    return {
        "version": 1,
        "setup_cmd": "true",
        "hooks": {
            "guard": "XDSL_VERIF_TRACE",
            "enable": "no source hooks: ./check sets XDSL_VERIF_TRACE=1 and installs run-time wrappers/subclasses from /verif/harness on the imported /repo modules",
            "baseline_off_cmd": "cd /repo && /venv/bin/python -m pytest -ra -q -p no:cacheprovider --timeout=900 --continue-on-collection-errors -n 16",
            "source_commits": [],
            "add_only": True,
        },
        "engines": [{"name": "tlc-harness", "path": "/verif/check", "serves_properties": sorted(CHECKS),
                     "kind_free_text": "TLA+ specifications under /verif/spec checked with TLC 1.8; Python harness (harness/) replays TLC behaviours into xDSL and validates recorded xDSL traces / results with TLC"}],
        "checks": checks,
        "not_applicable": na,
        "notes": "See DESIGN.md. known_findings.json lists recorded defects (open) and fix: commits (fixed).",
    }


if __name__ == "__main__":
    props = [json.loads(l)["id"] for l in (VERIF / "properties.jsonl").read_text().splitlines() if l.strip()]
    m = build(props)
    (VERIF / "MANIFEST.json").write_text(json.dumps(m, indent=1) + "\n")
    print("checks:", [c["property_id"] for c in m["checks"]], "n/a:", len(m["not_applicable"]))
