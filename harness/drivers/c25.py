"""C25: the liveness dataflow analysis computes its specified fixpoint under any schedule.

Model: spec/analysis/Dataflow.tla - SparseBackwardDataFlowAnalysis + LivenessAnalysis + the solver loop
transcribed with a worklist from which ANY element may be taken, started from EVERY program with <=2
(thorough: 3) ops; TLC checks `live = least fixpoint` at quiescence and `live <= fixpoint` always.
Binding: programs of that space and larger generated ones are built from test-dialect ops; the real
DataFlowSolver runs with its `_worklist` replaced by a deque whose popleft takes a pseudo-random
element, in three load orders (block pre-marked executable; LivenessAnalysis before / after
DeadCodeAnalysis), under many schedules; TLC (DataflowCases.tla) compares each final lattice with the
declarative fixpoint (DataflowDefs.tla), and all schedules of a program must agree."""

from __future__ import annotations

import collections
import itertools
from typing import Any

from .. import casecheck, tlc
from ..core import Ctx

CFG = """SPECIFICATION Spec
CONSTANTS
  NOps = {n}
  NArgs = {a}
INVARIANT FixpointReached
INVARIANT NeverOvershoots
"""


def build(prog: list[dict[str, Any]], nargs: int):
    """prog: [{"opn": [[i,k],...], "nres": n, "rem": 0/1, "kind": ...}] -> (module, block, value map)."""
    from xdsl.dialects import test
    from xdsl.dialects.builtin import ModuleOp, i32
    from xdsl.ir import Block, Region

    block = Block(arg_types=[i32] * nargs)
    vals: dict[tuple[int, int], Any] = {(0, k + 1): a for k, a in enumerate(block.args)}
    for i, o in enumerate(prog, 1):
        operands = [vals[tuple(v)] for v in o["opn"]]
        if o["rem"]:
            cls = test.TestReadOp if o.get("kind") == "read" else test.TestPureOp
        else:
            cls = test.TestWriteOp if o.get("kind") == "write" else test.TestOp
        op = cls.create(operands=operands, result_types=[i32] * o["nres"])
        block.add_op(op)
        for k, r in enumerate(op.results, 1):
            vals[(i, k)] = r
    return ModuleOp(Region([block])), block, vals


class RandomDeque(collections.deque):
    """A deque whose popleft removes a pseudo-random element: an arbitrary solver schedule."""

    rng = None

    def popleft(self):
        n = len(self)
        if n <= 1 or self.rng is None:
            return super().popleft()
        k = self.rng.randrange(n)
        self.rotate(-k)
        item = super().popleft()
        self.rotate(k)
        return item


def solve(prog, nargs: int, seeds: list[tuple[int, int]], mode: str, rng) -> list[list[int]]:
    from xdsl.analysis.dataflow import DataFlowSolver, ProgramPoint
    from xdsl.analysis.dead_code_analysis import DeadCodeAnalysis, Executable
    from xdsl.analysis.liveness_analysis import Liveness, LivenessAnalysis
    from xdsl.context import Context

    module, block, vals = build(prog, nargs)
    solver = DataFlowSolver(Context())
    if mode == "premarked":
        solver.load(LivenessAnalysis)
        solver.get_or_create_state(ProgramPoint.at_start_of_block(block), Executable).live = True
    elif mode == "liveness_first":
        solver.load(LivenessAnalysis)
        solver.load(DeadCodeAnalysis)
    else:
        solver.load(DeadCodeAnalysis)
        solver.load(LivenessAnalysis)
    for s in seeds:
        solver.get_or_create_state(vals[tuple(s)], Liveness).is_live = True
    if rng is not None:
        wl = RandomDeque()
        wl.rng = rng
        solver._worklist = wl  # pyright: ignore
    solver.initialize_and_run(module)
    out = []
    for key, v in vals.items():
        st = solver.lookup_state(v, Liveness)
        if st is not None and st.is_live:
            out.append(list(key))
    return sorted(out)


def small_programs(nops: int, nargs: int):
    """The program space of Dataflow.tla (same enumeration)."""
    def rec(p, i):
        if i > nops:
            yield p
            return
        V = [[0, k] for k in range(1, nargs + 1)] + [[j, k] for j in range(1, i) for k in range(1, p[j - 1]["nres"] + 1)]
        seqs = [[]] + [[v] for v in V] + [[v, w] for v in V for w in V]
        for opn in seqs:
            for nres in (0, 1, 2):
                for rem in (0, 1):
                    yield from rec(p + [{"opn": opn, "nres": nres, "rem": rem}], i + 1)
    yield from rec([], 1)


def random_program(rng, nops: int, nargs: int):
    p = []
    V = [[0, k] for k in range(1, nargs + 1)]
    for i in range(1, nops + 1):
        opn = [rng.choice(V) for _ in range(rng.choice([0, 1, 1, 2, 2, 3]))] if V else []
        nres = rng.choice([0, 1, 1, 2, 3])
        rem = rng.choice([0, 1, 1, 1])
        p.append({"opn": opn, "nres": nres, "rem": rem, "kind": rng.choice(["read", "pure"]) if rem else rng.choice(["write", "unknown"])})
        V = V + [[i, k] for k in range(1, nres + 1)]
    return p, V


def run(ctx: Ctx):
    ctx.level = "model_checking"
    q = ctx.quick
    n_mc = 2 if q else 3
    r = tlc.run("analysis/Dataflow.tla", cfg_text=CFG.format(n=n_mc, a=2 if q else 1), coverage=True, timeout=3000, xmx="12g")
    if r.violated:
        raise tlc.TLCMachineryError(f"Dataflow.tla (transcription of the current solver/analysis) violates {r.violated}\n" + "\n".join(r.out.splitlines()[-30:]))
    never = [a for a, (d, t) in r.coverage.items() if t == 0]
    if never:
        raise tlc.TLCMachineryError(f"vacuity: {never}")
    ctx.coverage.update({"states": r.distinct, "transitions": r.generated,
                         "models": {f"Dataflow NOps={n_mc}": {"distinct": r.distinct, "actions": {a: t for a, (d, t) in r.coverage.items()}}}})
    ctx.log(f"Dataflow.tla NOps={n_mc}: {r.distinct} states, every program x seeds x mode x schedule, ok")
    rng = ctx.rng("schedules")
    cases: list[dict[str, Any]] = []
    metas: list[dict[str, Any]] = []
    groups: dict[int, set[str]] = {}
    pid = 0
    modes = ["premarked", "liveness_first", "dca_first"]

    def add_program(prog, nargs, V, nsched):
        nonlocal pid
        pid += 1
        seed_sets = [[]] + [[v] for v in rng.sample(V, min(2, len(V)))] if V else [[]]
        for seeds in seed_sets:
            outs = set()
            for mode in modes:
                for s in range(nsched):
                    srng = None if s == 0 else ctx.rng(f"sched-{pid}-{s}")
                    try:
                        live = solve(prog, nargs, seeds, mode, srng)
                    except NotImplementedError:
                        continue
                    cases.append({"prog": [{"opn": o["opn"], "nres": o["nres"], "rem": o["rem"]} for o in prog], "seeds": seeds, "live": live})
                    metas.append({"program": pid, "mode": mode, "schedule": s, "kinds": [o.get("kind", "") for o in prog]})
                    outs.add(repr(live))
            groups[len(groups)] = outs

    # the model's own program space (S2C): every program with <= 2 ops, 2 args
    n_small = 0
    for prog in itertools.islice(small_programs(2, 2), None):
        V = [[0, 1], [0, 2]] + [[j, k] for j in (1, 2) for k in range(1, prog[j - 1]["nres"] + 1)]
        add_program(prog, 2, V, 2 if q else 3)
        n_small += 1
    # larger generated programs, many schedules
    for _ in range(150 if q else 4000):
        prog, V = random_program(rng, rng.randint(3, 9), 2)
        add_program(prog, 2, V, 4 if q else 8)
    ctx.log(f"{pid} programs ({n_small} exhaustive small), {len(cases)} solver runs")
    res = casecheck.run_cases("analysis/DataflowCases.tla", cases, min_per_shard=500)
    for idx, tail in res.mismatches:
        c, m = cases[idx], metas[idx]
        ctx.violate(f"program {c['prog']} seeds {c['seeds']} [{m['mode']}, schedule {m['schedule']}]: solver says live={c['live']}: {tail[0]}",
                    {"clause": tail[0], "mode": m["mode"], "randomized_schedule": m["schedule"] != 0, "prog": c["prog"], "seeds": c["seeds"], "live": c["live"],
                     "multi_result": any(o["nres"] > 1 for o in c["prog"])}, clause=tail[0])
    disagree = sum(1 for g in groups.values() if len(g) > 1)
    ctx.coverage.update({"traces_validated_against_impl": len(cases), "programs": pid, "small_programs_exhaustive": n_small,
                         "schedule_groups_disagreeing": disagree, "judge_states": res.states,
                         "rule": "every program with <=2 ops / 2 block args (ops: <=2 operands, 0-2 results, removable or not) and generated programs "
                                 "with 3-9 ops; seeds: none and up to two single values; 3 load orders x FIFO + randomized schedules"})
    ctx.sample({"case": cases[len(cases) // 2], "meta": metas[len(cases) // 2]})
    ctx.assumptions += ["'returned from a public function' has no caller in the code yet: boundary liveness is seeded through the lattice API as the repository's tests do",
                        "removable = would_be_trivially_dead: test.pureop / test.op_with_memread vs test.op / test.op_with_memwrite"]
