"""C02: cloning yields an independent equivalent copy and leaves other IR untouched.

Model: spec/ir/IRIso.tla (CloneClause: equivalence + every reference into the cloned part points to the
copy, references to the outside unchanged, nothing shared) and spec/ir/IRCloneCases.tla (frame
conditions: source, bystanders and the destination's existing IR unchanged; the copy is inserted at
the requested index; later edits on one side are invisible on the other).  Binding: generated IR
(multi-block, forward references, graph-region style uses, external operands) is cloned through every
entry point of the real API; the whole universe is projected before/after and TLC judges the pair."""

from __future__ import annotations

import copy as _copy
from typing import Any

from .. import casecheck
from ..core import Ctx


def local_edit(rng, u, root_op) -> str | None:
    """One edit confined to the tree under root_op (it may read outside values, never writes outside)."""
    from xdsl.dialects import test
    from xdsl.dialects.builtin import i32

    ops = list(root_op.walk())
    blocks = [b for o in ops for r in o.regions for b in r.blocks]
    internal = [r for o in ops for r in o.results] + [a for b in blocks for a in b.args]
    kind = rng.choice(["set_operand", "insert", "erase", "rauw", "insert_arg", "set_operands", "move_op", "set_succ"])
    if kind == "set_operand":
        c = [o for o in ops if len(o.operands)]
        if c and internal:
            o = rng.choice(c)
            o.operands[rng.randrange(len(o.operands))] = rng.choice(internal)
            return kind
    elif kind == "insert" and blocks:
        n = test.TestOp.create(operands=[rng.choice(internal)] if internal else [], result_types=[i32])
        u.register_tree(n)
        rng.choice(blocks).add_op(n)
        return kind
    elif kind == "erase":
        c = [o for o in ops if o is not root_op and o.parent is not None and not o.regions and all(r.first_use is None for r in o.results)]
        if c:
            o = rng.choice(c)
            u.mark_dead_tree(o)
            o.parent.erase_op(o)
            return kind
    elif kind == "rauw" and len(internal) >= 2:
        inside = {id(o) for o in ops}
        local = [v for v in internal if all(id(use.operation) in inside for use in v.uses)]   # users inside the tree only
        if local:
            a = rng.choice(local)
            b = rng.choice([v for v in internal if v is not a])
            a.replace_all_uses_with(b)
            return kind
    elif kind == "insert_arg" and blocks:
        b = rng.choice(blocks)
        u.val(b.insert_arg(i32, rng.randint(0, len(b.args))))
        return kind
    elif kind == "set_operands":
        o = rng.choice(ops)
        if o is not root_op:
            o.operands = [rng.choice(internal) for _ in range(rng.randint(0, 2))] if internal else []
            return kind
    elif kind == "move_op":
        c = [o for o in ops if o is not root_op and o.parent is not None and o.parent.first_op is not o]
        if c:
            o = rng.choice(c)
            b = o.parent
            o.detach()
            b.insert_op_before(o, b.first_op)
            return kind
    elif kind == "set_succ":
        c = [o for o in ops if len(o.successors) and o.parent is not None and o.parent.parent is not None]
        if c:
            o = rng.choice(c)
            o.successors[0] = rng.choice(list(o.parent.parent.blocks))
            return kind
    return None


def run(ctx: Ctx):
    from xdsl.dialects import test
    from xdsl.ir import Block, Region

    from .. import irgen
    from ..project import Universe

    ctx.level = "model_checking" if False else "exploration"
    rng = ctx.rng("gen")
    n_trees = 80 if ctx.quick else 1500
    cases: list[dict[str, Any]] = []
    metas: list[dict[str, Any]] = []
    keep = []
    counts: dict[str, int] = {}

    def add(case: dict[str, Any], **meta):
        cases.append(case)
        metas.append(meta)
        counts[meta["what"]] = counts.get(meta["what"], 0) + 1

    for t in range(n_trees):
        holder, ext = irgen.gen_externals(rng)
        fwd = rng.random() < 0.6
        a = irgen.gen_op(rng, ext, depth=rng.choice([0, 1, 2]), forward_refs=fwd)
        # the source lives inside a parent block together with a bystander user of its results
        parent_block = Block([a])
        bystander = test.TestOp.create(operands=list(a.results) + ext[:1])
        parent_block.add_op(bystander)
        keep += [holder, parent_block]
        u = Universe()
        u.register_tree(holder.first_op)
        u.block(holder)
        u.block(parent_block)
        u.register_tree(a)
        u.register_tree(bystander)

        # 1. whole-op clone
        before = u.project(extras=True)
        c = a.clone()
        u.register_tree(c)
        after = u.project(extras=True)
        add({"kind": "op", "before": before, "after": after, "src": ["op", u.op(a)], "cpy": ["op", u.op(c)]}, what="Operation.clone", forward_refs=fwd)
        # 2. later edits on the copy must not show on the source side and vice versa
        for side, tree in (("copy", c), ("source", a)):
            b0 = u.project(extras=True)
            done = [k for k in (local_edit(rng, u, tree) for _ in range(3)) if k]
            if done:
                a1 = u.project(extras=True)
                add({"kind": "edit", "before": b0, "after": a1, "excl": ["op", u.op(tree)]}, what=f"edits on the {side} after Operation.clone", edits=done)
        # 3. clone_without_regions
        before = u.project(extras=True)
        s = a.clone_without_regions()
        u.register_tree(s)
        after = u.project(extras=True)
        add({"kind": "op_without_regions", "before": before, "after": after, "src": ["op", u.op(a)], "cpy": ["op", u.op(s)]}, what="Operation.clone_without_regions")
        # 3b. a SEQUENCE of shallow clones: first a defining op, then one of its users (state must not leak between calls)
        pairs = [(d, use.operation) for d in a.walk() for r in d.results for use in r.uses if use.operation is not d]
        if pairs:
            d, usr = rng.choice(pairs)
            dc = d.clone_without_regions()
            u.register_tree(dc)
            before = u.project(extras=True)
            uc = usr.clone_without_regions()
            u.register_tree(uc)
            after = u.project(extras=True)
            add({"kind": "op_without_regions", "before": before, "after": after, "src": ["op", u.op(usr)], "cpy": ["op", u.op(uc)]},
                what="Operation.clone_without_regions of a user after cloning its operand's definer")
        # 4. an inner op that uses values of the enclosing tree (external to it)
        inner = [o for o in a.walk() if o is not a]
        if inner:
            o = rng.choice(inner)
            before = u.project(extras=True)
            oc = o.clone()
            u.register_tree(oc)
            after = u.project(extras=True)
            add({"kind": "op", "before": before, "after": after, "src": ["op", u.op(o)], "cpy": ["op", u.op(oc)]}, what="Operation.clone of a nested op", forward_refs=fwd)
        # 5. region clones: Region.clone, clone_into empty / non-empty destination at every index
        src_r = rng.choice(list(a.regions))
        before = u.project(extras=True)
        rc = src_r.clone()
        u.region(rc)
        for b in rc.blocks:
            u.block(b)
            for o in b.ops:
                u.register_tree(o)
        after = u.project(extras=True)
        add({"kind": "region_into", "before": _with_region(before, u.region(rc)), "after": after, "src": ["blocks", [u.block(b) for b in src_r.blocks]],
             "cpy": ["blocks", [u.block(b) for b in rc.blocks]], "dest": u.region(rc), "index": 0}, what="Region.clone", forward_refs=fwd)
        dest_owner = irgen.gen_op(rng, ext, depth=0, forward_refs=False)
        keep.append(dest_owner)
        u.register_tree(dest_owner)
        dest = dest_owner.regions[0]
        nb = len(dest.blocks)
        # half of the trees reuse ONE value / block mapper for all the clones (the "unroll the body N times" idiom): every copy
        # must still refer to its own block arguments and results
        shared = ({}, {}) if rng.random() < 0.5 else None
        for idx in [None] + list(range(nb + 1)):
            before = u.project(extras=True)
            old = {id(b) for b in dest.blocks}
            if shared is None:
                src_r.clone_into(dest, idx)
            else:
                src_r.clone_into(dest, idx, shared[0], shared[1])
            new_blocks = [b for b in dest.blocks if id(b) not in old]
            for b in new_blocks:
                u.block(b)
                for o in b.ops:
                    u.register_tree(o)
            after = u.project(extras=True)
            add({"kind": "region_into", "before": before, "after": after, "src": ["blocks", [u.block(b) for b in src_r.blocks]],
                 "cpy": ["blocks", [u.block(b) for b in new_blocks]], "dest": u.region(dest), "index": nb if idx is None else idx},
                what=f"Region.clone_into non-empty destination at {'default index' if idx is None else 'index ' + ('0' if idx == 0 else 'k>0')}"
                     + (" (mappers reused)" if shared is not None else ""), forward_refs=fwd)
            # undo: erase the inserted blocks so that the next index starts from the same destination
            for b in new_blocks:
                for o in list(b.ops):
                    for r in o.results:
                        pass
            for b in reversed(new_blocks):
                u.mark_dead_block(b)
                dest.detach_block(b)
                b.erase(safe_erase=False)
    ctx.log(f"{n_trees} trees, {len(cases)} clone / edit observations")
    # ModulePass.apply_to_clone leaves the original module unchanged
    n_pass = apply_to_clone_cases(ctx, add, 25 if ctx.quick else 300)
    res = casecheck.run_cases("ir/IRCloneCases.tla", cases, min_per_shard=8)
    for idx, tail in res.mismatches:
        clause = tail[0]
        m = metas[idx]
        ctx.violate(f"{m['what']}: {clause}" + (" [forward refs]" if m.get("forward_refs") else "") + (f" edits={m['edits']}" if m.get("edits") else ""),
                    {"clause": clause, "what": m["what"], "forward_refs": bool(m.get("forward_refs")), "case": {k: v for k, v in cases[idx].items() if k not in ("before", "after")},
                     "meta": m}, clause=clause)
    ctx.coverage.update({"evaluations": len(cases), "distinct_nontrivial": len(cases), "by_entry_point": counts, "trees": n_trees,
                         "apply_to_clone_runs": n_pass, "judge_states": res.states,
                         "rule": "every clone entry point (Operation.clone, clone_without_regions, nested op, Region.clone, Region.clone_into a non-empty "
                                 "destination at default / every index, ModulePass.apply_to_clone) on generated trees living next to bystander IR, followed by "
                                 "local edits on either side; each observation = (projection before, projection after) judged by TLC; all are non-trivial"})
    ctx.sample({k: v for k, v in cases[0].items() if k not in ("before", "after")})
    ctx.sample(metas[len(metas) // 2])
    ctx.assumptions += ["attribute objects are immutable values (frozen dataclasses); equality of attributes/types is Python =="]


def _with_region(before: dict[str, Any], rid: int) -> dict[str, Any]:
    """Region.clone creates its destination: present it as an empty pre-existing region."""
    b = _copy.deepcopy(before)
    while len(b["regions"]) < rid:
        b["regions"].append({"alive": 1, "parent": 0, "fwd": [], "bwd": []})
    return b


def apply_to_clone_cases(ctx: Ctx, add, limit: int) -> int:
    from xdsl.transforms import get_all_passes

    from ..project import Universe
    from .c01_c2s import corpus_modules

    rng = ctx.rng("apply_to_clone")
    allp = get_all_passes()
    names = [p for p in ("canonicalize", "cse", "dce", "convert-scf-to-cf", "lower-affine", "constant-fold-interp") if p in allp]
    n = 0
    for name, module, xctx in corpus_modules(rng, limit, max_ops=30):
        pname = rng.choice(names)
        u = Universe()
        u.register_tree(module)
        before = u.project(extras=True)
        try:
            new = allp[pname]()().apply_to_clone(xctx, module)
        except Exception:  # noqa: BLE001
            continue
        after = u.project(extras=True)  # only pre-existing objects are registered: the frame must be exact
        add({"kind": "edit", "before": before, "after": after, "excl": ["blocks", []]}, what=f"ModulePass.apply_to_clone ({pname})", module=name)
        n += 1
    return n
