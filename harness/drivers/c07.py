"""C07: parsing any text terminates promptly and fails only with diagnostics.

Model: spec/lex/MLIRLexer.tla - the MLIR lexer (white space and comments, identifiers of five kinds, punctuation,
string / bytes literals with their escape grammar and UTF-8 decodability, decimal / hexadecimal / float literals)
as a function text x position -> token, transcribed from xdsl/utils/mlir_lexer.py, with the contracts the parser
relies on when it converts a token (INTEGER_LIT is [0-9]+ or 0x[hex]+, FLOAT_LIT is a float, STRING_LIT decodes).
spec/lex/MLIRLexerMC.tla: TLC lexes every text over a 28-character alphabet up to a length bound and checks
progress, termination in EOF or a diagnostic, and the contracts; with the pinned commit's lead-digit predicate
(str.isnumeric) the contract invariant must be refuted (negative control).
Binding (TLC as judge, MLIRLexerCases.tla): the real lexer's token stream on every short text, on mutated corpus
chunks and on generated token sequences must be the model's; the real parser is run on all of them and on long
scalability probes in forked workers under a CPU-time budget proportional to the length (the worker is killed by
the kernel when it exceeds it - a regular expression cannot be interrupted from Python); TLC evaluates
FailsOnlyWithDiagnostics and TerminatesPromptly on the recorded outcomes and LexicalErrorIsRejected against the
model (a text the model says has a lexical error must not parse)."""

from __future__ import annotations

import itertools
import multiprocessing as mp
import os
import signal
import traceback
from pathlib import Path
from typing import Any

from .. import casecheck, tlc
from ..core import Ctx

KNOWN_NON_ASCII = {233, 20013, 945, 178, 189, 1635, 128512, 160}
SIGMA = [97, 120, 101, 48, 49, 95, 46, 45, 62, 123, 125, 35, 64, 34, 92, 110, 102, 37, 33, 47, 10, 32, 43, 58, 233, 178, 1635, 128512]


def check_char_classes():
    """MLIRLexer.tla lists Python's verdicts for the non-ASCII characters it knows: they must be Python's."""
    alpha, numeric = {233, 20013, 945}, {178, 189, 1635}
    for c in KNOWN_NON_ASCII:
        ch = chr(c)
        if ch.isalpha() != (c in alpha) or ch.isnumeric() != (c in numeric):
            raise tlc.TLCMachineryError(f"character class table of MLIRLexer.tla disagrees with Python for U+{c:04X}")
        if ch.isspace() and c != 160:
            raise tlc.TLCMachineryError(f"unexpected space U+{c:04X}")


def sanitize(text: str) -> str:
    """Characters the model has no class for are replaced by one it has (part of the mutation)."""
    return "".join(ch if ord(ch) < 128 or ord(ch) in KNOWN_NON_ASCII else "é" for ch in text)


def real_lex(text: str) -> list[list[Any]]:
    from xdsl.utils.exceptions import ParseError
    from xdsl.utils.lexer import Input
    from xdsl.utils.mlir_lexer import MLIRLexer, MLIRTokenKind

    lx = MLIRLexer(Input(text, "<c07>"))
    out: list[list[Any]] = []
    try:
        for _ in range(len(text) + 2):
            tk = lx.lex()
            out.append([tk.kind.name, tk.span.start + 1, tk.span.end + 1])
            if tk.kind is MLIRTokenKind.EOF:
                return out
        out.append(["EXC", 0, 0])  # more tokens than characters: no progress
    except ParseError as e:
        out.append(["ERR", e.span.start + 1, e.span.end + 1])
    except Exception:  # noqa: BLE001
        out.append(["EXC", 0, 0])
    return out


_CTX = None


def fresh_ctx():
    from xdsl.context import Context
    from xdsl.dialects import get_all_dialects

    c = Context(allow_unregistered=True)
    for name, f in get_all_dialects().items():
        c.register_dialect(name, f)
    return c


def site_of(e: BaseException) -> str:
    tb = traceback.extract_tb(e.__traceback__)
    for fr in reversed(tb):
        if "/xdsl/" in fr.filename:
            if fr.name in ("_consume_token", "_parse_token", "raise_error"):      # generic helpers: the site is their caller
                continue
            return f"{fr.filename.split('/xdsl/', 1)[1]}:{fr.name}"
    return "outside-xdsl"


def real_parse(text: str) -> tuple[str, str]:
    from xdsl.parser import Parser
    from xdsl.utils.exceptions import ParseError, VerifyException

    try:
        Parser(fresh_ctx(), text).parse_module()
        return "ok", ""
    except ParseError:
        return "ParseError", ""
    except VerifyException:
        return "VerifyException", ""
    except RecursionError as e:
        return "RecursionError", site_of(e)
    except (KeyboardInterrupt, SystemExit):
        raise
    except BaseException as e:  # noqa: BLE001
        tag = "|enum-conversion" if isinstance(e, ValueError) and " is not a valid " in str(e) else ""
        return type(e).__name__, site_of(e) + tag


def budget(n: int) -> float:
    return 2.0 + 0.002 * n


def _worker(texts: list[str], start: int, conn):
    signal.signal(signal.SIGVTALRM, signal.SIG_DFL)   # exceeding the CPU budget kills the worker, whatever it is executing
    import resource
    resource.setrlimit(resource.RLIMIT_AS, (6 << 30, 6 << 30))   # a literal that asks for gigabytes must not take the machine down
    import sys
    sys.setrecursionlimit(3000)
    devnull = open(os.devnull, "w")
    sys.stdout = devnull
    sys.stderr = devnull
    try:
        real_parse('"builtin.module"() ({}) : () -> ()')    # warm-up: imports are not part of any text's budget
    except Exception:  # noqa: BLE001
        pass
    for k in range(start, len(texts)):
        t = texts[k]
        conn.send(("start", k))
        signal.setitimer(signal.ITIMER_VIRTUAL, budget(len(t)))
        import time as _time
        c0 = _time.process_time()
        toks = real_lex(t) if len(t) <= 4000 else []
        out, site = real_parse(t)
        cpu = _time.process_time() - c0
        signal.setitimer(signal.ITIMER_VIRTUAL, 0)
        conn.send(("done", k, toks, out, site, cpu))
    conn.close()


def run_texts(texts: list[str], shards: int = 16) -> list[dict[str, Any]]:
    """Lex and parse every text in forked workers; a worker that exceeds a text's CPU budget dies and is restarted."""
    results: list[dict[str, Any] | None] = [None] * len(texts)
    ctxmp = mp.get_context("fork")
    bounds = [(len(texts) * j // shards, len(texts) * (j + 1) // shards) for j in range(shards)]
    live = []
    for a, b in bounds:
        if a < b:
            live.append({"a": a, "b": b, "next": a})

    def spawn(sh):
        parent, child = ctxmp.Pipe(duplex=False)
        p = ctxmp.Process(target=_worker, args=(texts[sh["a"]:sh["b"]], sh["next"] - sh["a"], child), daemon=True)
        p.start()
        child.close()
        sh["p"], sh["conn"], sh["cur"] = p, parent, None

    for sh in live:
        spawn(sh)
    from multiprocessing.connection import wait
    while live:
        ready = wait([sh["conn"] for sh in live], timeout=600)
        if not ready:
            raise tlc.TLCMachineryError("C07 workers made no progress for 600 s")
        for sh in list(live):
            if sh["conn"] not in ready:
                continue
            try:
                msg = sh["conn"].recv()
            except EOFError:
                sh["p"].join()
                code = sh["p"].exitcode
                if sh["cur"] is not None:
                    k = sh["a"] + sh["cur"]
                    if code == -signal.SIGVTALRM:
                        results[k] = {"toks": [], "out": "", "site": "", "slow": 1}
                    else:
                        results[k] = {"toks": [], "out": f"worker died ({code})", "site": "", "slow": 0}
                    sh["next"] = k + 1
                else:
                    sh["next"] = sh["b"] if code == 0 else sh["next"] + 1
                if sh["next"] >= sh["b"]:
                    live.remove(sh)
                else:
                    spawn(sh)
                continue
            if msg[0] == "start":
                sh["cur"] = msg[1]
            else:
                _, k, toks, out, site, cpu = msg
                results[sh["a"] + k] = {"toks": toks, "out": out, "site": site, "slow": 0, "cpu": cpu}
                sh["cur"] = None
                sh["next"] = sh["a"] + k + 1
    return [r if r is not None else {"toks": [], "out": "not run", "site": "", "slow": 0} for r in results]


# ------------------------------------------------------------------ inputs
TOKENS = ['"builtin.module"', "()", "(", ")", "{", "}", "({", "})", ":", "->", "=", ",", "<", ">", "[", "]", "%0", "%a", "%0:2", "^bb0", "^", "@f", '@"s"', "#a", "!t",
          "i32", "f32", "index", "tensor<2xi32>", "memref<?xf32>", "1", "0x1F", "0x", "1.5", "1.e3", "1e", "-", "+", "*", "?", "|", "...", "..", ".", '"s"', '"\\n"', '"\\',
          '"', "dense<", "dense<[1, 2]>", "array<i32: 1>", "loc(", 'loc("f":1:2)', "unit", "true", "affine_map<(d0) -> (d0)>", "func.func", "arith.constant", "{-#", "#-}",
          "//", "// c\n", "\n", " ", "\t", "é", "²", "٣", "\U0001F600", " ", "\\", "$", "&", "`", "'", ";", "~", "\r", "\f", "\v", "\x00", "x" * 40]


def mutate(rng, text: str) -> str:
    s = list(text)
    for _ in range(rng.choice([1, 1, 2, 3, 5])):
        r = rng.random()
        pos = rng.randint(0, len(s))
        if r < 0.3 and s:
            n = rng.choice([1, 1, 2, 8])
            del s[pos:pos + n]
        elif r < 0.65:
            s[pos:pos] = list(rng.choice(TOKENS))
        elif r < 0.8 and s:
            s[min(pos, len(s) - 1)] = rng.choice("\"\\{}()<>[]:,=%^@#!-+.0x9e \n")
        elif r < 0.9 and s:
            a = rng.randint(0, len(s))
            s[pos:pos] = s[a:a + rng.choice([1, 3, 10, 40])]       # duplicate a slice
        else:
            s = s[:pos]                                             # truncate
    return "".join(s)


def corpus_chunks(ctx: Ctx, limit: int) -> list[str]:
    repo = Path(os.environ.get("VERIF_REPO", "/repo"))
    files = sorted((repo / "tests" / "filecheck").rglob("*.mlir"))
    rng = ctx.rng("corpus")
    rng.shuffle(files)
    out = []
    for f in files:
        try:
            text = f.read_text()
        except Exception:  # noqa: BLE001
            continue
        for ch in text.split("// -----"):
            ch = ch.strip()
            if 20 <= len(ch) <= 2500:
                out.append(sanitize(ch))
        if len(out) >= limit:
            break
    return out[:limit]


def attribute_grid() -> list[str]:
    """Directed family: every small dense / array / integer / float literal against every element type it may or may not fit."""
    lits = ["1", "-1", "0", "255", "1.5", "-0.0", "true", "false", "(1, 2)", "(1.0, -2.0)", "[1, 2]", "[1.0, 2.0]", "[(1, 2), (3, 4)]", "[-1, (3, 4)]", "[true, 2]",
            "\"0xFF00\"", "\"0x00000000000000FF\"", "[]", "[[1], [2]]", "[[1, 2]]", "0x7FC00000", "0xFF", "1e", "[1, ]", "(1, 2", "(1, 2]", "[1 2]", "9999999999", "-9999999999"]
    tys = ["i1", "i8", "i32", "ui8", "si16", "index", "f16", "f32", "f64", "complex<f32>", "complex<i32>", "i0", "bf16", "none", "!unknown.t"]
    out = []
    for lit in lits:
        for ty in tys:
            for shaped in ("tensor<2x{}>", "vector<2x{}>", "tensor<{}>", "tensor<2x1x{}>"):
                out.append(f'"test.op"() {{a = dense<{lit}> : {shaped.format(ty)}}} : () -> ()')
            out.append(f'"test.op"() {{a = array<{ty}: {lit.strip("[]")}>}} : () -> ()')
            out.append(f'"test.op"() {{a = {lit} : {ty}}} : () -> ()')
    # shaped types: dimension lists with dynamic / scalable / malformed entries
    dims = ["2", "?", "[2]", "[?]", "0", "-1", "2x?", "?x2", "[2]x[4]", "2x[?]", "[4]x?", "x", "2x", "[2", "2]", "[]", "[2x3]", "?x?x?", "1x1x1x1x1", "4294967296", "0x10"]
    for dl in dims:
        for el in ("f32", "i32", "index", "?", ""):
            for shaped in ("tensor<{}x{}>", "vector<{}x{}>", "memref<{}x{}>", "tensor<{}{}>"):
                t = shaped.format(dl, el)
                out.append(f'%0 = "test.op"() : () -> {t}')
                out.append(f'"test.op"() {{a = dense<0> : {t}}} : () -> ()')
    return out


def operand_index_grid() -> list[str]:
    """Directed family: `%v#N` for N around the number of results bound to %v, in custom-syntax and generic operations."""
    out = []
    for n_res in (0, 1, 2, 3):
        res = ", ".join(["i1"] * n_res)
        bind = f"%v:{n_res}" if n_res != 1 else "%v"
        define = f'{bind} = "test.op"() : () -> ({res})' if n_res else '"test.op"() : () -> ()\n%v:0 = "test.op"() : () -> ()'
        for idx in ("", "#0", "#1", "#2", "#3", "#4", "#7", "#99999999999999999999"):
            use = "%v" + idx
            out += [f'{define}\nscf.if {use} {{\n}}',
                    f'{define}\n"test.op"({use}) : (i1) -> ()',
                    f'{define}\n%r = arith.select {use}, {use}, {use} : i1',
                    f'{define}\ncf.cond_br {use}, ^a, ^a\n^a:\n  "test.termop"() : () -> ()',
                    f'%i:{max(n_res, 1)} = "test.op"() : () -> ({", ".join(["index"] * max(n_res, 1))})\nscf.for %k = %i{idx} to %i{idx} step %i{idx} {{\n}}',
                    f'%t = "test.op"() : () -> tensor<4xf32>\n%i:{max(n_res, 1)} = "test.op"() : () -> ({", ".join(["index"] * max(n_res, 1))})\n%e = tensor.extract %t[%i{idx}] : tensor<4xf32>']
    return out


def probes() -> list[tuple[str, str]]:
    """Long inputs whose parsing time must stay proportional to their length."""
    out = []
    for n in (3000, 30000):
        out += [("unterminated string", '"' + "a" * n),
                ("unterminated string with escapes", '"' + "a\\n" * (n // 3)),
                ("unterminated quoted symbol", '"test.op"() {a = @"' + "b" * n),
                ("long comment", "//" + "c" * n),
                ("comments and blanks", "// c\n   \n" * (n // 8)),
                ("open parens", "(" * n),
                ("open brackets attr", '"test.op"() {a = ' + "[" * min(n, 2000)),
                ("long bare identifier", "a" * n),
                ("long digits", '"test.op"() {a = ' + "9" * n + " : i32} : () -> ()"),
                ("long hex", '"test.op"() {a = 0x' + "F" * n + " : i32} : () -> ()"),
                ("long float", '"test.op"() {a = 1.' + "0" * n + "e+5 : f32} : () -> ()"),
                ("long dense list", '"test.op"() {a = dense<[' + ", ".join(["1"] * (n // 3)) + "]> : tensor<" + str(n // 3) + "xi32>} : () -> ()"),
                ("long array attr", '"test.op"() {a = [' + ", ".join(["unit"] * (n // 6)) + "]} : () -> ()"),
                ("long dictionary", '"test.op"() {' + ", ".join(f"k{i} = {i}" for i in range(n // 10)) + "} : () -> ()"),
                ("dictionary with many unit entries", '"test.op"() {' + ", ".join(f"key{i}" for i in range(n * 2 // 3)) + "} : () -> ()"),
                ("properties with many entries", '"test.op"() <{' + ", ".join(f"key{i}" for i in range(n * 2 // 3)) + "}> : () -> ()"),
                ("nested dictionary attribute with many entries", '"test.op"() {d = {' + ", ".join(f"key{i}" for i in range(n * 2 // 3)) + "}} : () -> ()"),
                ("many operations", "\n".join(f'%{i} = "test.op"() : () -> i32' for i in range(n // 30))),
                ("many operands", '%0 = "test.op"() : () -> i32\n"test.op"(' + ", ".join(["%0"] * (n // 4)) + ") : (" + ", ".join(["i32"] * (n // 4)) + ") -> ()"),
                ("long percent identifier", '%' + "v" * n + ' = "test.op"() : () -> i32'),
                ("long caret identifier", '"test.op"() ({\n^' + "b" * n + ':\n  "test.termop"() : () -> ()\n}) : () -> ()'),
                ("long type alias use", '"test.op"() : () -> !' + "t" * n),
                ("long attribute alias use", '"test.op"() {a = #' + "a" * n + '} : () -> ()'),
                ("long symbol", '"test.op"() {a = @' + "s" * n + '} : () -> ()'),
                ("long nested symbol", '"test.op"() {a = @a' + "::@b" * (n // 4) + '} : () -> ()'),
                ("long properties", '"test.op"() <{' + ", ".join(f"p{i} = {i} : i32" for i in range(n // 14)) + '}> : () -> ()'),
                ("long fused location", '"test.op"() : () -> () loc(fused[' + ", ".join(['"f":1:2'] * (n // 9)) + '])'),
                ("nested callsite location", '"test.op"() : () -> () loc(' + 'callsite("f":1:2 at ' * min(n // 20, 300) + 'unknown' + ')' * min(n // 20, 300) + ')'),
                ("metadata section", '"builtin.module"() ({}) : () -> ()\n{-#\n  dialect_resources: {\n    builtin: {\n' + ",\n".join(f'      r{i}: "0x08000000{i:08X}"' for i in range(n // 30)) + '\n    }\n  }\n#-}'),
                ("many block arguments", '"test.op"() ({\n^bb0(' + ", ".join(f"%a{i} : i32" for i in range(n // 12)) + '):\n  "test.termop"() : () -> ()\n}) : () -> ()'),
                ("many successors", '"test.op"() ({\n  "test.termop"()[' + ", ".join(["^b"] * (n // 4)) + '] : () -> ()\n^b:\n  "test.termop"() : () -> ()\n}) : () -> ()'),
                ("many forward references", '"test.op"() ({\n  "test.op"(' + ", ".join(f"%f{i}" for i in range(n // 8)) + ') : (' + ", ".join(["i32"] * (n // 8)) + ') -> ()\n  '
                 + "\n  ".join(f'%f{i} = "test.op"() : () -> i32' for i in range(n // 8)) + '\n}) : () -> ()'),
                ("many results", ", ".join(f"%r{i}" for i in range(n // 6)) + ' = "test.op"() : () -> (' + ", ".join(["i32"] * (n // 6)) + ')'),
                ("result group", f'%r:{n // 4} = "test.op"() : () -> (' + ", ".join(["i32"] * (n // 4)) + ')\n"test.op"(%r#{n // 4 - 1}) : (i32) -> ()'),
                ("long string attribute", '"test.op"() {a = "' + "x" * n + '"} : () -> ()'),
                ("affine map sum of dims", '"test.op"() {a = affine_map<(' + ", ".join(f"d{i}" for i in range(min(n // 10, 400))) + ') -> (' + " + ".join(f"d{i}" for i in range(min(n // 10, 400))) + ')>} : () -> ()'),
                ("hash soup", "#" * n), ("percent soup", "%" * n), ("dots", "." * n), ("minus arrows", "->" * (n // 2)), ("at signs", "@" * n),
                ("backslashes in string", '"' + "\\\\" * (n // 2) + '"'),
                ("string of hex escapes", '"test.op"() {a = "' + "\\FF" * (n // 3) + '"} : () -> ()'),
                ("affine map", '"test.op"() {a = affine_map<(d0) -> (' + " + ".join(["d0"] * (n // 5)) + ")>} : () -> ()"),
                ("nested types", '"test.op"() : () -> ' + "tuple<" * min(n // 6, 400) + "i32" + ">" * min(n // 6, 400)),
                ("nested regions", '"test.op"() (' + "{" * 0 + ''.join('{ "test.op"() (' for _ in range(min(n // 16, 150))) + "{}" + ''.join(') : () -> () }' for _ in range(min(n // 16, 150))) + ") : () -> ()")]
    return out


MC_CFG = "SPECIFICATION Spec\nCONSTANT MaxLen = {n}\n{extra}{invs}\n"


def model_check(ctx: Ctx):
    q = ctx.quick
    n = 4 if q else 5
    r = tlc.run("lex/MLIRLexerMC.tla", cfg_text=MC_CFG.format(n=n, extra="", invs="\n".join("INVARIANT " + i for i in ("Terminates", "EndsInEofOrDiagnostic", "TokensKeepTheirContract"))),
                workers=16, timeout=3300)
    if r.violated:
        raise tlc.TLCMachineryError(f"MLIRLexerMC (transcription of the current lexer) violates {r.violated}:\n" + "\n".join(r.out.splitlines()[-30:]))
    ctx.cov_add("states", r.distinct)
    ctx.cov_add("transitions", r.generated)
    ctx.coverage.setdefault("models", {})[f"MLIRLexerMC MaxLen={n}"] = {"distinct": r.distinct, "generated": r.generated}
    ctx.log(f"MLIRLexerMC MaxLen={n}: {r.distinct} texts, ok")
    r = tlc.run("lex/MLIRLexerMC.tla", cfg_text=MC_CFG.format(n=3, extra="CONSTANT LeadDigitsAreNumeric <- AlwaysTrue\n", invs="INVARIANT TokensKeepTheirContract"), workers=4, timeout=600)
    if not r.violated:
        raise tlc.TLCMachineryError("MLIRLexerMC negative control: with str.isnumeric as lead-digit predicate the token contract must be refuted")
    ctx.coverage["models"]["MLIRLexerMC lead digits = str.isnumeric (pinned commit)"] = {"refuted_as_required": True}


def run(ctx: Ctx):
    ctx.level = "exploration"
    q = ctx.quick
    check_char_classes()
    model_check(ctx)
    texts: list[str] = []
    what: list[str] = []

    def add(t: str, w: str):
        texts.append(t)
        what.append(w)

    n_exh = 0
    for n in range(0, 4 if q else 5):
        if n == 4:
            rng4 = ctx.rng("len4")
            for _ in range(150000):
                add("".join(chr(rng4.choice(SIGMA)) for _ in range(4)), "text of length 4")
            continue
        for t in itertools.product(SIGMA, repeat=n):
            add("".join(map(chr, t)), "short text")
            n_exh += 1
    ctx.coverage["texts_exhaustive"] = n_exh
    ctx.coverage["texts_exhaustive_rule"] = f"every text over the {len(SIGMA)}-character alphabet of MLIRLexerMC up to length 3" + ("" if q else " and 150000 seeded texts of length 4")
    chunks = corpus_chunks(ctx, 300 if q else 6000)
    rng = ctx.rng("mut")
    for ch in chunks:
        add(ch, "corpus chunk")
    for _ in range(6000 if q else 150000):
        add(sanitize(mutate(rng, rng.choice(chunks))), "mutated corpus chunk")
    for _ in range(4000 if q else 80000):
        add("".join(rng.choice(TOKENS) + rng.choice(["", " ", " ", "\n"]) for _ in range(rng.randint(1, 14))), "token sequence")
    for t in attribute_grid():
        add(t, "attribute literal grid")
    for t in operand_index_grid():
        add(t, "operand index grid")
    n_small = len(texts)
    for label, t in probes():
        add(t, f"probe: {label} ({len(t)} characters)")
    ctx.log(f"{len(texts)} texts ({len(chunks)} corpus chunks)")
    res = run_texts(texts)
    outcomes: dict[str, int] = {}
    for r in res:
        outcomes[r["out"] or "killed"] = outcomes.get(r["out"] or "killed", 0) + 1
    ctx.coverage["parser_outcomes"] = dict(sorted(outcomes.items(), key=lambda x: -x[1]))
    ctx.coverage["lexed_by_the_real_lexer"] = sum(1 for r in res if r["toks"])
    ctx.coverage["probes"] = len(texts) - n_small
    ctx.log(f"outcomes {ctx.coverage['parser_outcomes']}")
    # probes come in two sizes per shape: the CPU time per character must not grow with the size (quadratic behaviour that
    # still fits the absolute budget shows up here); times below half a second are not compared
    growth = [0] * len(texts)
    by_shape: dict[str, list[int]] = {}
    for k in range(n_small, len(texts)):
        by_shape.setdefault(what[k].split(" (")[0], []).append(k)
    for shape, ks in by_shape.items():
        if len(ks) != 2:
            continue
        a, b = sorted(ks, key=lambda k: len(texts[k]))
        ta, tb = res[a].get("cpu"), res[b].get("cpu")
        if ta is None or tb is None or tb < 0.25 or len(texts[b]) < 3 * len(texts[a]):
            continue
        growth[b] = int(100 * (tb / len(texts[b])) / (max(ta, 0.01) / len(texts[a])))
    ctx.coverage["probe_cost_growth_percent"] = {what[k].split(" (")[0][7:]: g for k, g in enumerate(growth) if g}
    cases = [{"text": [ord(c) for c in t], "toks": r["toks"], "out": r["out"], "slow": r["slow"], "growth": g} for t, r, g in zip(texts, res, growth)]
    # long probes: the judge needs only their outcome, not a model lexing of 20000 characters
    for k in range(n_small, len(cases)):
        cases[k]["toks"] = []
        if len(cases[k]["text"]) > 3000:
            cases[k]["text"] = cases[k]["text"][:1] if cases[k]["out"] != "ok" else [120]
    jr = casecheck.run_cases("lex/MLIRLexerCases.tla", cases, timeout=3300)
    VIOL = {"FailsOnlyWithDiagnostics", "TerminatesPromptly", "TimeProportionalToLength"}
    n_div = 0
    seen_sites: dict[tuple[str, str], int] = {}
    for idx, tail in jr.mismatches:
        clause = tail[0]
        r = res[idx]
        t = texts[idx]
        if clause in VIOL:
            key = (r["out"], r["site"]) if clause == "FailsOnlyWithDiagnostics" else ("slow", what[idx])
            seen_sites[key] = seen_sites.get(key, 0) + 1
            if seen_sites[key] > 3:
                continue
            shown = t if len(t) <= 300 else t[:120] + f" ... ({len(t)} characters)"
            ctx.violate(f"{what[idx]} {shown!r}: {clause} " + (f"({r['out']} at {r['site']})" if clause == "FailsOnlyWithDiagnostics" else f"(CPU time per character {growth[idx] / 100:.1f} times that of the same shape at a tenth of the length)" if clause == "TimeProportionalToLength" else f"(more than {budget(len(t)):.1f} s of CPU)"),
                        {"clause": clause, "exception": r["out"], "site": r["site"].split("|")[0], "enum_conversion": r["site"].endswith("|enum-conversion"), "text": t if len(t) <= 3000 else t[:3000], "length": len(t), "probe": what[idx] if what[idx].startswith("probe") else "",
                         "huge_dimension": bool(__import__("re").search(r"<\d{10,}x|x\d{10,}x", t))},
                        clause=clause)
        else:
            n_div += 1
            ctx.diverge(f"{what[idx]} {t[:200]!r}: {clause} (real tokens {r['toks'][-3:]}, outcome {r['out']})", clause=clause)
    ctx.coverage["internal_error_sites"] = {f"{k[0]} at {k[1]}": v for k, v in sorted(seen_sites.items(), key=lambda x: -x[1])[:40]}
    ctx.coverage["model_divergences"] = n_div
    ctx.cov_add("traces_validated_against_impl", len(cases))
    ctx.coverage["judge_states"] = jr.states
    ctx.coverage["evaluations"] = len(cases)
    ctx.coverage["distinct_nontrivial"] = len(set(texts))
    ctx.coverage["rule"] = "distinct = distinct texts lexed and parsed for real"
    ctx.assumptions += ["diagnostics are ParseError and VerifyException; every other exception class out of Parser.parse_module (or out of MLIRLexer.lex) is an internal error",
                        f"promptly = within {budget(0):.0f} s + 2 ms per character of user CPU time of the worker (ITIMER_VIRTUAL, default action: the kernel kills the worker, so a hang inside a regular expression is caught too)",
                        "non-ASCII characters other than the eight MLIRLexer.tla knows are replaced before use (the model needs Python's isalpha/isnumeric verdict for every character)",
                        "the parser itself is not modelled: its outcomes are recorded and judged, and tied to the lexer model by LexicalErrorIsRejected"]
