"""C17: every registered pass that succeeds leaves valid, printable IR.

Model: spec/ir/PassContract.tla - the ModulePass contract as a state machine (ApplyOk requires the post-state to be
valid again; ApplyRaised is reported failure) with the post-state predicate Post: verify() succeeded, the C01
pointer-walk predicate of IRProj.tla holds, no operand is an erased / detached value, no successor dangles, every
operand is defined in a region enclosing its user, the printed form parses back.  Binding C2S: the REAL passes run on
verified chunks of the repository's .mlir corpus (each pass on the inputs whose RUN line names it, with those options,
pass by pass through the RUN pipeline; plus a seeded sample of the cross product pass x foreign input with default
options and with option sets seen in RUN lines; plus schedule_space instances) and on generated func/arith/scf/cf
programs; each run is an event (outcome, verify flag, re-parse flag, projection) and TLC accepts or rejects the
recorded history (PassContractCases.tla)."""

from __future__ import annotations

import io
import re
from typing import Any

from .. import casecheck
from ..core import REPO, Ctx, Hang, time_limit

MAX_TLC_OPS = 60


def all_ctx(allow_unregistered: bool = False):
    from xdsl.context import Context
    from xdsl.dialects import get_all_dialects

    ctx = Context(allow_unregistered=allow_unregistered)
    for name, factory in get_all_dialects().items():
        ctx.register_dialect(name, factory)
    for d in _EXTRA_DIALECTS:
        ctx.load_dialect(d)
    return ctx


_EXTRA_DIALECTS: list[Any] = []


_RUN = re.compile(r"^\s*//\s*RUN:\s*(.*)$")


def run_pipelines(text: str) -> list[str]:
    """Pipeline strings of the xdsl-opt invocations in a file's RUN lines."""
    lines = []
    cur = ""
    for ln in text.splitlines():
        m = _RUN.match(ln)
        if not m:
            continue
        part = m.group(1).rstrip()
        if part.endswith("\\"):
            cur += part[:-1] + " "
            continue
        lines.append(cur + part)
        cur = ""
    out = []
    for ln in lines:
        for seg in ln.split("|"):
            if "xdsl-opt" not in seg:
                continue
            for m in re.finditer(r"(?:-p|--passes)[ =]+(?:'([^']*)'|\"([^\"]*)\"|(\S+))", seg):
                out.append(next(g for g in m.groups() if g is not None))
    return out


def parse_specs(pipeline: str):
    from xdsl.utils.arg_spec import parse_pipeline

    try:
        return list(parse_pipeline(pipeline))
    except BaseException:  # noqa: BLE001
        return []


def corpus_index(rng, max_files: int | None):
    """[(name, chunk text, [pipeline strings])] for chunks that parse and verify with registered ops only."""
    root = REPO / "tests" / "filecheck"
    files = sorted(root.rglob("*.mlir"))
    rng.shuffle(files)
    if max_files is not None:
        files = files[:max_files]
    out = []
    for f in files:
        try:
            text = f.read_text()
        except Exception:  # noqa: BLE001
            continue
        pipes = run_pipelines(text)
        for ci, chunk in enumerate(text.split("// -----")):
            if len(chunk) > 60_000:
                continue
            out.append((f"{f.relative_to(root)}#{ci}", chunk, pipes))
    return out


def parse_input(chunk: str):
    from xdsl.parser import Parser

    try:
        with time_limit(20.0):
            m = Parser(all_ctx(), chunk).parse_module()
            m.verify()
    except BaseException:  # noqa: BLE001
        return None
    return m


def prints_and_parses(module, generic: bool) -> tuple[bool, str]:
    from xdsl.parser import Parser
    from xdsl.printer import Printer

    try:
        with time_limit(30.0):
            buf = io.StringIO()
            Printer(stream=buf, print_generic_format=generic).print_op(module)
            text = buf.getvalue()
    except Hang:
        return False, "printing did not return within 30 s"
    except Exception as e:  # noqa: BLE001
        return False, f"printing raised {type(e).__name__}: {str(e)[:160]}"
    try:
        with time_limit(30.0):
            Parser(all_ctx(), text).parse_module()
    except Hang:
        return False, "parsing did not return within 30 s"
    except Exception as e:  # noqa: BLE001
        return False, f"{type(e).__name__}: {str(e)[:300]}"
    return True, ""


def instantiate(cls, spec):
    try:
        return cls.from_pass_spec(spec) if spec is not None else cls()
    except Exception:  # noqa: BLE001
        return None


PRINT_ERROR = [""]


def print_text(module, generic: bool = True) -> str | None:
    from xdsl.printer import Printer

    PRINT_ERROR[0] = ""
    try:
        with time_limit(30.0):
            buf = io.StringIO()
            Printer(stream=buf, print_generic_format=generic).print_op(module)
            return buf.getvalue()
    except Hang:
        PRINT_ERROR[0] = "printing did not return within 30 s"
    except BaseException as e:  # noqa: BLE001
        PRINT_ERROR[0] = f"printing raised {type(e).__name__}: {str(e)[:200]}"
    return None


def parses(text: str) -> tuple[bool, str]:
    from xdsl.parser import Parser

    try:
        with time_limit(30.0):
            Parser(all_ctx(), text).parse_module()
    except Hang:
        return False, "parsing did not return within 30 s"
    except BaseException as e:  # noqa: BLE001
        return False, f"{type(e).__name__}: {str(e)[:400]}"
    return True, ""


def observe(module, pass_obj, xctx, before_text: str) -> dict[str, Any]:
    """Apply one pass to `module` in place; return the event for PassContractCases plus diagnostics."""
    import contextlib

    from ..project import Universe

    try:
        with time_limit(30.0), contextlib.redirect_stdout(io.StringIO()), contextlib.redirect_stderr(io.StringIO()):
            pass_obj.apply(xctx, module)
    except Hang:
        return {"outcome": "hang"}
    except BaseException as e:  # noqa: BLE001   any exception counts as reported failure
        if isinstance(e, (KeyboardInterrupt, SystemExit)):
            raise
        return {"outcome": "raised", "error": f"{type(e).__name__}: {str(e)[:120]}"}   # incl. MemoryError under the worker's address-space limit
    ev: dict[str, Any] = {"outcome": "ok", "verified": 1, "reparsed": 1, "examined": 0, "root": 0, "c": {"ops": [], "blocks": [], "regions": [], "vals": []}}
    try:
        with time_limit(30.0):
            module.verify()
    except Hang:
        ev["undecided"] = "verify() did not return within 30 s"
    except BaseException as e:  # noqa: BLE001
        ev["verified"], ev["verify_error"] = 0, f"{type(e).__name__}: {str(e)[:400]}"
    text = print_text(module)
    perr = PRINT_ERROR[0]
    ev["text"] = text
    if text is not None and text == before_text and ev["verified"]:
        ev["unchanged"] = 1     # same text as the (verified, re-parseable) input: nothing new to examine
        return ev
    nops = sum(1 for _ in module.walk())
    ev["nops"] = nops
    if nops <= MAX_TLC_OPS:
        try:
            u = Universe()
            u.register_tree(module)
            ev["c"] = u.project()
            ev["root"] = u.op(module)
            ev["examined"] = 1
        except Exception as e:  # noqa: BLE001
            ev["project_error"] = f"{type(e).__name__}: {str(e)[:120]}"
    if ev["verified"]:
        if text is None and "did not return" in perr:
            ev["undecided"] = perr
        elif text is None:
            ev["reparsed"], ev["reparse_error"] = 0, perr
        else:
            ok, err = parses(text)
            if not ok and "did not return" in err:
                ev["undecided"] = err
            elif not ok:
                ev["reparsed"], ev["reparse_error"] = 0, err
            else:
                ctext = print_text(module, generic=False)
                ok2, err2 = parses(ctext) if ctext is not None else (False, "printing raised")
                if not ok2:
                    ev["custom_reparse_error"] = err2
    return ev


JUDGE_FIELDS = ("outcome", "verified", "reparsed", "examined", "root", "c")
_CLASSES: dict[str, Any] = {}


def signature(clause: str, detail: str) -> str:
    """Defect class of a violation: the clause plus the diagnostic with names, numbers and positions removed."""
    lines = [ln.strip() for ln in detail.splitlines() if ln.strip()]
    msg = ""
    if lines:
        # parse errors: the last line carries the message; verify errors: the first
        msg = lines[-1] if clause == "PrintedFormParsesBack" else " / ".join(lines[:2])
    msg = re.sub(r"<unknown>:\d+:\d+", "", msg)
    msg = re.sub(r"%[\w.$-]+", "%v", msg)
    msg = re.sub(r"\^[\w.$-]+", "^b", msg)
    msg = re.sub(r"@[\w.$-]+", "@s", msg)
    msg = re.sub(r"'[^']*'|\"[^\"]*\"", "'..'", msg)
    msg = re.sub(r"\d+", "N", msg)
    return (clause + ": " + msg.strip())[:200]


def idiom_family() -> list[str]:
    out = []
    bins = ["addi", "subi", "muli", "andi", "ori", "xori", "shli", "shrsi", "shrui", "divsi", "divui", "remsi", "remui", "minsi", "maxsi", "minui", "maxui"]
    for t in ("i32", "index", "i1", "i64"):
        for op in bins:
            for c in (0, 1, -1, 2):
                if t == "i1" and c not in (0, 1):
                    continue
                for side in (0, 1):
                    a, b = ("%c", "%x") if side == 0 else ("%x", "%c")
                    out.append(f"func.func @f(%x : {t}, %y : {t}) -> {t} {{\n  %c = arith.constant {c} : {t}\n  %r = arith.{op} {a}, {b} : {t}\n  %s = arith.addi %r, %y : {t}\n  func.return %s : {t}\n}}")
            out.append(f"func.func @f(%x : {t}) -> {t} {{\n  %r = arith.{op} %x, %x : {t}\n  func.return %r : {t}\n}}")
            # both operands constant (folders): sign-bit mixes and boundaries
            w = {"i32": 32, "i64": 64, "i1": 1, "index": 64}[t]
            hi, lo = (1 << (w - 1)) - 1, -(1 << (w - 1))
            pairs = [(-1, 1), (1, -1), (0, -1), (-1, 0), (lo, 1), (hi, lo), (2, 3), (-2, -3)] if w > 1 else [(0, 1), (1, 0), (1, 1)]
            for (a, b) in pairs:
                out.append(f"func.func @f(%y : {t}) -> {t} {{\n  %a = arith.constant {a} : {t}\n  %b = arith.constant {b} : {t}\n  %r = arith.{op} %a, %b : {t}\n"
                           f"  %s = arith.xori %r, %y : {t}\n  func.return %s : {t}\n}}")
        for (a, b) in ((1, 0), (0, 1), (1, 1), (0, 0), (2, 3)):
            if t == "i1" and (a > 1 or b > 1):
                continue
            out.append(f"func.func @f(%p : i1, %y : {t}) -> {t} {{\n  %a = arith.constant {a} : {t}\n  %b = arith.constant {b} : {t}\n  %s = arith.select %p, %a, %b : {t}\n"
                       f"  %r = arith.addi %s, %y : {t}\n  func.return %r : {t}\n}}")
            out.append(f"func.func @f(%u : {t}, %v : {t}) -> {t} {{\n  %p = arith.cmpi slt, %u, %v : {t}\n  %a = arith.constant {a} : {t}\n  %b = arith.constant {b} : {t}\n"
                       f"  %s = arith.select %p, %a, %b : {t}\n  %r = arith.muli %s, %u : {t}\n  func.return %r : {t}\n}}")
        for pred in ("eq", "ne", "slt", "sle", "ult", "uge"):
            out.append(f"func.func @f(%x : {t}) -> i1 {{\n  %r = arith.cmpi {pred}, %x, %x : {t}\n  func.return %r : i1\n}}")
        out.append(f"func.func @f(%p : i1, %x : {t}) -> {t} {{\n  %r = arith.select %p, %x, %x : {t}\n  func.return %r : {t}\n}}")
        # the same pure expression in sibling regions / in a region and after it / loop invariant
        for op in ("addi", "muli", "xori"):
            out.append(f"func.func @f(%p : i1, %x : {t}, %y : {t}) -> {t} {{\n  %r = scf.if %p -> ({t}) {{\n    %a = arith.{op} %x, %y : {t}\n    scf.yield %a : {t}\n  }} else {{\n"
                       f"    %b = arith.{op} %x, %y : {t}\n    %c = arith.subi %b, %x : {t}\n    scf.yield %c : {t}\n  }}\n  func.return %r : {t}\n}}")
            out.append(f"func.func @f(%p : i1, %x : {t}, %y : {t}) -> {t} {{\n  %r = scf.if %p -> ({t}) {{\n    %a = arith.{op} %x, %y : {t}\n    scf.yield %a : {t}\n  }} else {{\n"
                       f"    scf.yield %x : {t}\n  }}\n  %b = arith.{op} %x, %y : {t}\n  %s = arith.addi %r, %b : {t}\n  func.return %s : {t}\n}}")
            out.append(f"func.func @f(%x : {t}, %y : {t}) -> {t} {{\n  %lb = arith.constant 0 : index\n  %ub = arith.constant 4 : index\n  %st = arith.constant 1 : index\n"
                       f"  %r = scf.for %i = %lb to %ub step %st iter_args(%acc = %x) -> ({t}) {{\n    %inv = arith.{op} %x, %y : {t}\n    %n = arith.addi %acc, %inv : {t}\n    scf.yield %n : {t}\n  }}\n"
                       f"  func.return %r : {t}\n}}")
        out.append(f"func.func @f(%k : index, %x : {t}, %y : {t}) -> {t} {{\n  %r = scf.index_switch %k -> {t}\n  case 0 {{\n    %a = arith.addi %x, %y : {t}\n    scf.yield %a : {t}\n  }}\n"
                   f"  case 1 {{\n    %b = arith.addi %x, %y : {t}\n    scf.yield %b : {t}\n  }}\n  default {{\n    %c = arith.addi %x, %y : {t}\n    scf.yield %c : {t}\n  }}\n  func.return %r : {t}\n}}")
    return out


def cf_passthrough_cfg(rng) -> str:
    """A func with 4-6 blocks; some blocks contain only a branch; block arguments are forwarded, dropped, or read in blocks they
    dominate.  The CFG is drawn first; a value is only used where its definition dominates the use (valid SSA)."""
    nb = rng.randint(4, 6)
    nargs = [0] + [rng.randint(0, 2) for _ in range(nb - 1)]
    succ: dict[int, list[int]] = {}
    kind: dict[int, str] = {}
    for b in range(nb - 1):
        targets = [t for t in range(1, nb) if t != b or rng.random() < 0.2]
        if rng.random() < 0.5:
            kind[b], succ[b] = "br", [rng.choice(targets)]
        else:
            kind[b], succ[b] = "cond", [rng.choice(targets), rng.choice(targets)]
    succ[nb - 1] = []
    # dominators (iterative); unreachable blocks keep "all blocks"
    preds = {b: [p for p in range(nb) if b in succ[p]] for b in range(nb)}
    dom = {b: set(range(nb)) for b in range(nb)}
    dom[0] = {0}
    changed = True
    while changed:
        changed = False
        for b in range(1, nb):
            ps = [dom[p] for p in preds[b]]
            new = ({b} | set.intersection(*ps)) if ps else set(range(nb))
            if new != dom[b]:
                dom[b], changed = new, True
    reach = {0}
    frontier = [0]
    while frontier:
        x = frontier.pop()
        for t in succ[x]:
            if t not in reach:
                reach.add(t)
                frontier.append(t)
    defs: dict[int, list[str]] = {b: [f"%b{b}a{j}" for j in range(nargs[b])] for b in range(nb)}
    passthrough = {b: b > 0 and kind.get(b) == "br" and rng.random() < 0.6 for b in range(nb)}
    body: dict[int, list[str]] = {b: [] for b in range(nb)}

    def visible(b):
        out = ["%x", "%y"]
        for d in sorted(dom[b] if b in reach else {b}):
            if d != b:
                out += defs[d]
        return out + defs[b]

    order = sorted(range(nb), key=lambda b: len(dom[b]) if b in reach else 99)     # dominators first, so that their values exist
    for b in order:
        if not passthrough[b]:
            for j in range(rng.randint(0, 2)):
                vs = visible(b)
                v = f"%v{b}_{j}"
                body[b].append(f"    {v} = arith.{rng.choice(['addi', 'muli', 'xori'])} {rng.choice(vs)}, {rng.choice(vs)} : i32")
                defs[b].append(v)

    def branch_args(t, vs):
        return "(" + ", ".join(rng.choice(vs) for _ in range(nargs[t])) + " : " + ", ".join(["i32"] * nargs[t]) + ")" if nargs[t] else ""

    lines = []
    for b in range(nb):
        if b:
            lines.append(f"  ^bb{b}" + ("(" + ", ".join(f"%b{b}a{j}: i32" for j in range(nargs[b])) + ")" if nargs[b] else "") + ":")
        lines += body[b]
        vs = visible(b)
        if b == nb - 1:
            lines.append(f"    func.return {rng.choice(vs)} : i32")
        elif kind[b] == "br":
            lines.append(f"    cf.br ^bb{succ[b][0]}{branch_args(succ[b][0], vs)}")
        else:
            lines.append(f"    %c{b} = arith.cmpi {rng.choice(['slt', 'eq', 'ne'])}, {rng.choice(vs)}, {rng.choice(vs)} : i32")
            lines.append(f"    cf.cond_br %c{b}, ^bb{succ[b][0]}{branch_args(succ[b][0], vs)}, ^bb{succ[b][1]}{branch_args(succ[b][1], vs)}")
    return "func.func @f(%x : i32, %y : i32) -> i32 {\n" + "\n".join(lines) + "\n}\n"


def _limit_memory():
    import resource

    lim = 6 * 1024 ** 3     # a runaway pass fails with MemoryError inside its worker instead of taking the machine down
    resource.setrlimit(resource.RLIMIT_AS, (lim, lim))


def run_history(task):
    """task = (name, chunk, plan [(pass name, spec|None)], kind) -> dict or None.  Runs in a worker process."""
    name, chunk, plan, kind = task
    out: dict[str, Any] = {"name": name, "kind": kind, "events": [], "metas": [], "chunk": chunk, "stats": {}, "diverge": []}
    st = out["stats"]

    def bump(k):
        st[k] = st.get(k, 0) + 1

    m = parse_input(chunk) if isinstance(chunk, str) else chunk       # in-process tasks may hand over a module object
    if not isinstance(chunk, str):
        out["chunk"] = ""
    if m is None:
        bump("input_rejected")
        return out
    before = print_text(m)
    if before is None or not parses(before)[0]:   # precondition: the input itself prints and re-parses
        bump("input_rejected")
        return out
    xctx = all_ctx()
    for pname, spec in plan:
        cls = _CLASSES.get(pname)
        if cls is None:
            break
        obj = instantiate(cls, spec)
        if obj is None:
            bump("pass_not_constructible_with_these_options")
            break
        ev = observe(m, obj, xctx, before)
        bump("applied:" + pname)
        if ev["outcome"] == "hang":
            bump("hang")
            out["diverge"].append(("pass did not return within 30 s", {"pass_name": pname, "options": str(spec) if spec else "", "input": name}))
            break
        bump(ev["outcome"])
        if ev.get("unchanged"):
            bump("unchanged")
        if ev.get("undecided"):
            bump("undecided_timeout")
            out["diverge"].append(("post-state not decided: " + ev["undecided"], {"pass_name": pname, "input": name}))
        if ev.get("custom_reparse_error"):
            bump("custom_format_only_reparse_failures")
            out["diverge"].append(("output parses back in generic form but not in custom form (custom formats are C05: not applicable)",
                                   {"pass_name": pname, "input": name, "error": ev["custom_reparse_error"][:160]}))
        out["events"].append({k: ev[k] for k in JUDGE_FIELDS} if ev["outcome"] == "ok" else {"outcome": "raised"})
        out["metas"].append({"pass": pname, "options": str(spec) if spec is not None else "", "input": name, "kind": kind,
                             "verify_error": ev.get("verify_error", ""), "reparse_error": ev.get("reparse_error", ""), "nops": ev.get("nops", 0),
                             "error": ev.get("error", ""), "ok": ev["outcome"] == "ok", "examined": ev.get("examined", 0)})
        if ev["outcome"] != "ok" or not ev["verified"] or not ev["reparsed"]:
            break
        before = ev.get("text") or before
    return out


def run(ctx: Ctx):
    import multiprocessing as mp

    from xdsl.transforms import get_all_passes

    ctx.level = "exploration"
    q = ctx.quick
    rng = ctx.rng("c17")
    allp = get_all_passes()
    for name, factory in allp.items():
        try:
            _CLASSES[name] = factory()
        except Exception as e:  # noqa: BLE001
            ctx.diverge("pass class cannot be imported", pass_name=name, error=str(e)[:100])
    classes = _CLASSES
    index = corpus_index(ctx.rng("corpus"), None)
    seen_specs: dict[str, dict[str, Any]] = {n: {} for n in classes}   # option sets seen in RUN lines, per pass
    for _n, _t, pipes in index:
        for p in pipes:
            for s in parse_specs(p):
                if s.name in seen_specs:
                    seen_specs[s.name].setdefault(str(s), s)
    tasks: list[tuple] = []
    # 1. every pass on the inputs written for it, through the RUN pipeline pass by pass
    own_budget = 10**9
    own_count: dict[str, int] = {}
    for name, chunk, pipes in index:
        for p in pipes:
            specs = [s for s in parse_specs(p) if s.name in classes]
            if not specs or all(own_count.get(s.name, 0) >= own_budget for s in specs):
                continue
            for s in specs:
                own_count[s.name] = own_count.get(s.name, 0) + 1
            tasks.append((name, chunk, [(s.name, s) for s in specs], "own input: " + "|".join(s.name for s in specs)))
    n_own = len(tasks)
    # 2. the cross product pass x input: thorough = all of it (default options and every option set seen in a RUN line), quick = a seeded sample
    pool = [(n, c) for (n, c, _p) in index if len(c) < 12000]
    names = sorted(classes)
    if q:
        for k in range(20000):
            pname = names[k % len(names)]
            name, chunk = rng.choice(pool)
            opts = list(seen_specs[pname].values())[:4]
            spec = rng.choice(opts) if opts and rng.random() < 0.5 else None
            tasks.append((name, chunk, [(pname, spec)], "foreign input"))
    else:
        for name, chunk in pool:
            for pname in names:
                for spec in [None] + list(seen_specs[pname].values())[:4]:
                    tasks.append((name, chunk, [(pname, spec)], "cross product"))
    n_for = len(tasks) - n_own
    # 3. generated programs through short random pipelines
    from . import progs

    gen_passes = [p for p in ("canonicalize", "cse", "dce", "convert-scf-to-cf", "constant-fold-interp", "licm", "scf-for-loop-range-folding",
                              "scf-for-loop-flatten", "control-flow-hoist", "test-constant-folding", "lift-arith-to-linalg",
                              "arith-add-fastmath", "convert-arith-to-riscv", "convert-func-to-riscv-func", "function-persist-arg-names",
                              "convert-scf-to-riscv-scf", "convert-arith-to-x86", "convert-func-to-x86-func", "reconcile-unrealized-casts") if p in classes]
    for k in range(400 if q else 4000):
        prng = ctx.rng(f"gen{k}")
        text, _w, _r = progs.gen_program(prng, allow=progs.INTERP_OPS, control=prng.choice(["none", "scf", "cf", "scf"]), select=prng.random() < 0.5,
                                         effects=prng.random() < 0.3)
        plan = [(prng.choice(gen_passes), None) for _ in range(prng.choice([1, 2, 3]))]
        tasks.append((f"generated#{k}", text, plan, "generated program"))
    # 3b. idiom family: the shapes generic rewrites look for (constants 0/1/-1/2 on either side, equal operands, bool-to-int selects,
    #     the same pure expression in sibling regions, loop-invariant code), each through every generic pass
    generic = [p for p in ("canonicalize", "cse", "dce", "licm", "constant-fold-interp", "convert-scf-to-cf", "control-flow-hoist", "test-constant-folding",
                           "scf-for-loop-range-folding", "scf-for-loop-flatten", "lift-arith-to-linalg", "arith-add-fastmath") if p in classes]
    fam = idiom_family()
    frng = ctx.rng("idioms")
    if q:
        fam = frng.sample(fam, min(len(fam), 500))
    for k, text in enumerate(fam):
        for pname in generic if not q else frng.sample(generic, 3) + ["canonicalize", "cse"]:
            tasks.append((f"idiom#{k}", text, [(pname, None)], "idiom family"))
    # 3c. cf CFGs with pass-through blocks (only a branch) whose arguments are forwarded, dropped or read in other blocks
    crng = ctx.rng("cfgs")
    for k in range(200 if q else 3000):
        text = cf_passthrough_cfg(crng)
        for pname in ("canonicalize", "dce", "cse"):
            tasks.append((f"cfg#{k}", text, [(pname, None)], "cf pass-through family"))
    with mp.get_context("fork").Pool(16, maxtasksperchild=400, initializer=_limit_memory) as poolx:
        results = poolx.map(run_history, tasks, chunksize=8)
    # 4. schedule_space instances on a sample (in-process: instances are not picklable in general)
    n_sched = 0
    for k in range(10 if q else 400):
        name, chunk = rng.choice(pool)
        m = parse_input(chunk)
        if m is None:
            continue
        pname = rng.choice(names)
        try:
            import contextlib

            with time_limit(60.0), contextlib.redirect_stdout(io.StringIO()):
                insts = classes[pname].schedule_space(all_ctx(), m)
        except BaseException:  # noqa: BLE001
            continue
        for inst in insts[:3]:
            try:
                spec = inst.pipeline_pass_spec()
            except Exception:  # noqa: BLE001
                continue
            n_sched += 1
            results.append(run_history((name, chunk, [(pname, spec)], "schedule_space")))
    stats: dict[str, int] = {}
    histories = []
    for r in results:
        for k2, v in r["stats"].items():
            stats[k2] = stats.get(k2, 0) + v
        for what, kw in r["diverge"]:
            ctx.diverge(what, **kw)
        if r["events"]:
            histories.append(r)
    applied = {k2[8:]: v for k2, v in stats.items() if k2.startswith("applied:")}
    outcome_stats = {k2: v for k2, v in stats.items() if not k2.startswith("applied:")}
    ctx.log(f"{len(tasks)} tasks ({n_own} own-input pipelines, {n_for} pass x input, {n_sched} schedule_space) -> {len(histories)} module histories, "
            f"{sum(len(h['events']) for h in histories)} pass applications; {outcome_stats}")
    # unchanged or raised-only histories need no judge
    judged = [h for h in histories if any(e.get("examined") or e.get("verified") == 0 or e.get("reparsed") == 0 for e in h["events"])]
    res = casecheck.run_cases("ir/PassContractCases.tla", [{"events": h["events"]} for h in judged], min_per_shard=20, timeout=3300)
    seen = set()
    for idx, tail in res.mismatches:
        clause, k = tail[0], int(tail[1])
        h = judged[idx]
        m = h["metas"][k - 1]
        detail = m["verify_error"] if clause == "ModuleVerifies" else m["reparse_error"] if clause == "PrintedFormParsesBack" else ""
        sig = signature(clause, detail)
        before = [x["pass"] for x in h["metas"][:k - 1]]
        if (m["pass"], sig) in seen:    # one report per pass and defect class
            ctx.cov_add("further_instances_of_reported_classes", 1)
            continue
        seen.add((m["pass"], sig))
        ctx.violate(f"pass {m['pass']}{{{m['options']}}} on {m['input']} ({h['kind']}{', after ' + ','.join(before) if before else ''}) returned normally but: {clause} {detail}",
                    {"clause": clause, "pass": m["pass"], "pass_clause": m["pass"] + " / " + clause, "options": m["options"], "input": m["input"], "kind": h["kind"], "after_passes": before,
                     "signature": sig, "detail": detail[:400], "chunk": h["chunk"][:3000]}, clause=clause)
    applications = sum(len(h["events"]) for h in histories)
    ok_passes = {m["pass"] for h in histories for m in h["metas"] if m["ok"]}
    ctx.coverage.update({"evaluations": applications, "distinct_nontrivial": len({(m["pass"], m["options"], m["input"]) for h in histories for m in h["metas"]}),
                         "module_histories": len(histories), "own_input_tasks": n_own, "pass_x_input_tasks": n_for, "schedule_space_runs": n_sched,
                         "passes_registered": len(allp), "passes_applied": len(applied), "passes_returning_normally_at_least_once": len(ok_passes),
                         "outcomes": outcome_stats, "histories_judged_by_TLC": len(judged),
                         "post_states_structure_examined_by_TLC": sum(1 for h in judged for e in h["events"] if e.get("examined")),
                         "judge_states": res.states,
                         "rule": "own inputs: RUN-line pipelines applied pass by pass (all of them); pass x input: thorough = every registered pass x every corpus chunk "
                                 "< 12 kB x (default options + <= 4 option sets seen in RUN lines), quick = 20000 seeded samples of it; generated func/arith/scf/cf programs through "
                                 "random 1-3 pass pipelines; distinct = distinct (pass, options, input)"})
    ctx.coverage["passes_never_returning_normally"] = sorted(set(classes) - ok_passes)
    if histories:
        h = histories[0]
        ctx.sample({"input": h["name"], "passes": [m["pass"] for m in h["metas"]], "outcomes": [e["outcome"] for e in h["events"]]})
    ctx.assumptions += ["'printed form parses back' is decided on the generic format; outputs that re-parse generically but not in custom syntax are recorded as divergences (custom formats: C05, not applicable)",
                        f"TLC examines the structure of changed post-states with <= {MAX_TLC_OPS} ops; larger ones are held to verify()/re-parse only; a post-state whose generic text equals the "
                        "verified, re-parseable input's is not re-examined",
                        "any exception is reported failure; a pass that does not return within 30 s is a divergence, not a violation",
                        "inputs are corpus chunks that parse with registered ops, verify, and themselves print and re-parse",
                        "known findings are keyed by (pass, failing clause); the diagnostics seen are listed in the finding"]
