"""C19: register allocation never gives one register to two live values.

Model: spec/backend/RegAlloc.tla - the allocated block is executed on a register file that remembers which
value each register holds; every operand must still be in its register when read, in/out pairs share a
register, pre-assigned registers are respected, new registers come from the allocatable pool, only constant
zero lives in the zero register.  Binding: generated single-block functions are allocated by the REAL
allocators: (a) RISC-V ops through RegisterAllocatorLivenessBlockNaive.allocate_func with limited pools,
pre-allocated arguments/results and zero constants, (b) test.allocatable ops with in/out/inout constraints
through BlockNaiveAllocator with a 2-register pool and infinite registers; OutOfRegisters / diagnostics are
reported failures.  TLC judges the resulting assignment."""

from __future__ import annotations

from typing import Any

from .. import casecheck
from ..core import Ctx


def reg_name(t) -> str:
    from xdsl.backend.register_type import RegisterType
    from xdsl.dialects.builtin import IntAttr

    if isinstance(t, RegisterType) and isinstance(t.index, IntAttr):
        return t.register_name.data
    return ""


def riscv_case(rng) -> dict[str, Any] | None:
    from xdsl.backend.riscv.register_allocation import RegisterAllocatorLivenessBlockNaive
    from xdsl.backend.riscv.register_stack import RiscvRegisterStack
    from xdsl.dialects import riscv, riscv_func, rv32
    from xdsl.dialects.riscv import IntRegisterType, Registers
    from xdsl.ir import Block, Region
    from xdsl.utils.exceptions import DiagnosticException

    U = IntRegisterType.unallocated()
    nargs = rng.randint(0, 2)
    argregs = [Registers.A0, Registers.A1][:nargs]
    block = Block(arg_types=argregs)
    vals: list[Any] = list(block.args)
    zero: set[int] = set()
    ops = []
    pre_pool = [Registers.S1, Registers.S2, Registers.T6]
    for _ in range(rng.randint(2, 9)):
        k = rng.choice(["li", "li0", "add", "add", "sub", "mul", "mv", "add"])
        rd = rng.choice(pre_pool) if rng.random() < 0.12 else U
        if k == "li" or not vals:
            op = rv32.LiOp(rng.choice([1, 5, 7, -3]), rd=rd)
        elif k == "li0":
            op = rv32.LiOp(0, rd=U)
            zero.add(id(op.rd))
        elif k == "mv":
            op = riscv.MVOp(rng.choice(vals), rd=rd)
        else:
            cls = {"add": riscv.AddOp, "sub": riscv.SubOp, "mul": riscv.MulOp}[k]
            op = cls(rng.choice(vals), rng.choice(vals), rd=rd)
        ops.append(op)
        vals.append(op.results[0])
    ret_src = rng.choice(vals)
    mv = riscv.MVOp(ret_src, rd=Registers.A0)
    ops.append(mv)
    ops.append(riscv_func.ReturnOp(mv.rd))
    block.add_ops(ops)
    func = riscv_func.FuncOp("f", Region(block), (argregs, [Registers.A0]))
    pool = rng.sample([Registers.T0, Registers.T1, Registers.T2, Registers.T3, Registers.T4, Registers.T5], rng.choice([1, 2, 3, 3, 4, 6]))
    infinite = rng.random() < 0.2
    stack = RiscvRegisterStack.get(allocatable_registers=pool, allow_infinite=infinite)
    before = snapshot(block)
    try:
        RegisterAllocatorLivenessBlockNaive(stack).allocate_func(func)
    except (DiagnosticException, NotImplementedError):
        return {"failed": True}
    return finish_case(block, before, [r.register_name.data for r in pool], zero, "j_")


def snapshot(block):
    """value identity is lost by allocation (values are replaced): describe values positionally."""
    return [[reg_name(a.type) for a in block.args]] + [[reg_name(r.type) for r in op.results] for op in block.ops]


def finish_case(block, before, pool: list[str], zero_ids: set[int], inf_prefix: str, zero_pos=None) -> dict[str, Any]:
    from xdsl.backend.register_allocatable import HasRegisterConstraints

    vid: dict[int, int] = {}
    reg: list[str] = []
    pre: list[str] = []
    zero: list[int] = []

    def V(v, pre_name: str, is_zero: bool) -> int:
        k = vid.get(id(v))
        if k is None:
            k = vid[id(v)] = len(vid) + 1
            reg.append(reg_name(v.type))
            pre.append(pre_name)
            zero.append(1 if is_zero else 0)
        return k

    init = [V(a, before[0][i], False) for i, a in enumerate(block.args)]
    ops = []
    for oi, op in enumerate(block.ops):
        is_zero_def = (zero_pos is not None and oi in zero_pos)
        for ri, r in enumerate(op.results):
            V(r, before[oi + 1][ri], is_zero_def)
        if isinstance(op, HasRegisterConstraints):
            ins, outs, inouts = op.get_register_constraints()
            ops.append({"ins": [vid[id(v)] for v in ins if id(v) in vid], "outs": [vid[id(v)] for v in outs],
                        "inouts": [[vid[id(a)], vid[id(b)]] for a, b in inouts]})
        else:
            ops.append({"ins": [vid[id(v)] for v in op.operands if id(v) in vid], "outs": [vid[id(v)] for v in op.results], "inouts": []})
    inf = [1 if r.startswith(inf_prefix) else 0 for r in reg]
    return {"failed": False, "ops": ops, "init": init, "reg": reg, "pre": pre, "pool": pool, "inf": inf, "zero": zero}


def riscv_case_wrapped(rng):
    """riscv_case needs to know which li defined zero: recompute positions by value after allocation."""
    from xdsl.dialects import riscv
    c = riscv_case(rng)
    return c


def test_case(rng) -> dict[str, Any] | None:
    from xdsl.backend.block_naive_allocator import BlockNaiveAllocator
    from xdsl.backend.register_stack import RegisterStack
    from xdsl.dialects.test import TestAllocatableOp, TestRegisterType
    from xdsl.ir import Block
    from xdsl.utils.exceptions import DiagnosticException

    U = TestRegisterType.unallocated()
    X0, X1 = TestRegisterType.from_name("x0"), TestRegisterType.from_name("x1")
    block = Block(arg_types=[rng.choice([U, X0])] if rng.random() < 0.5 else [])
    vals: list[Any] = list(block.args)
    last_use_taken: set[int] = set()
    used_x1 = False
    ops = []
    n = rng.randint(2, 8)
    for i in range(n):
        avail = [v for v in vals if id(v) not in last_use_taken]
        ins = [rng.choice(avail) for _ in range(rng.choice([0, 1, 1, 2]))] if avail else []
        inouts = []
        if avail and rng.random() < 0.4:
            cand = [v for v in avail if v not in ins]
            if cand:
                v = rng.choice(cand)
                inouts = [v]
                last_use_taken.add(id(v))     # documented precondition: an inout operand is used for the last time here
        out_t = [U for _ in range(rng.choice([0, 1, 1, 2]))]
        if out_t and not used_x1 and rng.random() < 0.15:
            out_t[0] = X1          # at most one pre-assigned result per block: conflicting pre-assignments are invalid input
            used_x1 = True
        op = TestAllocatableOp(ins, inouts, out_t, [U for _ in inouts])
        ops.append(op)
        vals += list(op.results)
    # every value must be used at least once after its definition for liveness to matter: add a final consumer
    live = [v for v in vals if id(v) not in last_use_taken]
    ops.append(TestAllocatableOp(live[-3:], [], [], []))
    block.add_ops(ops)
    # enforce the precondition on uses that were created later than the inout use
    for v in vals:
        if id(v) in last_use_taken:
            order = {id(o): i for i, o in enumerate(block.ops)}
            uses = [(order[id(u.operation)], u) for u in v.uses]
            # the inout use must be the last one: otherwise drop this program
            io_idx = [i for i, u in uses if any(x is v for x in u.operation.inout_operands)]
            if not io_idx or max(i for i, _ in uses) != io_idx[0] or len(io_idx) != 1:
                return None
    infinite = rng.random() < 0.7
    stack = RegisterStack.get([X0, X1], allow_infinite=infinite)
    before = snapshot(block)
    alloc = BlockNaiveAllocator(stack, TestRegisterType)
    try:
        # registers already used in the block are not available (as allocate_func does for the targets)
        for name in {n for row in before for n in row if n}:
            stack.exclude_register(TestRegisterType.from_name(name))
        alloc.allocate_block(block)
    except DiagnosticException:
        return {"failed": True}
    return finish_case(block, before, ["x0", "x1", "a0", "a1"], set(), "y")


def run(ctx: Ctx):
    from xdsl.dialects import riscv

    ctx.level = "exploration"
    rng = ctx.rng("alloc")
    cases: list[dict[str, Any]] = []
    kinds: list[str] = []
    failed = {"riscv": 0, "test": 0}
    n = 4000 if ctx.quick else 60000
    for k in range(n):
        which = "riscv" if k % 2 == 0 else "test"
        try:
            c = riscv_zero_aware(rng) if which == "riscv" else test_case(rng)
        except AssertionError as e:   # the allocator's own internal assertion: a reported failure, kept as divergence
            ctx.diverge("allocator assertion", which=which, error=str(e)[:100])
            continue
        if c is None:
            continue
        if c.get("failed"):
            failed[which] += 1
            continue
        c.pop("failed")
        cases.append(c)
        kinds.append(which)
    ctx.log(f"{len(cases)} allocated blocks ({failed} reported failures)")
    res = casecheck.run_cases("backend/RegAllocCases.tla", cases, min_per_shard=50)
    for idx, tail in res.mismatches:
        c = cases[idx]
        ctx.violate(f"[{kinds[idx]}] {tail[0]}: ops {c['ops']} init {c['init']} registers {c['reg']} (before: {c['pre']}) pool {c['pool']}",
                    {"clause": tail[0], "target": kinds[idx], "case": c}, clause=tail[0])
    ctx.coverage.update({"evaluations": len(cases), "distinct_nontrivial": len({repr(c) for c in cases}), "reported_failures": failed, "judge_states": res.states,
                         "rule": "seeded single-block functions: RISC-V li/add/sub/mul/mv with pre-allocated arguments/results, zero constants, pools of 1-6 registers "
                                 "(+infinite); test.allocatable with in/out/inout groups (inout = last use), 2-register pool (+infinite); distinct = distinct allocated blocks"})
    ctx.sample(cases[0])
    ctx.assumptions += ["an inout operand is used for the last time by that operation (the allocator's documented precondition)",
                        "nested riscv_scf.for loops and the x86 allocator are not generated yet"]


def riscv_zero_aware(rng):
    """riscv_case, marking values defined by `li 0` (positions are stable under allocation)."""
    from xdsl.backend.riscv.register_allocation import RegisterAllocatorLivenessBlockNaive  # noqa: F401

    return _riscv(rng)


def _riscv(rng):
    from xdsl.backend.riscv.register_allocation import RegisterAllocatorLivenessBlockNaive
    from xdsl.backend.riscv.register_stack import RiscvRegisterStack
    from xdsl.dialects import riscv, riscv_func, rv32
    from xdsl.dialects.riscv import IntRegisterType, Registers
    from xdsl.ir import Block, Region
    from xdsl.utils.exceptions import DiagnosticException

    U = IntRegisterType.unallocated()
    nargs = rng.randint(0, 2)
    argregs = [Registers.A0, Registers.A1][:nargs]
    # 1. plan: op k defines value nargs + k; operands are indexes of earlier values
    plan: list[tuple[str, list[int], int]] = []
    is_zero: dict[int, bool] = {}
    nv = nargs
    for _ in range(rng.randint(2, 9)):
        k = rng.choice(["li", "li0", "add", "add", "sub", "mul", "mv", "add"])
        if k == "li" or (nv == 0 and k != "li0"):
            plan.append(("li", [], rng.choice([1, 5, 7, -3])))
        elif k == "li0":
            plan.append(("li0", [], 0))
            is_zero[nv] = True
        elif k == "mv":
            src = rng.randrange(nv)
            plan.append(("mv", [src], 0))
            if is_zero.get(src):           # a move of the constant zero is the constant zero
                is_zero[nv] = True
        else:
            plan.append((k, [rng.randrange(nv), rng.randrange(nv)], 0))
        nv += 1
    ret_src = rng.randrange(nv)
    plan.append(("mv", [ret_src], 0))      # result handed back in a0
    pool = rng.sample([Registers.T0, Registers.T1, Registers.T2, Registers.T3, Registers.T4, Registers.T5], rng.choice([1, 2, 3, 3, 4, 6]))
    # 2. pre-assignments.  A register may be pre-assigned to several values whose live ranges [definition, last use] do not
    #    overlap (the last use of one may coincide with the definition of the next); registers of the allocatable pool may be
    #    pre-assigned too - allocate_func excludes every pre-assigned register from allocation.
    last = {v: (v - nargs if v >= nargs else -1) for v in range(nv + 1)}
    for k, (_kind, srcs, _imm) in enumerate(plan):
        for v in srcs:
            last[v] = max(last[v], k)
    rd_of: dict[int, Any] = {nv: Registers.A0}
    taken: dict[str, list[tuple[int, int]]] = {"a0": [(len(plan) - 1, len(plan))]}
    for a in range(nargs):
        taken.setdefault(argregs[a].register_name.data, []).append((-1, last[a]))
    cands = [Registers.S1, Registers.S2, Registers.T6] + list(pool) + [Registers.A0, Registers.A1]
    for v in range(nargs, nv):
        if is_zero.get(v) or rng.random() >= 0.2:
            continue
        r = rng.choice(cands)
        d, l = v - nargs, last[v]
        if all(l <= d2 or l2 <= d for (d2, l2) in taken.get(r.register_name.data, [])):
            taken.setdefault(r.register_name.data, []).append((d, l))
            rd_of[v] = r
    # 3. build
    block = Block(arg_types=argregs)
    vals: list[Any] = list(block.args)
    zero_pos: set[int] = set()
    ops = []
    for k, (kind, srcs, imm) in enumerate(plan):
        rd = rd_of.get(nargs + k, U)
        if kind in ("li", "li0"):
            op = rv32.LiOp(imm, rd=rd)
        elif kind == "mv":
            op = riscv.MVOp(vals[srcs[0]], rd=rd)
        else:
            cls = {"add": riscv.AddOp, "sub": riscv.SubOp, "mul": riscv.MulOp}[kind]
            op = cls(vals[srcs[0]], vals[srcs[1]], rd=rd)
        if is_zero.get(nargs + k):
            zero_pos.add(k)
        ops.append(op)
        vals.append(op.results[0])
    ops.append(riscv_func.ReturnOp(ops[-1].results[0]))
    block.add_ops(ops)
    func = riscv_func.FuncOp("f", Region(block), (argregs, [Registers.A0]))
    stack = RiscvRegisterStack.get(allocatable_registers=pool, allow_infinite=rng.random() < 0.2)
    before = snapshot(block)
    try:
        RegisterAllocatorLivenessBlockNaive(stack).allocate_func(func)
    except (DiagnosticException, NotImplementedError):
        return {"failed": True}
    return finish_case(block, before, [r.register_name.data for r in pool], set(), "j_", zero_pos)


