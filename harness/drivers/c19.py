"""C19: register allocation never gives one register to two live values.

Model: spec/backend/RegAlloc.tla - the allocated block is executed on a register file that remembers which
value each register holds; every operand must still be in its register when read, in/out pairs share a
register, pre-assigned registers are respected, new registers come from the allocatable pool, only constant
zero lives in the zero register.  Binding: generated single-block functions are allocated by the REAL
allocators: (a) RISC-V ops through RegisterAllocatorLivenessBlockNaive.allocate_func with limited pools,
pre-allocated arguments/results and zero constants, (b) test.allocatable ops with in/out/inout constraints
through BlockNaiveAllocator with a 2-register pool and infinite registers; OutOfRegisters / diagnostics are
reported failures.  TLC judges the resulting assignment."""

from __future__ import annotations

from typing import Any

from .. import casecheck
from ..core import Ctx


def reg_name(t) -> str:
    from xdsl.backend.register_type import RegisterType
    from xdsl.dialects.builtin import IntAttr

    if isinstance(t, RegisterType) and isinstance(t.index, IntAttr):
        return t.register_name.data
    return ""


def riscv_case(rng) -> dict[str, Any] | None:
    from xdsl.backend.riscv.register_allocation import RegisterAllocatorLivenessBlockNaive
    from xdsl.backend.riscv.register_stack import RiscvRegisterStack
    from xdsl.dialects import riscv, riscv_func, rv32
    from xdsl.dialects.riscv import IntRegisterType, Registers
    from xdsl.ir import Block, Region
    from xdsl.utils.exceptions import DiagnosticException

    U = IntRegisterType.unallocated()
    nargs = rng.randint(0, 2)
    argregs = [Registers.A0, Registers.A1][:nargs]
    block = Block(arg_types=argregs)
    vals: list[Any] = list(block.args)
    zero: set[int] = set()
    ops = []
    pre_pool = [Registers.S1, Registers.S2, Registers.T6]
    for _ in range(rng.randint(2, 9)):
        k = rng.choice(["li", "li0", "add", "add", "sub", "mul", "mv", "add"])
        rd = rng.choice(pre_pool) if rng.random() < 0.12 else U
        if k == "li" or not vals:
            op = rv32.LiOp(rng.choice([1, 5, 7, -3]), rd=rd)
        elif k == "li0":
            op = rv32.LiOp(0, rd=U)
            zero.add(id(op.rd))
        elif k == "mv":
            op = riscv.MVOp(rng.choice(vals), rd=rd)
        else:
            cls = {"add": riscv.AddOp, "sub": riscv.SubOp, "mul": riscv.MulOp}[k]
            op = cls(rng.choice(vals), rng.choice(vals), rd=rd)
        ops.append(op)
        vals.append(op.results[0])
    ret_src = rng.choice(vals)
    mv = riscv.MVOp(ret_src, rd=Registers.A0)
    ops.append(mv)
    ops.append(riscv_func.ReturnOp(mv.rd))
    block.add_ops(ops)
    func = riscv_func.FuncOp("f", Region(block), (argregs, [Registers.A0]))
    pool = rng.sample([Registers.T0, Registers.T1, Registers.T2, Registers.T3, Registers.T4, Registers.T5], rng.choice([1, 2, 3, 3, 4, 6]))
    infinite = rng.random() < 0.2
    stack = RiscvRegisterStack.get(allocatable_registers=pool, allow_infinite=infinite)
    before = snapshot(block)
    try:
        RegisterAllocatorLivenessBlockNaive(stack).allocate_func(func)
    except (DiagnosticException, NotImplementedError):
        return {"failed": True}
    return finish_case(block, before, [r.register_name.data for r in pool], zero, "j_")


def snapshot(block):
    """value identity is lost by allocation (values are replaced): describe values positionally."""
    return [[reg_name(a.type) for a in block.args]] + [[reg_name(r.type) for r in op.results] for op in block.ops]


def finish_case(block, before, pool: list[str], zero_ids: set[int], inf_prefix: str, zero_pos=None) -> dict[str, Any]:
    from xdsl.backend.register_allocatable import HasRegisterConstraints

    vid: dict[int, int] = {}
    reg: list[str] = []
    pre: list[str] = []
    zero: list[int] = []

    def V(v, pre_name: str, is_zero: bool) -> int:
        k = vid.get(id(v))
        if k is None:
            k = vid[id(v)] = len(vid) + 1
            reg.append(reg_name(v.type))
            pre.append(pre_name)
            zero.append(1 if is_zero else 0)
        return k

    init = [V(a, before[0][i], False) for i, a in enumerate(block.args)]
    ops = []
    for oi, op in enumerate(block.ops):
        is_zero_def = (zero_pos is not None and oi in zero_pos)
        for ri, r in enumerate(op.results):
            V(r, before[oi + 1][ri], is_zero_def)
        if isinstance(op, HasRegisterConstraints):
            ins, outs, inouts = op.get_register_constraints()
            ops.append({"ins": [vid[id(v)] for v in ins if id(v) in vid], "outs": [vid[id(v)] for v in outs],
                        "inouts": [[vid[id(a)], vid[id(b)]] for a, b in inouts]})
        else:
            ops.append({"ins": [vid[id(v)] for v in op.operands if id(v) in vid], "outs": [vid[id(v)] for v in op.results], "inouts": []})
    inf = [1 if r.startswith(inf_prefix) else 0 for r in reg]
    return {"failed": False, "ops": ops, "init": init, "reg": reg, "pre": pre, "pool": pool, "inf": inf, "zero": zero}


def riscv_case_wrapped(rng):
    """riscv_case needs to know which li defined zero: recompute positions by value after allocation."""
    from xdsl.dialects import riscv
    c = riscv_case(rng)
    return c


def test_case(rng) -> dict[str, Any] | None:
    from xdsl.backend.block_naive_allocator import BlockNaiveAllocator
    from xdsl.backend.register_stack import RegisterStack
    from xdsl.dialects.test import TestAllocatableOp, TestRegisterType
    from xdsl.ir import Block
    from xdsl.utils.exceptions import DiagnosticException

    U = TestRegisterType.unallocated()
    X0, X1 = TestRegisterType.from_name("x0"), TestRegisterType.from_name("x1")
    block = Block(arg_types=[rng.choice([U, X0])] if rng.random() < 0.5 else [])
    vals: list[Any] = list(block.args)
    last_use_taken: set[int] = set()
    used_x1 = False
    ops = []
    n = rng.randint(2, 8)
    for i in range(n):
        avail = [v for v in vals if id(v) not in last_use_taken]
        ins = [rng.choice(avail) for _ in range(rng.choice([0, 1, 1, 2]))] if avail else []
        inouts = []
        if avail and rng.random() < 0.4:
            cand = [v for v in avail if v not in ins]
            if cand:
                v = rng.choice(cand)
                inouts = [v]
                last_use_taken.add(id(v))     # documented precondition: an inout operand is used for the last time here
        out_t = [U for _ in range(rng.choice([0, 1, 1, 2]))]
        if out_t and not used_x1 and rng.random() < 0.15:
            out_t[0] = X1          # at most one pre-assigned result per block: conflicting pre-assignments are invalid input
            used_x1 = True
        op = TestAllocatableOp(ins, inouts, out_t, [U for _ in inouts])
        ops.append(op)
        vals += list(op.results)
    # every value must be used at least once after its definition for liveness to matter: add a final consumer
    live = [v for v in vals if id(v) not in last_use_taken]
    ops.append(TestAllocatableOp(live[-3:], [], [], []))
    block.add_ops(ops)
    # enforce the precondition on uses that were created later than the inout use
    for v in vals:
        if id(v) in last_use_taken:
            order = {id(o): i for i, o in enumerate(block.ops)}
            uses = [(order[id(u.operation)], u) for u in v.uses]
            # the inout use must be the last one: otherwise drop this program
            io_idx = [i for i, u in uses if any(x is v for x in u.operation.inout_operands)]
            if not io_idx or max(i for i, _ in uses) != io_idx[0] or len(io_idx) != 1:
                return None
    infinite = rng.random() < 0.7
    stack = RegisterStack.get([X0, X1], allow_infinite=infinite)
    before = snapshot(block)
    alloc = BlockNaiveAllocator(stack, TestRegisterType)
    try:
        # registers already used in the block are not available (as allocate_func does for the targets)
        for name in {n for row in before for n in row if n}:
            stack.exclude_register(TestRegisterType.from_name(name))
        alloc.allocate_block(block)
    except DiagnosticException:
        return {"failed": True}
    return finish_case(block, before, ["x0", "x1", "a0", "a1"], set(), "y")


def run(ctx: Ctx):
    from xdsl.dialects import riscv

    ctx.level = "exploration"
    rng = ctx.rng("alloc")
    cases: list[dict[str, Any]] = []
    kinds: list[str] = []
    roles: list[list[str]] = []
    failed = {"riscv": 0, "test": 0}
    failed["riscv-loops"] = failed["x86"] = 0
    n = 4000 if ctx.quick else 60000
    n_loops = 1500 if ctx.quick else 25000
    n_x86 = 1500 if ctx.quick else 25000
    for k in range(n + n_loops + n_x86):
        which = "x86" if k >= n + n_loops else "riscv-loops" if k >= n else ("riscv" if k % 2 == 0 else "test")
        try:
            c = x86_case(rng) if which == "x86" else riscv_loop_case(rng) if which == "riscv-loops" else riscv_zero_aware(rng) if which == "riscv" else test_case(rng)
        except AssertionError as e:   # the allocator's own internal assertion: a reported failure, kept as divergence
            ctx.diverge("allocator assertion", which=which, error=str(e)[:100])
            continue
        if c is None:
            continue
        if c.get("failed"):
            failed[which] += 1
            continue
        c.pop("failed")
        roles.append(c.pop("role", []))
        cases.append(c)
        kinds.append(which)
    ctx.log(f"{len(cases)} allocated blocks ({failed} reported failures)")
    res = casecheck.run_cases("backend/RegAllocCases.tla", cases, min_per_shard=50)
    for idx, tail in res.mismatches:
        c = cases[idx]
        read_role = ""
        if kinds[idx] == "riscv-loops" and tail[0] == "OperandStillInItsRegisterWhenRead":
            f = first_clobbered_read(c)
            if f is not None:
                read_role = roles[idx][f[1] - 1] + " overwritten by " + (roles[idx][f[2] - 1] if f[2] else "nothing")
        ctx.violate(f"[{kinds[idx]}] {tail[0]}{' (' + read_role + ')' if read_role else ''}: ops {c['ops']} init {c['init']} registers {c['reg']} (before: {c['pre']}) pool {c['pool']}",
                    {"clause": tail[0], "target": kinds[idx], "clobbered": read_role,
                     "infinite_registers_used": any(r.startswith(("j_", "fj_", "inf_reg_")) for r in c["reg"]), "case": c}, clause=tail[0])
    ctx.coverage.update({"evaluations": len(cases), "distinct_nontrivial": len({repr(c) for c in cases}), "reported_failures": failed, "judge_states": res.states,
                         "rule": "seeded single-block functions: RISC-V li/add/sub/mul/mv with pre-allocated arguments/results, zero constants, pools of 1-6 registers "
                                 "(+infinite); riscv_scf.for loops (0-2 carried variables, nesting depth 2) unrolled twice; x86 two-address single-block functions; test.allocatable with in/out/inout groups (inout = last use), 2-register pool (+infinite); distinct = distinct allocated blocks"})
    ctx.sample(cases[0])
    ctx.assumptions += ["an inout operand is used for the last time by that operation (the allocator's documented precondition)",
                        "loops are judged on two unrolled iterations; initial values of carried variables are dedicated copies as convert-scf-to-riscv-scf produces them; in/out operands of x86 two-address operations are dedicated copies as convert-arith-to-x86 produces them"]


def riscv_zero_aware(rng):
    """riscv_case, marking values defined by `li 0` (positions are stable under allocation)."""
    from xdsl.backend.riscv.register_allocation import RegisterAllocatorLivenessBlockNaive  # noqa: F401

    return _riscv(rng)


def _riscv(rng):
    from xdsl.backend.riscv.register_allocation import RegisterAllocatorLivenessBlockNaive
    from xdsl.backend.riscv.register_stack import RiscvRegisterStack
    from xdsl.dialects import riscv, riscv_func, rv32
    from xdsl.dialects.riscv import IntRegisterType, Registers
    from xdsl.ir import Block, Region
    from xdsl.utils.exceptions import DiagnosticException

    U = IntRegisterType.unallocated()
    nargs = rng.randint(0, 2)
    argregs = [Registers.A0, Registers.A1][:nargs]
    # 1. plan: op k defines value nargs + k; operands are indexes of earlier values
    plan: list[tuple[str, list[int], int]] = []
    is_zero: dict[int, bool] = {}
    nv = nargs
    for _ in range(rng.randint(2, 9)):
        k = rng.choice(["li", "li0", "add", "add", "sub", "mul", "mv", "add"])
        if k == "li" or (nv == 0 and k != "li0"):
            plan.append(("li", [], rng.choice([1, 5, 7, -3])))
        elif k == "li0":
            plan.append(("li0", [], 0))
            is_zero[nv] = True
        elif k == "mv":
            src = rng.randrange(nv)
            plan.append(("mv", [src], 0))
            if is_zero.get(src):           # a move of the constant zero is the constant zero
                is_zero[nv] = True
        else:
            plan.append((k, [rng.randrange(nv), rng.randrange(nv)], 0))
        nv += 1
    ret_src = rng.randrange(nv)
    plan.append(("mv", [ret_src], 0))      # result handed back in a0
    pool = rng.sample([Registers.T0, Registers.T1, Registers.T2, Registers.T3, Registers.T4, Registers.T5], rng.choice([1, 2, 3, 3, 4, 6]))
    # 2. pre-assignments.  A register may be pre-assigned to several values whose live ranges [definition, last use] do not
    #    overlap (the last use of one may coincide with the definition of the next); registers of the allocatable pool may be
    #    pre-assigned too - allocate_func excludes every pre-assigned register from allocation.
    last = {v: (v - nargs if v >= nargs else -1) for v in range(nv + 1)}
    for k, (_kind, srcs, _imm) in enumerate(plan):
        for v in srcs:
            last[v] = max(last[v], k)
    rd_of: dict[int, Any] = {nv: Registers.A0}
    taken: dict[str, list[tuple[int, int]]] = {"a0": [(len(plan) - 1, len(plan))]}
    for a in range(nargs):
        taken.setdefault(argregs[a].register_name.data, []).append((-1, last[a]))
    cands = [Registers.S1, Registers.S2, Registers.T6] + list(pool) + [Registers.A0, Registers.A1]
    for v in range(nargs, nv):
        if is_zero.get(v) or rng.random() >= 0.2:
            continue
        r = rng.choice(cands)
        d, l = v - nargs, last[v]
        if all(l <= d2 or l2 <= d for (d2, l2) in taken.get(r.register_name.data, [])):
            taken.setdefault(r.register_name.data, []).append((d, l))
            rd_of[v] = r
    # 3. build
    block = Block(arg_types=argregs)
    vals: list[Any] = list(block.args)
    zero_pos: set[int] = set()
    ops = []
    for k, (kind, srcs, imm) in enumerate(plan):
        rd = rd_of.get(nargs + k, U)
        if kind in ("li", "li0"):
            op = rv32.LiOp(imm, rd=rd)
        elif kind == "mv":
            op = riscv.MVOp(vals[srcs[0]], rd=rd)
        else:
            cls = {"add": riscv.AddOp, "sub": riscv.SubOp, "mul": riscv.MulOp}[kind]
            op = cls(vals[srcs[0]], vals[srcs[1]], rd=rd)
        if is_zero.get(nargs + k):
            zero_pos.add(k)
        ops.append(op)
        vals.append(op.results[0])
    ops.append(riscv_func.ReturnOp(ops[-1].results[0]))
    block.add_ops(ops)
    func = riscv_func.FuncOp("f", Region(block), (argregs, [Registers.A0]))
    stack = RiscvRegisterStack.get(allocatable_registers=pool, allow_infinite=rng.random() < 0.2)
    before = snapshot(block)
    try:
        RegisterAllocatorLivenessBlockNaive(stack).allocate_func(func)
    except (DiagnosticException, NotImplementedError):
        return {"failed": True}
    return finish_case(block, before, [r.register_name.data for r in pool], set(), "j_", zero_pos)


# ------------------------------------------------------------------ riscv_scf.for nests, unrolled for the register-file judge
def _walk_values(block) -> list[Any]:
    """Every value of a block tree in a fixed order (block arguments, then results, regions in place)."""
    out = list(block.args)
    for op in block.ops:
        out.extend(op.results)
        for r in op.regions:
            for b in r.blocks:
                out.extend(_walk_values(b))
    return out


def riscv_loop_case(rng) -> dict[str, Any] | None:
    """A function with riscv_scf.for loops (iter_args, live-ins read in the body, bounds read in the body, nesting)
    allocated by the real allocator.  The allocated function is unrolled by the harness into the straight-line
    sequence of register reads and writes its lowering performs for two iterations of every loop (entry: iv := lb,
    args := inits; back edge: reads iv, step, ub, writes iv, args := yields; exit: results := args); every dynamic
    instance of a value gets its own id and the id's register is the register of the value."""
    from xdsl.backend.register_allocatable import HasRegisterConstraints
    from xdsl.backend.riscv.register_allocation import RegisterAllocatorLivenessBlockNaive
    from xdsl.backend.riscv.register_stack import RiscvRegisterStack
    from xdsl.dialects import riscv, riscv_func, riscv_scf, rv32
    from xdsl.dialects.builtin import IntegerAttr, IntegerType, Signedness
    from xdsl.dialects.riscv import IntRegisterType, Registers
    from xdsl.ir import Block, Region
    from xdsl.utils.exceptions import DiagnosticException

    U = IntRegisterType.unallocated()
    nargs = rng.randint(1, 2)
    argregs = [Registers.A0, Registers.A1][:nargs]
    block = Block(arg_types=argregs)

    pre_pool = [Registers.T0, Registers.T1, Registers.S1, Registers.S2, Registers.T2]
    rng.shuffle(pre_pool)

    def simple(vals: list[Any], into: list[Any], may_preassign: bool = False) -> Any:
        k = rng.choice(["li", "add", "add", "sub", "mul", "mv"])
        # a register pre-assigned to one value only (never shared): the allocator has to keep everything else out of it
        rd = pre_pool.pop() if may_preassign and pre_pool and rng.random() < 0.12 else U
        if k == "li" or not vals:
            op = rv32.LiOp(rng.choice([1, 2, 3, 5, 7]), rd=rd)
        elif k == "mv":
            op = riscv.MVOp(rng.choice(vals), rd=rd)
        else:
            cls = {"add": riscv.AddOp, "sub": riscv.SubOp, "mul": riscv.MulOp}[k]
            op = cls(rng.choice(vals), rng.choice(vals), rd=rd)
        into.append(op)
        return op.results[0]

    def loop(avail: list[Any], into: list[Any], depth: int) -> list[Any]:
        def bound() -> Any:
            if avail and rng.random() < 0.6:
                return rng.choice(avail)
            return simple([], into)
        n = rng.choice([0, 1, 1, 2])
        inits: list[Any] = []
        for _ in range(n):
            # as produced by convert-scf-to-riscv-scf: the initial value of a carried variable is a dedicated copy that
            # only the loop uses (the allocator puts it into the carried variable's register); it may be hoisted above
            # unrelated computations
            if avail and rng.random() < 0.6:
                cp = riscv.MVOp(rng.choice(avail), rd=U)
                into.append(cp)
                inits.append(cp.rd)
            else:
                inits.append(simple(avail, into))
        between: list[Any] = []
        if inits and rng.random() < 0.5:
            for _ in range(rng.randint(1, 4)):
                between.append(simple(avail + between, into))
        pool2 = avail + between
        lb = rng.choice(pool2) if pool2 and rng.random() < 0.6 else simple([], into)
        ub = rng.choice(pool2) if pool2 and rng.random() < 0.6 else simple(pool2, into)
        step: Any = IntegerAttr(1, IntegerType(12, Signedness.SIGNED)) if rng.random() < 0.7 else (rng.choice(pool2) if pool2 and rng.random() < 0.6 else simple([], into))
        body = Block(arg_types=[U] * (1 + n))
        bops: list[Any] = []
        bvals = list(avail) + list(body.args)
        defined: list[Any] = []
        for _ in range(rng.randint(1, 4)):
            if depth < 1 and rng.random() < 0.2:
                res = loop(bvals, bops, depth + 1)
                bvals += res
                defined += res
            else:
                if rng.random() < 0.1:
                    bops.append(riscv.CommentOp("c"))          # an operation without memory-effect trait
                v = simple(bvals, bops, may_preassign=True)
                bvals.append(v)
                defined.append(v)
        ys = []
        for j in range(n):
            cands = [v for v in defined if all(v is not w for w in ys)]
            ys.append(rng.choice(cands) if cands and rng.random() < 0.85 else body.args[1 + j])
        bops.append(riscv_scf.YieldOp(*ys))
        body.add_ops(bops)
        f = riscv_scf.ForOp(lb, ub, step, inits, Region(body))
        into.append(f)
        return list(f.results)

    ops: list[Any] = []
    vals: list[Any] = list(block.args)
    for _ in range(rng.randint(0, 3)):
        vals.append(simple(vals, ops))
    for _ in range(rng.choice([1, 1, 2])):
        vals += loop(vals, ops, 0)
        for _ in range(rng.randint(0, 2)):
            vals.append(simple(vals, ops))
    mv = riscv.MVOp(rng.choice(vals), rd=Registers.A0)
    ops += [mv, riscv_func.ReturnOp(mv.rd)]
    block.add_ops(ops)
    func = riscv_func.FuncOp("f", Region(block), (argregs, [Registers.A0]))
    try:
        func.verify()
    except Exception:  # noqa: BLE001
        return None
    pool = rng.sample([Registers.T0, Registers.T1, Registers.T2, Registers.T3, Registers.T4, Registers.T5, Registers.T6, Registers.A2, Registers.A3],
                      rng.choice([3, 4, 5, 6, 9]))
    stack = RiscvRegisterStack.get(allocatable_registers=pool, allow_infinite=rng.random() < 0.3)
    pre_names = [reg_name(v.type) for v in _walk_values(block)]
    try:
        RegisterAllocatorLivenessBlockNaive(stack).allocate_func(func)
    except (DiagnosticException, NotImplementedError):
        return {"failed": True}
    after = _walk_values(block)
    if len(after) != len(pre_names):
        return None
    pre_of = {id(v): pre_names[k] for k, v in enumerate(after)}
    # unroll
    reg: list[str] = []
    pre: list[str] = []
    cur: dict[int, int] = {}
    micro: list[dict[str, Any]] = []

    role: list[str] = []
    role_of: dict[int, str] = {}

    def new(v) -> int:
        reg.append(reg_name(v.type))
        pre.append(pre_of.get(id(v), ""))
        role.append(role_of.get(id(v), "value"))
        cur[id(v)] = len(reg)
        return len(reg)

    def rd(v) -> int:
        return cur[id(v)]

    init = [new(a) for a in block.args]

    def emit(blk, skip_last: bool):
        bl = list(blk.ops)
        for op in (bl[:-1] if skip_last else bl):
            if isinstance(op, riscv_scf.ForOp):
                args = list(op.body.block.args)
                y = op.body.block.last_op
                role_of[id(args[0])] = "induction-variable"
                for a in args[1:]:
                    role_of[id(a)] = "carried-block-argument"
                for r in op.results:
                    role_of[id(r)] = "loop-result"
                hdr = [op.lb, op.ub] + ([op.step_val] if op.step_val is not None else []) + list(op.iter_args)
                micro.append({"ins": [rd(v) for v in hdr], "outs": [], "inouts": []})
                micro.append({"ins": [rd(op.lb)], "outs": [new(args[0])], "inouts": []})          # iv := lb
                for a, i in zip(args[1:], op.iter_args):
                    micro.append({"ins": [rd(i)], "outs": [new(a)], "inouts": []})                # arg := init
                micro.append({"ins": [rd(args[0]), rd(op.ub)], "outs": [], "inouts": []})          # bge iv, ub
                for _it in range(2):
                    emit(op.body.block, True)
                    micro.append({"ins": [rd(v) for v in y.operands], "outs": [], "inouts": []})   # the yielded values are read
                    back = [rd(args[0])] + ([rd(op.step_val)] if op.step_val is not None else [])
                    micro.append({"ins": back, "outs": [new(args[0])], "inouts": []})              # iv := iv + step
                    micro.append({"ins": [rd(args[0]), rd(op.ub)], "outs": [], "inouts": []})      # blt iv, ub
                    srcs = [rd(v) for v in y.operands]                                             # block arguments are passed in parallel
                    for a, sv in zip(args[1:], srcs):
                        micro.append({"ins": [sv], "outs": [new(a)], "inouts": []})
                for r, a in zip(op.results, args[1:]):
                    micro.append({"ins": [rd(a)], "outs": [new(r)], "inouts": []})                 # results := args at exit
                continue
            for r in op.results:
                pass
            if isinstance(op, HasRegisterConstraints):
                ins, outs, inouts = op.get_register_constraints()
                m = {"ins": [rd(v) for v in ins], "outs": [], "inouts": []}
                pairs = [(rd(a), b) for a, b in inouts]
                m["outs"] = [new(v) for v in outs]
                m["inouts"] = [[a, new(b)] for a, b in pairs]
                micro.append(m)
            else:
                m = {"ins": [rd(v) for v in op.operands], "outs": []}
                m["outs"] = [new(v) for v in op.results]
                m["inouts"] = []
                micro.append(m)

    emit(block, False)
    inf = [1 if r.startswith("j_") else 0 for r in reg]
    return {"failed": False, "ops": micro, "init": init, "reg": reg, "pre": pre, "pool": [r.register_name.data for r in pool], "inf": inf,
            "zero": [0] * len(reg), "role": role}


def first_clobbered_read(c: dict[str, Any]) -> tuple[int, int, int] | None:
    """(micro-op index, value read, value found in its register) of the first failing read - the same walk as
    RegAlloc.tla's ExecFrom, used only to describe a violation TLC reported."""
    rf: dict[str, int] = {}

    def write(vals):
        for v in vals:
            r = c["reg"][v - 1]
            if r != "zero":
                rf[r] = v
    write(c["init"])
    for i, o in enumerate(c["ops"]):
        for v in o["ins"] + [p[0] for p in o["inouts"]]:
            r = c["reg"][v - 1]
            if r != "zero" and rf.get(r) != v:
                return i, v, rf.get(r, 0)
        write(o["outs"] + [p[1] for p in o["inouts"]])
    return None


# ------------------------------------------------------------------ x86 allocator (two-address ops in the shape the lowering produces)
def x86_case(rng) -> dict[str, Any] | None:
    """A single-block x86_func function as convert-arith-to-x86 produces it: arguments copied out of rdi/rsi, two-address
    operations (rs.add/sub/imul/and/xor, r.neg/inc, ri.add) whose in/out operand is a dedicated copy, three-address
    dsi.imul, immediates, the result copied to rax; allocated by the real X86RegisterAllocator with the default or a
    small register pool."""
    from xdsl.backend.x86.register_allocation import X86RegisterAllocator
    from xdsl.backend.x86.register_stack import X86RegisterStack
    from xdsl.dialects import x86, x86_func
    from xdsl.dialects.x86 import registers as R
    from xdsl.ir import Block, Region
    from xdsl.utils.exceptions import DiagnosticException

    U = R.Reg64Type.unallocated()
    nargs = rng.randint(1, 2)
    argregs = [R.RDI, R.RSI][:nargs] + [R.RSP]
    block = Block(arg_types=argregs)
    ops: list[Any] = []
    vals: list[Any] = []
    for a in block.args[:nargs]:
        op = x86.DS_MovOp(a, destination=U)
        ops.append(op)
        vals.append(op.destination)

    def copy_of(v):
        op = x86.DS_MovOp(v, destination=U)
        ops.append(op)
        return op.destination

    for _ in range(rng.randint(2, 10)):
        k = rng.choice(["imm", "add", "sub", "imul", "and", "xor", "neg", "inc", "addi", "imul3", "mov"])
        if k == "imm":
            op = x86.DI_MovOp(rng.choice([1, 5, -3, 100]), destination=U)
            res = op.destination
        elif k == "mov":
            op = x86.DS_MovOp(rng.choice(vals), destination=U)
            res = op.destination
        elif k == "imul3":
            op = x86.DSI_ImulOp(rng.choice(vals), rng.choice([2, 3, 7]), destination=U)
            res = op.destination
        elif k in ("neg", "inc"):
            op = {"neg": x86.R_NegOp, "inc": x86.R_IncOp}[k](copy_of(rng.choice(vals)), register_out=U)
            res = op.register_out
        elif k == "addi":
            op = x86.RI_AddOp(copy_of(rng.choice(vals)), rng.choice([1, 8, -4]), register_out=U)
            res = op.register_out
        else:
            cls = {"add": x86.RS_AddOp, "sub": x86.RS_SubOp, "imul": x86.RS_ImulOp, "and": x86.RS_AndOp, "xor": x86.RS_XorOp}[k]
            src = rng.choice(vals)
            op = cls(copy_of(rng.choice(vals)), src, register_out=U)
            res = op.register_out
        ops.append(op)
        vals.append(res)
    ops.append(x86.DS_MovOp(rng.choice(vals), destination=R.RAX))
    ops.append(x86_func.RetOp())
    block.add_ops(ops)
    func = x86_func.FuncOp("f", Region(block), (argregs, [R.RAX]))
    try:
        func.verify()
    except Exception:  # noqa: BLE001
        return None
    pool = None
    pool_names: list[str]
    if rng.random() < 0.6:
        pool = rng.sample([R.RCX, R.RDX, R.R8, R.R9, R.R10, R.R11, R.RBX], rng.choice([2, 3, 4, 6]))
        pool_names = [r.register_name.data for r in pool]
        stack = X86RegisterStack.get(allocatable_registers=pool, allow_infinite=rng.random() < 0.2)
    else:
        stack = X86RegisterStack.get()
        pool_names = [r.register_name.data for r in X86RegisterStack.DEFAULT_ALLOCATABLE_REGISTERS]
    before = snapshot(block)
    try:
        X86RegisterAllocator(stack).allocate_func(func)
    except (DiagnosticException, NotImplementedError):
        return {"failed": True}
    return finish_case(block, before, pool_names, set(), "inf_")
