"""C2S side of C01: projections of real IR taken (a) during seeded random histories over the wider
mutation API (calls the abstract model does not describe: unsafe erasure, partial use replacement,
multi-op / multi-block insertion, re-typing, PatternRewriter wrappers ...) and (b) after every
outermost public mutator call while the repository's own passes run on corpus modules."""

from __future__ import annotations

import functools
import os
from pathlib import Path
from typing import Any

from ..core import Ctx, Hang, time_limit


# ------------------------------------------------------------------------------------------ (a)
def random_histories(ctx: Ctx, col, n: int, length: int):
    from xdsl.dialects import test
    from xdsl.dialects.builtin import i32, i64
    from xdsl.ir import Block, ErasedSSAValue, Region
    from xdsl.pattern_rewriter import PatternRewriter
    from xdsl.rewriter import BlockInsertPoint, InsertPoint, Rewriter

    from ..project import Universe
    from ..realir import _anchor as anchor

    rng = ctx.rng("random-histories")
    total_calls = raised = 0
    op_counts: dict[str, int] = {}
    for h in range(n):
        u = Universe()
        # start: a module-like op with one region / two blocks
        root = test.TestOp(regions=[Region([Block(arg_types=[i32]), Block()])])
        u.register_tree(root)
        hist: list[str] = []

        def live_ops():
            return [o for i, o in enumerate(u.ops, 1) if i not in u.dead_ops]

        def live_blocks():
            return [b for i, b in enumerate(u.blocks, 1) if i not in u.dead_blocks]

        def live_regions():
            return [r for i, r in enumerate(u.regions, 1) if i not in u.dead_regions]

        def live_vals():
            return [v for i, v in enumerate(u.vals, 1) if i not in u.dead_vals and not isinstance(v, ErasedSSAValue)]

        def attached_ops():
            return [o for o in live_ops() if o.parent is not None]

        def detached_ops():
            return [o for o in live_ops() if o.parent is None and o is not root]

        def is_anc_op(o, blk) -> bool:
            return o.is_ancestor(blk)

        def new_op():
            vs = live_vals()
            k = rng.choice([0, 1, 1, 2, 3])
            bs = live_blocks()
            succ = [rng.choice(bs) for _ in range(rng.choice([0, 0, 0, 1, 2]))] if bs else []
            regs = [Region([Block(arg_types=[i32] * rng.randint(0, 1))]) for _ in range(rng.choice([0, 0, 0, 1]))]
            o = test.TestOp.create(operands=[rng.choice(vs) for _ in range(k)] if vs else [], result_types=[i32] * rng.choice([0, 1, 1, 2]),
                                   successors=succ, regions=regs)
            u.register_tree(o)
            return o

        def subtree_vals_used_outside(o) -> bool:
            inside = set(id(x) for x in o.walk())
            for x in o.walk():
                for r in x.results:
                    if any(id(use.operation) not in inside for use in r.uses):
                        return True
                for reg in x.regions:
                    for b in reg.blocks:
                        for a in b.args:
                            if any(id(use.operation) not in inside for use in a.uses):
                                return True
                        if any(id(use.operation) not in inside for use in b.uses):
                            return True
            return False

        for _step in range(length):
            kind = rng.choice(["new_insert", "new_insert", "insert_many", "detach", "reattach", "erase", "erase_unsafe", "split",
                               "set_operand", "set_operands", "set_succ", "rauw", "rauw_if", "retype", "insert_arg", "erase_arg",
                               "new_block", "insert_blocks", "detach_block", "erase_block", "move_blocks", "move_contents", "inline_block",
                               "replace_op", "replace_op_multi", "add_region", "detach_region", "pr_replace_uses", "erase_arg_unsafe"])
            try:
                with time_limit(2.0):
                    if kind == "new_insert":
                        o = new_op()
                        tgt = [e for e in attached_ops()]
                        if tgt and rng.random() < 0.7:
                            e = rng.choice(tgt)
                            ip = InsertPoint.before(e) if rng.random() < 0.5 else InsertPoint.after(e)
                            rng.choice([lambda: Rewriter.insert_op(o, ip), lambda: PatternRewriter(e).insert(o, ip)])()
                        else:
                            b = rng.choice(live_blocks())
                            if not is_anc_op(o, b):
                                rng.choice([lambda: b.add_op(o), lambda: Rewriter.insert_op(o, InsertPoint.at_start(b)),
                                            lambda: Rewriter.insert_op(o, InsertPoint.at_end(b))])()
                    elif kind == "insert_many":
                        ops = [new_op() for _ in range(rng.randint(2, 3))]
                        tgt = attached_ops()
                        if tgt:
                            e = rng.choice(tgt)
                            rng.choice([lambda: e.parent.insert_ops_before(ops, e), lambda: e.parent.insert_ops_after(ops, e),
                                        lambda: Rewriter.insert_op(ops, InsertPoint.before(e))])()
                        else:
                            rng.choice(live_blocks()).add_ops(ops)
                    elif kind == "detach":
                        c = attached_ops()
                        if c:
                            rng.choice(c).detach()
                    elif kind == "reattach":
                        d, t = detached_ops(), attached_ops()
                        if d and t:
                            o, e = rng.choice(d), rng.choice(t)
                            if not is_anc_op(o, e.parent):
                                (e.parent.insert_op_before if rng.random() < 0.5 else e.parent.insert_op_after)(o, e)
                    elif kind in ("erase", "erase_unsafe"):
                        c = [o for o in live_ops() if o is not root]
                        if c:
                            o = rng.choice(c)
                            safe = kind == "erase"
                            if safe and (any(r.first_use is not None for r in o.results) or subtree_vals_used_outside(o)):
                                continue
                            if not safe and subtree_vals_used_outside(o) and any(True for _ in o.regions):
                                continue
                            u.mark_dead_tree(o)
                            if o.parent is not None:
                                rng.choice([lambda: Rewriter.erase_op(o, safe_erase=safe), lambda: o.parent.erase_op(o, safe_erase=safe),
                                            lambda: PatternRewriter(o).erase(o, safe_erase=safe)])()
                            else:
                                o.erase(safe_erase=safe)
                    elif kind == "split":
                        c = [o for o in attached_ops() if o.parent.parent is not None]
                        if c:
                            o = rng.choice(c)
                            u.block(o.parent.split_before(o, arg_types=[i32] * rng.randint(0, 1)))
                    elif kind == "set_operand":
                        c = [o for o in live_ops() if len(o.operands)]
                        vs = live_vals()
                        if c and vs:
                            o = rng.choice(c)
                            o.operands[rng.randrange(len(o.operands))] = rng.choice(vs)
                    elif kind == "set_operands":
                        vs = live_vals()
                        if vs:
                            rng.choice(live_ops()).operands = [rng.choice(vs) for _ in range(rng.randint(0, 3))]
                    elif kind == "set_succ":
                        bs = live_blocks()
                        o = rng.choice(live_ops())
                        if len(o.successors) and rng.random() < 0.5:
                            o.successors[rng.randrange(len(o.successors))] = rng.choice(bs)
                        else:
                            o.successors = [rng.choice(bs) for _ in range(rng.randint(0, 2))]
                    elif kind == "rauw":
                        vs = live_vals()
                        if len(vs) >= 2:
                            a, b = rng.choice(vs), rng.choice(vs)
                            rng.choice([lambda: a.replace_all_uses_with(b), lambda: PatternRewriter(anchor()).replace_all_uses_with(a, b)])()
                    elif kind == "rauw_if":
                        vs = live_vals()
                        if len(vs) >= 2:
                            a, b = rng.choice(vs), rng.choice(vs)
                            par = rng.randrange(2)
                            pred = lambda use: (use.index + id(use.operation) // 16) % 2 == par  # noqa: E731
                            rng.choice([lambda: a.replace_uses_with_if(b, pred), lambda: PatternRewriter(anchor()).replace_uses_with_if(a, b, pred)])()
                    elif kind == "retype":
                        vs = [v for v in live_vals() if type(v).__name__ in ("OpResult", "BlockArgument")]
                        if vs:
                            v = rng.choice(vs)
                            u.dead_vals.add(u.val(v))
                            nv = rng.choice([lambda: Rewriter.replace_value_with_new_type(v, i64),
                                             lambda: PatternRewriter(anchor()).replace_value_with_new_type(v, i64)])()
                            u.val(nv)
                    elif kind == "insert_arg":
                        b = rng.choice(live_blocks())
                        u.val(b.insert_arg(i32, rng.randint(0, len(b.args))))
                    elif kind in ("erase_arg", "erase_arg_unsafe"):
                        c = [b for b in live_blocks() if b.args]
                        if c:
                            b = rng.choice(c)
                            a = rng.choice(b.args)
                            safe = kind == "erase_arg"
                            if safe and a.first_use is not None:
                                continue
                            u.dead_vals.add(u.val(a))
                            rng.choice([lambda: b.erase_arg(a, safe_erase=safe), lambda: PatternRewriter(anchor()).erase_block_argument(a, safe_erase=safe)])()
                    elif kind == "new_block":
                        nb = Block(arg_types=[i32] * rng.randint(0, 2))
                        u.block(nb)
                        rs = live_regions()
                        r = rng.choice(rs)
                        if r.blocks and rng.random() < 0.6:
                            t = rng.choice(list(r.blocks))
                            rng.choice([lambda: r.insert_block_before(nb, t), lambda: r.insert_block_after(nb, t),
                                        lambda: Rewriter.insert_block(nb, BlockInsertPoint.before(t)),
                                        lambda: r.insert_block(nb, rng.randint(0, len(r.blocks)))])()
                        else:
                            r.add_block(nb)
                    elif kind == "insert_blocks":
                        nbs = [Block(arg_types=[i32] * rng.randint(0, 1)) for _ in range(rng.randint(2, 3))]
                        for nb in nbs:
                            u.block(nb)
                        r = rng.choice(live_regions())
                        if r.blocks and rng.random() < 0.7:
                            t = rng.choice(list(r.blocks))
                            rng.choice([lambda: r.insert_block_before(nbs, t), lambda: r.insert_block_after(nbs, t),
                                        lambda: r.insert_block(nbs, rng.randint(0, len(r.blocks)))])()
                        else:
                            r.add_block(nbs)
                    elif kind == "detach_block":
                        c = [b for b in live_blocks() if b.parent is not None]
                        if c:
                            b = rng.choice(c)
                            b.parent.detach_block(b)
                    elif kind == "erase_block":
                        c = [b for b in live_blocks() if b.first_use is None and not any(subtree_vals_used_outside(o) for o in b.ops)
                             and not any(a.first_use is not None and any(use.operation.parent is not b and not b.is_ancestor(use.operation) for use in a.uses) for a in b.args)]
                        c = [b for b in c if not any(any(use.operation.parent is not b for use in r.uses) for o in b.ops for r in o.results)]
                        if c:
                            b = rng.choice(c)
                            u.mark_dead_block(b)
                            if b.parent is not None:
                                b.parent.erase_block(b)
                            else:
                                b.erase()
                    elif kind == "move_blocks":
                        rs = live_regions()
                        if len(rs) >= 2:
                            a, d = rng.sample(rs, 2)
                            if a.parent is not None and (d.parent is not None and a.parent.is_ancestor(d.parent) or a.parent is d.parent and False):
                                continue
                            if any(o.is_ancestor(d) for b in a.blocks for o in b.ops if d.parent is not None):
                                continue
                            if d.blocks and rng.random() < 0.5:
                                t = rng.choice(list(d.blocks))
                                rng.choice([lambda: a.move_blocks_before(t), lambda: Rewriter.inline_region(a, BlockInsertPoint.before(t))])()
                            else:
                                rng.choice([lambda: a.move_blocks(d), lambda: Rewriter.inline_region(a, BlockInsertPoint.at_end(d))])()
                    elif kind == "move_contents":
                        r = rng.choice(live_regions())
                        u.region(rng.choice([lambda: Rewriter.move_region_contents_to_new_regions(r),
                                             lambda: PatternRewriter(anchor()).move_region_contents_to_new_regions(r)])())
                    elif kind == "inline_block":
                        c = [b for b in live_blocks() if b.first_use is None]
                        t = attached_ops()
                        vs = live_vals()
                        if c and t:
                            b, e = rng.choice(c), rng.choice(t)
                            if e.parent is b or b.is_ancestor(e) or any(o.is_ancestor(e) for o in b.ops):
                                continue
                            args = [rng.choice([v for v in vs if v not in b.args] or vs) for _ in b.args]
                            if any(a in b.args for a in args):
                                continue
                            u.dead_blocks.add(u.block(b))
                            for a in b.args:
                                u.dead_vals.add(u.val(a))
                            ip = rng.choice([InsertPoint.before(e), InsertPoint.after(e), InsertPoint.at_end(e.parent), InsertPoint.at_start(e.parent)])
                            rng.choice([lambda: Rewriter.inline_block(b, ip, args), lambda: PatternRewriter(e).inline_block(b, ip, args)])()
                    elif kind in ("replace_op", "replace_op_multi"):
                        c = [o for o in attached_ops() if not any(True for _ in o.regions)]
                        if c:
                            o = rng.choice(c)
                            news = [new_op() for _ in range(1 if kind == "replace_op" else rng.randint(0, 3))]
                            vs = [v for v in live_vals() if v not in o.results]
                            if kind == "replace_op":
                                while len(news[-1].results) != len(o.results):
                                    news[-1] = new_op()   # the rejected candidate stays in the universe as a detached op
                                nr = None
                            else:
                                nr = [rng.choice(vs + [None]) if vs else None for _ in o.results]
                            if any(is_anc_op(nw, o.parent) for nw in news):
                                continue
                            u.mark_dead_tree(o)
                            rng.choice([lambda: Rewriter.replace_op(o, news, nr, safe_erase=False),
                                        lambda: PatternRewriter(o).replace(o, news, nr, safe_erase=False)])()
                    elif kind == "add_region":
                        r = Region([Block()] if rng.random() < 0.5 else [])
                        u.region(r)
                        for b in r.blocks:
                            u.block(b)
                        rng.choice(live_ops()).add_region(r)
                    elif kind == "detach_region":
                        c = [r for r in live_regions() if r.parent is not None and r.parent is not root]
                        if c:
                            r = rng.choice(c)
                            r.parent.detach_region(r)
                    elif kind == "pr_replace_uses":
                        vs = live_vals()
                        if vs:
                            v = rng.choice(vs)
                            if v.first_use is None:
                                pass
                            else:
                                PatternRewriter(anchor()).replace_all_uses_with(v, rng.choice(vs))
                    else:
                        continue
            except Hang:
                ctx.diverge("random-history call did not return within 2 s; history truncated", call=kind)
                break
            except Exception as e:  # noqa: BLE001  "calls that raise are skipped": the history ends here
                raised += 1
                ctx.diverge("random-history call raised; history truncated", call=kind, error=f"{type(e).__name__}: {e}"[:160])
                break
            hist.append(kind)
            op_counts[kind] = op_counts.get(kind, 0) + 1
            total_calls += 1
            try:
                with time_limit(2.0):
                    chk = u.project()
            except Hang:
                ctx.diverge("projection walk did not return within 2 s; history truncated", call=kind)
                break
            col.add(chk, {"source": "random wider-API history", "history": list(hist), "history_no": h})
    ctx.cov_add("traces_validated_against_impl", n)
    ctx.coverage["random_history_calls"] = total_calls
    ctx.coverage["random_history_calls_raised"] = raised
    ctx.coverage["random_history_call_kinds"] = op_counts
    ctx.log(f"random histories: {n} histories / {total_calls} calls ({raised} ended by an exception)")


# ------------------------------------------------------------------------------------------ (b)
_MUTATORS = {
    "Block": ["insert_arg", "erase_arg", "insert_op_after", "insert_op_before", "add_op", "add_ops", "insert_ops_before",
              "insert_ops_after", "split_before", "detach_op", "erase_op", "erase"],
    "Region": ["add_block", "insert_block_before", "insert_block_after", "insert_block", "detach_block", "erase_block",
               "move_blocks", "move_blocks_before", "erase"],
    "Operation": ["add_region", "detach_region", "erase", "detach"],
    "SSAValue": ["replace_all_uses_with", "replace_uses_with_if", "erase"],
    "OpOperands": ["__setitem__"],
    "OpSuccessors": ["__setitem__"],
}


class Tracer:
    """Run-time wrappers on the public mutators (installed only while a check runs, XDSL_VERIF_TRACE=1);
    the outermost call logs one event in a `finally`, nested calls are silent."""

    def __init__(self):
        self.depth = 0
        self.sink = None  # callable(event_name)
        self.installed: list[tuple[Any, str, Any]] = []
        self.universe = None

    def install(self):
        if os.environ.get("XDSL_VERIF_TRACE") != "1":
            raise RuntimeError("tracing wrappers are only installed under XDSL_VERIF_TRACE=1")
        from xdsl.ir import core
        from xdsl.rewriter import Rewriter

        targets: list[tuple[Any, str]] = []
        for cname, names in _MUTATORS.items():
            cls = getattr(core, cname)
            for nm in names:
                targets.append((cls, nm))
        for nm in ("erase_op", "replace_op", "replace_value_with_new_type", "inline_block", "insert_block", "insert_op",
                   "move_region_contents_to_new_regions", "inline_region"):
            targets.append((Rewriter, nm))
        # compound public mutators: their inner core calls are intermediate states, only the outermost call is an event
        from xdsl.builder import Builder
        from xdsl.pattern_rewriter import PatternRewriter

        for nm in ("insert", "erase", "erase_op", "replace_all_uses_with", "replace_uses_with_if", "replace_matched_op", "replace", "replace_op",
                   "replace_value_with_new_type", "insert_block_argument", "erase_block_argument", "inline_block", "move_region_contents_to_new_regions",
                   "inline_region", "insert_op"):
            if nm in PatternRewriter.__dict__:
                targets.append((PatternRewriter, nm))
        for nm in ("insert", "insert_op", "create_block"):
            if nm in Builder.__dict__:
                targets.append((Builder, nm))
        for cls, nm in targets:
            raw = cls.__dict__[nm]
            is_static = isinstance(raw, staticmethod)
            fn = raw.__func__ if is_static else raw
            wrapped = self._wrap(fn, f"{cls.__name__}.{nm}")
            self.installed.append((cls, nm, raw))
            setattr(cls, nm, staticmethod(wrapped) if is_static else wrapped)
        # property setters
        for nm in ("operands", "successors"):
            prop = core.Operation.__dict__[nm]
            self.installed.append((core.Operation, nm, prop))
            setattr(core.Operation, nm, property(prop.fget, self._wrap(prop.fset, f"Operation.{nm}.setter")))

    @staticmethod
    def mark_deaths(u, label: str, a: tuple):
        """Before an outermost erasing call: remember what leaves the universe."""
        from xdsl.ir import Block

        if label in ("Operation.erase", "Rewriter.erase_op", "Rewriter.replace_op"):
            u.mark_dead_tree(a[0])
        elif label == "Block.erase_op":
            u.mark_dead_tree(a[1])
        elif label == "Block.erase":
            u.mark_dead_block(a[0])
        elif label == "Region.erase_block":
            u.mark_dead_block(a[1] if isinstance(a[1], Block) else a[0].blocks[a[1]])
        elif label == "Region.erase":
            u.mark_dead_region(a[0])
        elif label == "Rewriter.inline_block":
            u.dead_blocks.add(u.block(a[0]))
            for arg in a[0].args:
                u.dead_vals.add(u.val(arg))
        elif label == "Block.erase_arg":
            u.dead_vals.add(u.val(a[1]))
        elif label == "Rewriter.replace_value_with_new_type":
            u.dead_vals.add(u.val(a[0]))
        elif label == "SSAValue.erase":
            # SSAValue.erase only drops / redirects the uses; the value stays where its owner keeps it (a pattern may call it on
            # a block argument and remove the argument with Block.erase_arg afterwards).  It is gone only if no owner lists it.
            from xdsl.ir import BlockArgument, OpResult

            v = a[0]
            listed = (isinstance(v, BlockArgument) and any(x is v for x in v.owner.args)) or isinstance(v, OpResult)
            if not listed:
                u.dead_vals.add(u.val(v))

    def uninstall(self):
        for cls, nm, raw in reversed(self.installed):
            setattr(cls, nm, raw)
        self.installed.clear()

    def _wrap(self, fn, label: str):
        tracer = self

        @functools.wraps(fn)
        def w(*a, **k):
            from xdsl.ir import Block, Operation, Region

            u = tracer.universe
            saved = None
            if u is not None:     # at every depth: compound public calls (PatternRewriter, Builder) erase through the core mutators
                saved = (set(u.dead_ops), set(u.dead_blocks), set(u.dead_regions), set(u.dead_vals))
                tracer.mark_deaths(u, label, a)
            tracer.depth += 1
            ok = False
            try:
                r = fn(*a, **k)
                ok = True
                return r
            finally:
                tracer.depth -= 1
                if not ok and saved is not None and u is not None:
                    u.dead_ops, u.dead_blocks, u.dead_regions, u.dead_vals = saved
                if tracer.depth == 0 and tracer.sink is not None:
                    tracer.sink(label, ok)

        return w


PASSES = ["canonicalize", "cse", "dce", "convert-scf-to-cf", "licm", "scf-for-loop-flatten", "scf-for-loop-range-folding",
          "lower-affine", "constant-fold-interp", "control-flow-hoist", "reconcile-unrealized-casts", "mlir-opt-like-noop"]


def corpus_modules(rng, limit: int, max_ops: int = 45):
    """Parse chunks of the repository's .mlir corpus that use registered ops; yield (name, module, ctx)."""
    from xdsl.context import Context
    from xdsl.dialects import get_all_dialects
    from xdsl.parser import Parser

    from ..core import REPO

    root = REPO / "tests" / "filecheck"
    files = sorted(p for p in root.rglob("*.mlir"))
    rng.shuffle(files)
    n = 0
    for f in files:
        try:
            text = f.read_text()
        except Exception:  # noqa: BLE001
            continue
        for ci, chunk in enumerate(text.split("// -----")):
            if n >= limit:
                return
            ctx = Context(allow_unregistered=False)
            for name, factory in get_all_dialects().items():
                ctx.register_dialect(name, factory)
            try:
                m = Parser(ctx, chunk, str(f)).parse_module()
                m.verify()
            except BaseException:  # noqa: BLE001
                continue
            nops = sum(1 for _ in m.walk())
            if nops < 4 or nops > max_ops:
                continue
            n += 1
            yield f"{f.relative_to(root)}#{ci}", m, ctx


def traced_passes(ctx: Ctx, col, max_modules: int):
    from xdsl.transforms import get_all_passes

    from ..project import Universe

    rng = ctx.rng("passes")
    allp = get_all_passes()
    names = [p for p in PASSES if p in allp]
    tracer = Tracer()
    tracer.install()
    events = runs = failed = 0
    try:
        for name, module, xctx in corpus_modules(rng, max_modules):
            for pname in rng.sample(names, min(3, len(names))):
                m = module.clone()
                u = Universe()
                u.register_tree(m)
                tracer.universe = u
                cnt = [0]

                def sink(label: str, ok: bool, _u=u, _n=name, _p=pname, _cnt=cnt):
                    _cnt[0] += 1
                    if not ok:
                        return
                    if _cnt[0] > 400:   # cap the cost of one run
                        return
                    col.add(_u.project(), {"source": f"pass {_p} on {_n}", "event": label, "event_no": _cnt[0]})

                tracer.sink = sink
                try:
                    with time_limit(60.0):
                        allp[pname]()().apply(xctx, m)
                except Hang:
                    failed += 1
                    ctx.diverge("traced pass did not return within 60 s", pass_name=pname, module=name)
                except Exception:  # noqa: BLE001  a failing pass is reported failure; its trace ends
                    failed += 1
                finally:
                    tracer.sink = None
                    tracer.universe = None
                runs += 1
                events += cnt[0]
        # the pipelines the corpus files were written for (their RUN lines), pass by pass: these actually rewrite the module
        import contextlib
        import io

        from . import c17

        idx = [(n, c, p) for (n, c, p) in c17.corpus_index(ctx.rng("own-pipelines-index"), None) if p and len(c) < 6000]
        rng.shuffle(idx)
        own = 0
        for name, chunk, pipes in idx:
            if own >= (max_modules * 3) // 2:
                break
            specs = [sp for sp in c17.parse_specs(rng.choice(pipes)) if sp.name in allp]
            if not specs:
                continue
            m = c17.parse_input(chunk)
            if m is None or sum(1 for _ in m.walk()) > 60:
                continue
            own += 1
            xctx = c17.all_ctx()
            u = Universe()
            u.register_tree(m)
            tracer.universe = u
            cnt = [0]

            def sink2(label: str, ok: bool, _u=u, _n=name, _cnt=cnt, _p="|".join(sp.name for sp in specs)):
                _cnt[0] += 1
                if ok and _cnt[0] <= 300:
                    col.add(_u.project(), {"source": f"pipeline {_p} on {_n}", "event": label, "event_no": _cnt[0]})

            tracer.sink = sink2
            try:
                with time_limit(60.0), contextlib.redirect_stdout(io.StringIO()), contextlib.redirect_stderr(io.StringIO()):
                    for sp in specs:
                        allp[sp.name]().from_pass_spec(sp).apply(xctx, m)
            except Hang:
                failed += 1
                ctx.diverge("traced pipeline did not return within 60 s", module=name)
            except BaseException as e:  # noqa: BLE001
                if isinstance(e, (KeyboardInterrupt, SystemExit)):
                    raise
                failed += 1
            finally:
                tracer.sink = None
                tracer.universe = None
            runs += 1
            events += cnt[0]
        ctx.coverage["own_pipeline_runs_traced"] = own
    finally:
        tracer.uninstall()
    ctx.cov_add("traces_validated_against_impl", runs)
    ctx.coverage["pass_runs_traced"] = runs
    ctx.coverage["pass_runs_failed"] = failed
    ctx.coverage["pass_mutator_events"] = events
    ctx.log(f"traced passes: {runs} runs ({failed} raised), {events} outermost mutator events")
