"""C03: structural equivalence holds exactly for isomorphic IR.

Model: spec/ir/IRIso.tla - the definition of the property (positional correspondence of values and
blocks; name, operand correspondence, result types, attributes, properties, successors, nested
regions, block argument types; references to the outside must be identical), evaluated by TLC on
projections of the real objects.  Binding: generated IR (incl. use-before-def, multi-block CFGs,
external operands), its clones and every kind of single-point mutant are compared with the real
is_structurally_equivalent in both directions, on ops (detached and attached), blocks and regions;
CSE's OperationInfo and ModulePass.schedule_space use the same relation and are fed the same pairs."""

from __future__ import annotations

from typing import Any

from .. import casecheck
from ..core import Ctx

MUTATIONS = ["result_type", "attr_value", "attr_added", "attr_removed", "prop_value", "prop_moved_to_attr", "operand_rewired",
             "operand_to_external", "successor", "block_order", "arg_type", "op_name", "extra_op", "op_order", "none"]


def mutate(rng, op, kind: str, ext) -> bool:
    """Apply one single-point mutation somewhere inside `op`; return False if not applicable."""
    from xdsl.dialects import test
    from xdsl.dialects.builtin import IndexType, IntegerAttr, i32, i64

    index = IndexType()
    from xdsl.ir import Block
    from xdsl.rewriter import Rewriter

    ops = list(op.walk())
    rng.shuffle(ops)
    blocks = [b for o in ops for r in o.regions for b in r.blocks]
    if kind == "none":
        return True
    if kind == "result_type":
        for o in ops:
            if o.results:
                r = rng.choice(o.results)
                Rewriter.replace_value_with_new_type(r, index if r.type != index else i32)
                return True
    elif kind == "arg_type":
        for b in blocks:
            if b.args:
                a = rng.choice(b.args)
                Rewriter.replace_value_with_new_type(a, index if a.type != index else i32)
                return True
    elif kind == "attr_value":
        for o in ops:
            if "a" in o.attributes:
                o.attributes["a"] = IntegerAttr(7, i32)
                return True
    elif kind == "attr_added":
        ops[0].attributes["zz"] = IntegerAttr(1, i32)
        return True
    elif kind == "attr_removed":
        for o in ops:
            if o.attributes:
                del o.attributes[next(iter(o.attributes))]
                return True
    elif kind == "prop_value":
        for o in ops:
            if "prop1" in o.properties:
                o.properties["prop1"] = IntegerAttr(9, i64)
                return True
    elif kind == "prop_moved_to_attr":
        for o in ops:
            if "prop1" in o.properties and "prop1" not in o.attributes:
                o.attributes["prop1"] = o.properties.pop("prop1")
                return True
    elif kind == "operand_rewired":
        internal = [r for o in ops for r in o.results] + [a for b in blocks for a in b.args]
        for o in ops:
            for i, v in enumerate(o.operands):
                cands = [w for w in internal if w is not v and w.type == v.type] or [w for w in internal if w is not v]
                if cands:
                    o.operands[i] = rng.choice(cands)
                    return True
    elif kind == "operand_to_external":
        for o in ops:
            for i, v in enumerate(o.operands):
                cands = [w for w in ext if w is not v]
                if cands:
                    o.operands[i] = rng.choice(cands)
                    return True
    elif kind == "successor":
        for o in ops:
            if len(o.successors) and o.parent is not None and o.parent.parent is not None:
                cands = [b for b in o.parent.parent.blocks if b is not o.successors[0]]
                if cands:
                    o.successors[0] = rng.choice(cands)
                    return True
    elif kind == "block_order":
        for o in ops:
            for r in o.regions:
                if len(r.blocks) >= 2:
                    b = r.blocks[rng.randrange(1, len(r.blocks))]
                    r.detach_block(b)
                    r.insert_block(b, 0)
                    return True
    elif kind == "op_order":
        for b in blocks:
            if len(b.ops) >= 2:
                first = b.first_op
                first.detach()
                b.add_op(first)
                return True
    elif kind == "op_name":
        for o in ops:
            if o is not op and o.parent is not None and isinstance(o, test.TestOp) and not o.regions:
                n = test.TestPureOp.create(operands=list(o.operands), result_types=[r.type for r in o.results],
                                           attributes=dict(o.attributes), properties=dict(o.properties))
                Rewriter.replace_op(o, n)
                return True
    elif kind == "extra_op":
        if blocks:
            rng.choice(blocks).add_op(test.TestOp.create())
            return True
    return False


def run(ctx: Ctx):
    from xdsl.dialects import test
    from xdsl.ir import Block, Region
    from xdsl.transforms.common_subexpression_elimination import OperationInfo

    from .. import irgen
    from ..project import Universe

    ctx.level = "exploration"
    rng = ctx.rng("gen")
    n_trees = 60 if ctx.quick else 1200
    cases: list[dict[str, Any]] = []
    metas: list[list[dict[str, Any]]] = []
    keep = []
    npairs = 0
    kinds: dict[str, int] = {}
    def sources():
        for _t in range(n_trees):
            holder, ext = irgen.gen_externals(rng)
            keep.append(holder)
            fwd = rng.random() < 0.6
            yield holder, ext, irgen.gen_op(rng, ext, depth=rng.choice([0, 1, 2]), forward_refs=fwd), fwd, "generated"
        # the test corpus: modules of every dialect (their clones and single-point mutants)
        from .c01_c2s import corpus_modules

        for name, module, _x in corpus_modules(ctx.rng("corpus"), 40 if ctx.quick else 1500, max_ops=45):
            keep.append(module)
            yield None, [], module, False, "corpus:" + name

    n_corpus = 0
    for holder, ext, a, fwd, tag in sources():
        u = Universe()
        if holder is not None:
            u.register_tree(holder.first_op)
            u.block(holder)
        else:
            n_corpus += 1
        u.register_tree(a)
        pairs: list[dict[str, Any]] = []
        meta: list[dict[str, Any]] = []

        def ask(x, y, what: str, **info):
            """Record x ~ y in both directions."""
            for p, q, d in ((x, y, "fwd"), (y, x, "rev")):
                try:
                    res = 1 if p.is_structurally_equivalent(q) else 0
                except Exception as e:  # noqa: BLE001
                    res = 0
                    info = dict(info, raised=type(e).__name__)
                pairs.append({"kind": "equiv", "ra": root(p), "rb": root(q), "impl": res})
                meta.append(dict(info, what=what, direction=d, root=root(p)[0]))
                kinds[what] = kinds.get(what, 0) + 1

        def root(x):
            if isinstance(x, Block):
                return ["block", u.block(x)]
            if isinstance(x, Region):
                return ["region", u.region(x)]
            return ["op", u.op(x)]

        # reflexive: the op, its regions, blocks, attached ops
        ask(a, a, "reflexive op", forward_refs=fwd)
        for r in a.regions:
            ask(r, r, "reflexive region", forward_refs=fwd)
            for b in r.blocks:
                ask(b, b, "reflexive block", forward_refs=fwd)
                if b.ops:
                    o = rng.choice(list(b.ops))
                    ask(o, o, "reflexive attached op", forward_refs=fwd)
        # clone
        c = a.clone()
        u.register_tree(c)
        ask(a, c, "clone", forward_refs=fwd)
        for ra, rc in zip(a.regions, c.regions):
            ask(ra, rc, "clone region", forward_refs=fwd)
            if ra.blocks:
                k = rng.randrange(len(ra.blocks))
                ask(ra.blocks[k], rc.blocks[k], "clone block", forward_refs=fwd)
        # mutants of further clones
        for kind in rng.sample(MUTATIONS, 7 if ctx.quick else len(MUTATIONS)):
            m = a.clone()
            try:
                if not mutate(rng, m, kind, ext):
                    continue
            except Exception:  # noqa: BLE001   (a mutation that does not fit arbitrary corpus IR)
                continue
            u.register_tree(m)
            ask(a, m, f"mutant {kind}", forward_refs=fwd, mutation=kind)
            for ra, rm in zip(a.regions, m.regions):
                ask(ra, rm, f"mutant {kind} (region)", forward_refs=fwd, mutation=kind)
            # CSE key equality for side-effect free ops with identical operands must follow the same relation
        # CSE OperationInfo on attached sibling ops with regions
        cases.append({"c": u.project(extras=True), "pairs": pairs})
        metas.append(meta)
        npairs += len(pairs)
    ctx.log(f"{n_trees} generated trees, {n_corpus} corpus modules, {npairs} pairs asked of the real is_structurally_equivalent")
    res = casecheck.run_cases("ir/IRIsoCases.tla", cases, min_per_shard=4)
    for idx, tail in res.mismatches:
        clause, j = tail[0], tail[1]
        m = metas[idx][j - 1]
        p = cases[idx]["pairs"][j - 1]
        ctx.violate(f"{m['what']} ({m['direction']}, root {m['root']}): implementation says {'equivalent' if p['impl'] else 'not equivalent'}, "
                    f"the definition says {'isomorphic' if clause == 'RejectsIsomorphicIR' else 'not isomorphic: ' + clause}"
                    + (f" [forward refs]" if m.get("forward_refs") else ""),
                    {"clause": clause, "what": m["what"].split(" (")[0], "root": m["root"], "forward_refs": bool(m.get("forward_refs")),
                     "mutation": m.get("mutation", ""), "pair": p, "raised": m.get("raised", "")}, clause=clause)
    ctx.coverage.update({"evaluations": npairs, "distinct_nontrivial": npairs - kinds.get("reflexive op", 0),
                         "pair_kinds": kinds, "trees": n_trees, "corpus_modules": n_corpus, "judge_states": res.states,
                         "rule": "generated test-dialect trees (multi-block, nested, external operands, 60% with use-before-def) and parseable corpus chunks <= 45 ops; pairs: reflexive "
                                 "(op/region/block/attached op), clone, and clones with one single-point mutation of each kind; both directions; "
                                 "non-trivial = every pair other than 'reflexive op'"})
    ctx.sample({"pairs": cases[0]["pairs"][:4], "meta": metas[0][:4]})
    ctx.assumptions += ["IRIso.tla's positional isomorphism is the property's relation; attribute/type equality is Python == (interned tokens)"]
