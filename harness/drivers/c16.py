"""C16: control-flow and loop lowerings preserve program results (translation validation).

Generated programs with nested scf.for / scf.if, constant and symbolic bounds (zero-trip and negative ranges),
loop-invariant and loop-variant operations and external calls inside loops are run through the REAL passes
convert-scf-to-cf, scf-for-loop-range-folding, scf-for-loop-flatten, scf-for-loop-unroll, licm and
control-flow-hoist; TLC executes before/after under spec/sem/Machine.tla (which gives scf its own semantics,
independent of the xDSL interpreter) and checks same results and same effects in the same order."""

from __future__ import annotations

from ..core import Ctx
from . import progs, tv

PASSES = ["convert-scf-to-cf", "scf-for-loop-range-folding", "scf-for-loop-flatten", "licm", "control-flow-hoist", "lower-affine", "scf-for-loop-unroll"]


def programs(ctx: Ctx, n: int):
    for k in range(n):
        rng = ctx.rng(f"p{k}")
        text, widths, rws = progs.gen_program(rng, allow=["addi", "subi", "muli", "andi", "xori", "divsi", "remui", "shli", "minsi"], control="scf",
                                              effects=rng.random() < 0.5, select=True, max_stmts=7, width=rng.choice([4, 8, 16]))
        yield text, widths, rws, f"gen{k}"
    for text, widths, rws in list(progs.loop_family())[:: 5 if ctx.quick else 1]:
        yield text, widths, rws, "loop-family"
    for text, widths, rws in progs.nest_family(ctx.rng("nest"), 160 if ctx.quick else 600):
        yield text, widths, rws, "nest-family"
    for text, widths, rws in progs.range_fold_family(ctx.rng("rf"), 40 if ctx.quick else 300):
        yield text, widths, rws, "range-fold-family"
    for text, widths, rws in progs.carried_family():
        yield text, widths, rws, "carried-family"
    for text, widths, rws in progs.affine_family(ctx.rng("affine"), 60 if ctx.quick else 400):
        yield text, widths, rws, "affine-family"


def run(ctx: Ctx):
    ctx.level = "translation_validation"
    cases, metas, stats = tv.tv_cases(ctx, PASSES, programs(ctx, 40 if ctx.quick else 500), 24 if ctx.quick else 32)
    ctx.log(f"{len(cases)} (program, pass) pairs changed by a pass; {stats}")
    tv.judge(ctx, cases, metas, "C16")
    ctx.coverage.update({"pass_stats": stats, "passes": PASSES,
                         "rule": "generated programs + exhaustive constant-bound loop family + loop nests + range-folding shapes + affine.for/affine.apply family + loop-carried permutation family x passes; only changed programs are executed"})
    ctx.sample({"pass": metas[0]["pass"], "before": metas[0]["text"], "after": metas[0].get("after", "")} if metas else "none")
    ctx.assumptions += ["Machine.tla is the reference semantics; a source loop with non-positive step is undefined and imposes nothing",
                        "lower-affine is exercised on affine.for with constant bounds and affine.apply (affine.if / load / store / parallel are not generated); frontend-desymrefy is not exercised"]
