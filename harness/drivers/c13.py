"""C13: dead-code elimination removes only unobservable code.

Model: spec/analysis/DCE.tla - declarative liveness over a program graph (reachable blocks, visited ops,
least fixpoint of 'not removable or used by a live op', kept = live with live ancestors) and what trivial
dead-code removal in the greedy driver may remove.  Binding: generated program graphs (pure / read-only /
writing / unknown-effect / terminator / symbol ops - including pure terminators and pure symbols defined
by the harness - dead chains and dead cycles across blocks, unreachable blocks, nested regions) are built
as real IR; the real `dce` pass, the `dce()` helper and GreedyRewritePatternApplier(dce_enabled) are run
and TLC (DCECases.tla) compares what survived with the model.  (The result-preservation half is checked
by the translation-validation route shared with C14: see harness/drivers/c14.py.)"""

from __future__ import annotations

from typing import Any

from .. import casecheck
from ..core import Ctx

_CLS: dict[str, Any] = {}


def op_classes():
    """test-dialect ops plus two harness-defined ones isolating the terminator / symbol clauses."""
    if _CLS:
        return _CLS
    from xdsl.dialects import test
    from xdsl.irdl import IRDLOperation, irdl_op_definition, traits_def, var_operand_def, var_region_def, var_result_def, var_successor_def
    from xdsl.traits import IsTerminator, Pure, SymbolOpInterface

    @irdl_op_definition
    class PureTermOp(IRDLOperation):
        name = "verif.pure_term"
        res = var_result_def()
        ops = var_operand_def()
        successor = var_successor_def()
        traits = traits_def(IsTerminator(), Pure())

    @irdl_op_definition
    class PureSymbolOp(IRDLOperation):
        name = "verif.pure_symbol"
        res = var_result_def()
        ops = var_operand_def()
        traits = traits_def(SymbolOpInterface(), Pure())

    from xdsl.irdl import var_region_def as _vr
    from xdsl.traits import RecursiveMemoryEffect

    @irdl_op_definition
    class RecOp(IRDLOperation):
        """an op whose memory effects are those of the ops nested in its (possibly multi-block) regions"""

        name = "verif.rec"
        res = var_result_def()
        ops = var_operand_def()
        regs = _vr()
        traits = traits_def(RecursiveMemoryEffect())

    from xdsl.dialects.builtin import UnregisteredOp

    _CLS.update({"unreg_term": UnregisteredOp.with_name("unknown.br"), "unreg": UnregisteredOp.with_name("unknown.op"),
                 "pure": test.TestPureOp, "read": test.TestReadOp, "write": test.TestWriteOp, "unknown": test.TestOp,
                 "term": test.TestTermOp, "pure_term": PureTermOp, "pure_symbol": PureSymbolOp, "symbol": test.TestSymbolOp, "rec": RecOp})
    return _CLS


def gen_graph(rng, max_blocks: int = 4, depth: int = 1):
    """Returns (module, op list, block list, graph dict for TLC)."""
    from xdsl.dialects.builtin import ModuleOp, StringAttr, i32
    from xdsl.ir import Block, Region

    C = op_classes()
    ops: list[Any] = []
    g_ops: list[dict[str, Any]] = []
    blocks: list[Any] = []
    g_blocks: list[dict[str, Any]] = []
    g_regions: list[dict[str, Any]] = []

    def new_region(parent_op_idx: int, level: int, outer_vals: list[tuple[Any, int]], mostly_removable: bool = False):
        rid = len(g_regions) + 1
        g_regions.append({"par": parent_op_idx, "first": 0})
        nb = rng.randint(1, max_blocks if level == 0 else 2)
        my_blocks = []
        for _ in range(nb):
            b = Block(arg_types=[i32] * rng.randint(0, 1))
            blocks.append(b)
            g_blocks.append({"reg": rid, "succ": []})
            my_blocks.append((b, len(blocks)))
        g_regions[rid - 1]["first"] = my_blocks[0][1]
        vals: list[tuple[Any, int]] = list(outer_vals)      # (value, defining op idx or 0)
        for b, _bid in my_blocks:
            vals += [(a, 0) for a in b.args]
        region_ops: list[tuple[Any, int]] = []
        for b, bid in my_blocks:
            for _ in range(rng.randint(0, 4)):
                kind = rng.choice(["pure", "pure", "pure", "read", "write", "unknown", "pure_symbol", "symbol", "unreg"] + (["rec", "rec"] if level < depth else []))
                if mostly_removable and rng.random() < 0.85:
                    kind = rng.choice(["pure", "pure", "read"])
                operands = [rng.choice(vals) for _ in range(rng.choice([0, 1, 1, 2]))] if vals else []
                regions = []
                idx = len(ops) + 1
                props = {"sym_name": StringAttr(f"s{idx}")} if kind == "symbol" else {}
                attrs = {"sym_name": StringAttr(f"s{idx}")} if kind == "pure_symbol" else {}
                op = C[kind].create(operands=[v for v, _ in operands], result_types=[i32] * rng.choice([0, 1, 1, 2]), properties=props, attributes=attrs)
                ops.append(op)
                g_ops.append({"rem": 1 if kind in ("pure", "read") else 0, "rec": 1 if kind == "rec" else 0, "blk": bid, "opn": [d for _, d in operands], "regs": [],
                              "kind": kind})
                b.add_op(op)
                vals += [(r, idx) for r in op.results]
                region_ops.append((op, idx))
                if level < depth and ((kind == "unknown" and rng.random() < 0.4) or kind == "rec"):
                    # a recursive-effect op gets a (possibly multi-block) region of mostly removable ops and pure terminators
                    sub = new_region(idx, level + 1, vals, mostly_removable=kind == "rec" and rng.random() < 0.8)
                    op.add_region(sub[0])
                    g_ops[idx - 1]["regs"].append(sub[1])
            # terminator
            kind = rng.choice(["term", "term", "pure_term", "unreg_term"])
            if mostly_removable and rng.random() < 0.85:
                kind = "pure_term"
            succ = [rng.choice(my_blocks) for _ in range(rng.choice([0, 1, 1, 2]))] if len(my_blocks) > 1 else []
            operands = [rng.choice(vals) for _ in range(rng.choice([0, 1]))] if vals else []
            idx = len(ops) + 1
            t = C[kind].create(operands=[v for v, _ in operands], successors=[sb for sb, _ in succ])
            ops.append(t)
            # a pure terminator is not removable on its own (IsTerminator), but it does not make an enclosing recursive-effect op observable
            g_ops.append({"rem": 0, "rec": 0, "blk": bid, "opn": [d for _, d in operands], "regs": [], "kind": kind, "pure_in_rec": 1 if kind == "pure_term" else 0})
            b.add_op(t)
            g_blocks[bid - 1]["succ"] = [sid for _, sid in succ]
        # dead cycles / forward references across blocks: rewire some operands of pure ops to later results
        later = [(r, i) for o, i in region_ops for r in o.results]
        for o, i in region_ops:
            if g_ops[i - 1]["kind"] in ("pure", "read"):
                for k in range(len(o.operands)):
                    if later and rng.random() < 0.25:
                        v, d = rng.choice(later)
                        o.operands[k] = v
                        g_ops[i - 1]["opn"][k] = d
        return Region([b for b, _ in my_blocks]), rid

    from xdsl.dialects import test

    holder = test.TestOp.create()
    ops.append(holder)
    g_ops.append({"rem": 0, "rec": 0, "blk": 1, "opn": [], "regs": [], "kind": "unknown"})
    # module body: region 1 / block 1 holds the holder op
    g_regions.append({"par": 0, "first": 1})
    body = Block()
    blocks.append(body)
    g_blocks.append({"reg": 1, "succ": []})
    body.add_op(holder)
    sub = new_region(1, 0, [])
    holder.add_region(sub[0])
    g_ops[0]["regs"].append(sub[1])
    module = ModuleOp(Region([body]))
    return module, ops, blocks, {"ops": [dict({k: v for k, v in o.items() if k not in ("kind", "pure_in_rec")}, eff=0 if o["kind"] in ("pure", "read", "pure_term", "pure_symbol", "rec") else 1) for o in g_ops], "blocks": g_blocks, "regions": g_regions}, [o["kind"] for o in g_ops]


def survivors(module, ops, blocks):
    alive_ops = {id(o) for o in module.walk()}
    alive_blocks = {id(b) for o in module.walk() for r in o.regions for b in r.blocks}
    return [i for i, o in enumerate(ops, 1) if id(o) in alive_ops], [i for i, b in enumerate(blocks, 1) if id(b) in alive_blocks]


def run(ctx: Ctx):
    from xdsl.context import Context
    from xdsl.pattern_rewriter import GreedyRewritePatternApplier, PatternRewriteWalker
    from xdsl.transforms import dead_code_elimination as D

    ctx.level = "exploration"
    rng = ctx.rng("graphs")
    cases: list[dict[str, Any]] = []
    metas: list[dict[str, Any]] = []
    n = 400 if ctx.quick else 8000
    kinds_seen: dict[str, int] = {}
    for t in range(n):
        for which in ("dce", "dce_fn", "applier"):
            grng = ctx.rng(f"g{t}")
            module, ops, blocks, g, kinds = gen_graph(grng, depth=grng.choice([0, 1, 1]))
            if which == "dce":
                for k in kinds:
                    kinds_seen[k] = kinds_seen.get(k, 0) + 1
            try:
                if which == "dce":
                    D.DeadCodeElimination().apply(Context(), module)
                elif which == "dce_fn":
                    D.dce(module)
                else:
                    PatternRewriteWalker(GreedyRewritePatternApplier([], dce_enabled=True), walk_reverse=rng.random() < 0.5).rewrite_module(module)
            except Exception as e:  # noqa: BLE001
                ctx.diverge("pass raised", which=which, error=f"{type(e).__name__}: {str(e)[:120]}")
                continue
            kept, keptb = survivors(module, ops, blocks)
            cases.append({"g": g, "pass": "dce" if which == "dce" else "applier", "kept": kept, "keptb": keptb})
            metas.append({"which": which, "graph": t, "kinds": kinds})
    ctx.log(f"{n} program graphs x 3 entry points run through the real DCE code")
    res = casecheck.run_cases("analysis/DCECases.tla", cases, min_per_shard=100)
    for idx, tail in res.mismatches:
        c, m = cases[idx], metas[idx]
        removed = [i for i in range(1, len(c["g"]["ops"]) + 1) if i not in c["kept"]]
        ctx.violate(f"[{m['which']}] graph #{m['graph']}: {tail[0]} (removed ops {[(i, m['kinds'][i-1]) for i in removed][:8]}, kept blocks {c['keptb']})",
                    {"clause": tail[0], "entry": m["which"], "removed_kinds": sorted({m['kinds'][i - 1] for i in removed}), "case": c, "kinds": m["kinds"]}, clause=tail[0])
    ctx.coverage.update({"evaluations": len(cases), "distinct_nontrivial": len({repr(c["g"]) for c in cases}), "op_kinds_generated": kinds_seen,
                         "judge_states": res.states,
                         "rule": "generated program graphs (1-4 blocks per region, nested regions, 8 op kinds, dead chains/cycles via forward operand rewiring, "
                                 "unreachable blocks) x {dce pass, dce() helper, greedy applier with dce_enabled}; distinct = distinct graphs"})
    ctx.sample({"graph": cases[0]["g"], "kept": cases[0]["kept"], "keptb": cases[0]["keptb"], "kinds": metas[0]["kinds"]})
    ctx.assumptions += ["rem (would be trivially dead) per op kind: test.pureop / test.op_with_memread removable; writes, unknown effects, terminators and symbols not",
                        "ops holding regions are not removable except verif.rec (RecursiveMemoryEffect): removable iff no nested op in any block has a write / unknown effect"]
