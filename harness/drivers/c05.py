"""C05: custom assembly formats round-trip for every registered operation.

Model: spec/ir/IRIso.tla (structural equivalence as a positional bijection of values and blocks, the same reference
C03 / C04 use) is what "equivalent IR" means; the TLC judge spec/ir/IRIsoCases.tla evaluates it on joint projections
of three real IRs per case: the original, what the parser makes of its custom printing, and what it makes of its
generic printing (original ~ custom-parsed, custom-parsed ~ generic-parsed).  Sources: (a) a family of synthetic
operations whose declarative formats cover the directive kinds (operands / results / types / functional-type,
optional groups with keywords and anchors, nested optional groups, variadics with segment sizes, properties with
defaults, unit properties, symbol names, attributes, regions, optional regions, successors, attr-dict with and
without keyword) instantiated in every combination of optional presence / variadic length / default vs non-default /
extra attribute; (b) the .mlir corpus, custom- and generic-form inputs alike; (c) outputs of the corpus files' own
RUN pipelines."""

from __future__ import annotations

import contextlib
import io
import itertools
from typing import Any

from .. import casecheck
from ..core import Ctx, Hang, time_limit

_DIALECT = None


def vf_dialect():
    """Synthetic operations with declarative assembly formats (dialect `vf`)."""
    global _DIALECT
    if _DIALECT is not None:
        return _DIALECT
    from xdsl.dialects.builtin import I32, BoolAttr, IntegerAttr, StringAttr, SymbolNameConstraint, UnitAttr, i32
    from xdsl.ir import Dialect
    from xdsl.irdl import (AttrSizedOperandSegments, IRDLOperation, attr_def, irdl_op_definition, operand_def, opt_operand_def, opt_prop_def,
                           opt_region_def, prop_def, region_def, result_def, successor_def, traits_def, var_operand_def, var_result_def)
    from xdsl.traits import IsTerminator, NoTerminator

    ops = []

    def op(cls):
        ops.append(irdl_op_definition(cls))
        return ops[-1]

    @op
    class Two(IRDLOperation):
        name = "vf.two"
        lhs = operand_def()
        rhs = operand_def()
        res = result_def()
        assembly_format = "$lhs `,` $rhs attr-dict `:` type($lhs) `,` type($rhs) `->` type($res)"

    @op
    class Var(IRDLOperation):
        name = "vf.var"
        ins = var_operand_def()
        outs = var_result_def()
        assembly_format = "$ins attr-dict `:` functional-type($ins, $outs)"

    @op
    class Opt(IRDLOperation):
        name = "vf.opt"
        arg = opt_operand_def()
        assembly_format = "($arg^ `:` type($arg))? attr-dict"

    @op
    class OptKw(IRDLOperation):
        name = "vf.optkw"
        first = operand_def()
        arg = opt_operand_def()
        assembly_format = "$first `:` type($first) (`with` $arg^ `:` type($arg))? attr-dict"

    @op
    class Props(IRDLOperation):
        name = "vf.props"
        prop = prop_def(IntegerAttr[I32], default_value=IntegerAttr(0, i32))
        opt_prop = opt_prop_def(IntegerAttr[I32])
        assembly_format = "(`prop` $prop^)? (`opt_prop` $opt_prop^)? attr-dict"

    @op
    class Unit(IRDLOperation):
        name = "vf.unit"
        flag = opt_prop_def(UnitAttr)
        v = operand_def()
        assembly_format = "(`flag` $flag^)? $v `:` type($v) attr-dict"

    @op
    class Sym(IRDLOperation):
        name = "vf.sym"
        sym_name = prop_def(SymbolNameConstraint())
        other = opt_prop_def(StringAttr)
        assembly_format = "$sym_name (`other` $other^)? attr-dict"

    @op
    class Reg(IRDLOperation):
        name = "vf.region"
        body = region_def()
        traits = traits_def(NoTerminator())
        assembly_format = "attr-dict-with-keyword $body"

    @op
    class OptReg(IRDLOperation):
        name = "vf.optregion"
        body = opt_region_def()
        traits = traits_def(NoTerminator())
        assembly_format = "attr-dict-with-keyword ($body^)?"

    @op
    class TwoVar(IRDLOperation):
        name = "vf.twovar"
        a = var_operand_def()
        b = var_operand_def()
        irdl_options = (AttrSizedOperandSegments(as_property=True),)
        assembly_format = "`(` $a `)` `(` $b `)` attr-dict `:` `(` type($a) `)` `(` type($b) `)`"

    @op
    class Attr(IRDLOperation):
        name = "vf.attr"
        attr = attr_def(IntegerAttr[I32])
        assembly_format = "$attr attr-dict"

    @op
    class Nested(IRDLOperation):
        name = "vf.nested"
        prop = opt_prop_def(IntegerAttr[I32])
        arg = opt_operand_def()
        assembly_format = "(`with` $prop^ ($arg^ `:` type($arg))?)? attr-dict"

    @op
    class Succ(IRDLOperation):
        name = "vf.succ"
        succ = successor_def()
        traits = traits_def(IsTerminator())
        assembly_format = "$succ attr-dict"

    @op
    class DefAttr(IRDLOperation):
        name = "vf.defattr"
        flag = attr_def(BoolAttr, default_value=BoolAttr.from_bool(False))
        level = attr_def(IntegerAttr[I32], default_value=IntegerAttr(2, i32))
        assembly_format = "attr-dict"

    @op
    class OpsKw(IRDLOperation):
        name = "vf.operands"
        ins = var_operand_def()
        res = var_result_def()
        assembly_format = "operands attr-dict `:` functional-type(operands, results)"

    _DIALECT = Dialect("vf", ops, [])
    return _DIALECT


def fresh_ctx():
    from xdsl.context import Context
    from xdsl.dialects import get_all_dialects

    ctx = Context(allow_unregistered=True)
    for name, factory in get_all_dialects().items():
        ctx.register_dialect(name, factory)
    ctx.load_dialect(vf_dialect())
    for cls in _FMT_CLASSES.values():      # operations defined from the formats DeclFormat.tla enumerates
        if cls is not None:
            ctx.load_op(cls)
    return ctx


def synthetic_modules() -> list[tuple[Any, str]]:
    """Every combination of optional presence / variadic length / default vs non-default / extra attribute."""
    from xdsl.dialects import test
    from xdsl.dialects.builtin import IndexType, IntegerAttr, ModuleOp, StringAttr, UnitAttr, f32, i32
    from xdsl.ir import Block, Region

    d = {o.name: o for o in vf_dialect().operations}
    out: list[tuple[Any, str]] = []
    tys = [i32, f32, IndexType()]
    extras = [{}, {"x": UnitAttr()}, {"x": IntegerAttr(7, i32), "name with space": StringAttr("s")}]

    def producer(n):
        return test.TestOp.create(result_types=[tys[k % 3] for k in range(n)])

    def mod(ops, label):
        out.append((ModuleOp(ops), label))

    def pm(make, label):      # a fresh producer of three values per module
        p = producer(3)
        mod([p, make(p)], label)

    for ex in extras:
        for t1, t2 in itertools.product(range(3), repeat=2):
            pm(lambda p: d["vf.two"].build(operands=[p.results[t1], p.results[t2]], result_types=[tys[(t1 + t2) % 3]], attributes=dict(ex)), "vf.two")
        for ni, no in itertools.product(range(3), repeat=2):
            pm(lambda p: d["vf.var"].build(operands=[list(p.results[:ni])], result_types=[[tys[k] for k in range(no)]], attributes=dict(ex)), f"vf.var {ni}->{no}")
            pm(lambda p: d["vf.operands"].build(operands=[list(p.results[:ni])], result_types=[[tys[k] for k in range(no)]], attributes=dict(ex)), f"vf.operands {ni}->{no}")
            pm(lambda p: d["vf.twovar"].build(operands=[list(p.results[:ni]), list(p.results[:no])], attributes=dict(ex)), f"vf.twovar {ni},{no}")
        for present in (0, 1):
            pm(lambda p: d["vf.opt"].build(operands=[[p.results[1]] if present else []], attributes=dict(ex)), f"vf.opt {present}")
            pm(lambda p: d["vf.optkw"].build(operands=[p.results[0], [p.results[1]] if present else []], attributes=dict(ex)), f"vf.optkw {present}")
            pm(lambda p: d["vf.unit"].build(operands=[p.results[0]], properties={"flag": UnitAttr()} if present else {}, attributes=dict(ex)), f"vf.unit {present}")
            mod([d["vf.sym"].build(properties={"sym_name": StringAttr("s"), **({"other": StringAttr("o p")} if present else {})}, attributes=dict(ex))], f"vf.sym {present}")
            body = Region(Block([test.TestOp.create()])) if present else Region()
            mod([d["vf.optregion"].build(regions=[[body] if present else []], attributes=dict(ex))], f"vf.optregion {present}")
            mod([d["vf.region"].build(regions=[Region(Block([test.TestOp.create()] if present else []))], attributes=dict(ex))], f"vf.region {present}")
        for pv, ov in itertools.product((None, 0, 5, -1), (None, 0, 9)):
            props = {}
            if pv is not None:
                props["prop"] = IntegerAttr(pv, i32)
            if ov is not None:
                props["opt_prop"] = IntegerAttr(ov, i32)
            mod([d["vf.props"].build(properties=props, attributes=dict(ex))], f"vf.props {pv},{ov}")
        for pv, present in itertools.product((None, 3), (0, 1)):
            if pv is None and present:
                continue
            pm(lambda p: d["vf.nested"].build(operands=[[p.results[0]] if present else []], properties={"prop": IntegerAttr(pv, i32)} if pv is not None else {}, attributes=dict(ex)),
               f"vf.nested {pv},{present}")
        for v in (0, -1, 2147483647):
            mod([d["vf.attr"].build(attributes={"attr": IntegerAttr(v, i32), **ex})], f"vf.attr {v}")
        from xdsl.dialects.builtin import BoolAttr

        # default first, then non-default, then default again: the printer must not remember what it elided
        for fl, lv in ((False, 2), (True, 2), (False, 5), (True, 7), (False, 2)):
            mod([d["vf.defattr"].build(attributes={"flag": BoolAttr.from_bool(fl), "level": IntegerAttr(lv, i32), **ex})], f"vf.defattr {fl},{lv}")
        b2 = Block([test.TestTermOp.create()])
        b1 = Block([d["vf.succ"].build(successors=[b2], attributes=dict(ex))])
        mod([test.TestOp.create(regions=[Region([b1, b2])])], "vf.succ")
    return out


DIRECTED = {
    "scf.for with a discardable attribute": '''"builtin.module"() ({
  %lb, %ub, %st = "test.op"() : () -> (index, index, index)
  "scf.for"(%lb, %ub, %st) ({
  ^bb0(%i : index):
    "scf.yield"() : () -> ()
  }) {my.attr = 1 : i32} : (index, index, index) -> ()
}) : () -> ()''',
    "scf.for with iter_args and an attribute": '''"builtin.module"() ({
  %lb, %ub, %st, %x = "test.op"() : () -> (index, index, index, i32)
  %r = "scf.for"(%lb, %ub, %st, %x) ({
  ^bb0(%i : index, %a : i32):
    "scf.yield"(%a) : (i32) -> ()
  }) {my.attr} : (index, index, index, i32) -> i32
}) : () -> ()''',
    "memref.alloc with attributes named like parts of operandSegmentSizes": '''"builtin.module"() ({
  %m = "memref.alloc"() <{operandSegmentSizes = array<i32: 0, 0>}> {Sizes = 3 : i32, operand = unit} : () -> memref<2xf32>
  %n = "memref.alloca"() <{operandSegmentSizes = array<i32: 0, 0>}> {Segment = unit} : () -> memref<2xf32>
}) : () -> ()''',
    "scf.execute_region with results and an attribute": '''"builtin.module"() ({
  %r = "scf.execute_region"() ({
    %v = "test.op"() : () -> i32
    "scf.yield"(%v) : (i32) -> ()
  }) {x = unit} : () -> i32
}) : () -> ()''',
    "scf.execute_region without results": '''"builtin.module"() ({
  "scf.execute_region"() ({
    "scf.yield"() : () -> ()
  }) : () -> ()
}) : () -> ()''',
    "scf.if with an attribute": '''"builtin.module"() ({
  %c = "test.op"() : () -> i1
  "scf.if"(%c) ({
    "scf.yield"() : () -> ()
  }, {
    "scf.yield"() : () -> ()
  }) {x = unit} : (i1) -> ()
}) : () -> ()''',
    "func.func declaration with result attributes": '''"builtin.module"() ({
  "func.func"() <{function_type = () -> (f32, i64), sym_name = "f", sym_visibility = "private", res_attrs = [{a.b = 0 : i32}, {}]}> ({}) : () -> ()
}) : () -> ()''',
    "func.func with attributes on some results only": '''"builtin.module"() ({
  "func.func"() <{function_type = () -> (f32, i64, f32), sym_name = "some", res_attrs = [{a.b = 0 : i32}, {}, {a.c}]}> ({
    %x, %y = "test.op"() : () -> (f32, i64)
    "func.return"(%x, %y, %x) : (f32, i64, f32) -> ()
  }) : () -> ()
  "func.func"() <{function_type = () -> (f32, f32), sym_name = "last", res_attrs = [{}, {a.b = 1 : i32}]}> ({
    %x = "test.op"() : () -> f32
    "func.return"(%x, %x) : (f32, f32) -> ()
  }) : () -> ()
}) : () -> ()''',
    "func.func with attributes on some arguments only": '''"builtin.module"() ({
  "func.func"() <{function_type = (f32, i64) -> (), sym_name = "g", arg_attrs = [{}, {a.b = 0 : i32}]}> ({
  ^bb0(%a : f32, %b : i64):
    "func.return"() : () -> ()
  }) : () -> ()
}) : () -> ()''',
    "memref.load and store with discardable attributes": '''"builtin.module"() ({
  %m, %i, %v = "test.op"() : () -> (memref<4xf32>, index, f32)
  %x = "memref.load"(%m, %i) {my.checked = false} : (memref<4xf32>, index) -> f32
  "memref.store"(%v, %m, %i) {my.checked = false, other = 0 : i64} : (f32, memref<4xf32>, index) -> ()
}) : () -> ()''',
    "cf.switch with cases of different operand types": '''builtin.module {
  func.func @mixed(%flag : i32, %a : i32, %b : i64, %c : f32) {
    cf.switch %flag : i32, [
      default: ^bb1(%a : i32),
      1: ^bb2(%a, %a : i32, i32),
      2: ^bb3,
      3: ^bb4(%b, %c : i64, f32),
      4: ^bb1(%a : i32)
    ]
  ^bb1(%0 : i32):
    func.return
  ^bb2(%1 : i32, %2 : i32):
    func.return
  ^bb3:
    func.return
  ^bb4(%3 : i64, %4 : f32):
    func.return
  }
}''',
    "llvm.call with calling convention and tail-call kind": '''builtin.module {
  llvm.func @external_func(i32)
  llvm.func @caller(%arg0 : i32) {
    llvm.call tail @external_func(%arg0) : (i32) -> ()
    llvm.call fastcc @external_func(%arg0) : (i32) -> ()
    llvm.call fastcc tail @external_func(%arg0) : (i32) -> ()
    llvm.call fastcc musttail @external_func(%arg0) : (i32) -> ()
    llvm.return
  }
}''',
    "scf.while and scf.if with results": '''builtin.module {
  %c, %x = "test.op"() : () -> (i1, i32)
  %r = scf.if %c -> (i32) {
    scf.yield %x : i32
  } else {
    %y = arith.addi %x, %x : i32
    scf.yield %y : i32
  }
  %w = scf.while (%a = %x) : (i32) -> i32 {
    %cond = "test.op"(%a) : (i32) -> i1
    scf.condition(%cond) %a : i32
  } do {
  ^bb0(%b : i32):
    scf.yield %b : i32
  }
}''',
    "arith ops with attributes and fastmath": '''"builtin.module"() ({
  %a, %b = "test.op"() : () -> (f32, f32)
  %c = "arith.addf"(%a, %b) <{fastmath = #arith.fastmath<fast>}> {k = 1 : i8} : (f32, f32) -> f32
  %d = "arith.addf"(%a, %b) <{fastmath = #arith.fastmath<none>}> {k = false} : (f32, f32) -> f32
  %e = "arith.constant"() <{value = 0 : i1}> {k} : () -> i1
}) : () -> ()''',
}


def directed_modules() -> list[tuple[Any, str]]:
    """Hand-written formats in shapes the corpus does not contain (discardable attributes on structured ops, partial
    argument / result attributes, attribute names near reserved ones, forward references used twice)."""
    from xdsl.parser import Parser

    out = []
    for label, text in DIRECTED.items():
        try:
            out.append((Parser(fresh_ctx(), text).parse_module(), label))
        except Exception:  # noqa: BLE001  (an input this tree does not accept is not a case)
            continue
    # a value used several times before its definition (blocks not in dominance order), built through the API so
    # that the input does not depend on the parser under test
    from xdsl.dialects import arith, cf, func
    from xdsl.dialects.builtin import ModuleOp, i32
    from xdsl.ir import Block, Region

    for uses in (2, 3):
        c = arith.ConstantOp.from_int_and_width(1, i32)
        use_ops: list[Any] = []
        acc = c.result
        for _ in range(uses):
            a = arith.AddiOp(c.result, acc)
            use_ops.append(a)
            acc = a.result
        b_use = Block(use_ops + [func.ReturnOp()])
        b_def = Block([c, cf.BranchOp(b_use)])
        b_entry = Block([cf.BranchOp(b_def)])
        f = func.FuncOp("fwd", ((), ()), Region([b_entry, b_use, b_def]))
        out.append((ModuleOp([f]), f"a value used {uses + 1} times before its definition"))
    return out


MC_CFG = "SPECIFICATION Spec\nCONSTANT MaxLen = {n}\nINVARIANT Emit\nINVARIANT KeywordSeparatedFormatsRoundTrip\n"
_FMT_CLASSES: dict[str, Any] = {}


def format_text(fmt) -> str:
    parts = []
    for e in fmt:
        if e[0] == "lit":
            parts.append(f"`{e[1]}`")
        elif e[0] == "op":
            parts.append(f"${e[1]}")
        else:
            parts.append(f"(`{e[1]}` ${e[2]}^)?" if e[1] else f"(${e[2]}^)?")
    used = [n for n in ("x", "y", "z") if any((e[0] == "op" and e[1] == n) or (e[0] == "grp" and e[2] == n) for e in fmt)]
    return " ".join(parts) + " attr-dict `:`" + "".join(f" `t{n}` type(${n})" for n in used), used


def format_class(fmt):
    """The real operation class for a model format, or None when the engine refuses the format at definition time."""
    from xdsl.irdl import AttrSizedOperandSegments, IRDLOperation, irdl_op_definition, operand_def, opt_operand_def, var_operand_def
    from xdsl.utils.exceptions import PyRDLOpDefinitionError

    text, used = format_text(fmt)
    if text in _FMT_CLASSES:
        return _FMT_CLASSES[text], used
    ns: dict[str, Any] = {"name": f"vf.f{len(_FMT_CLASSES)}", "assembly_format": text}
    if "x" in used:
        ns["x"] = operand_def()
    if "y" in used:
        ns["y"] = opt_operand_def()
    if "z" in used:
        ns["z"] = var_operand_def()
    if "y" in used and "z" in used:
        ns["irdl_options"] = (AttrSizedOperandSegments(as_property=True),)
    try:
        cls = irdl_op_definition(type("VF_" + ns["name"].replace(".", "_"), (IRDLOperation,), ns))
    except PyRDLOpDefinitionError:
        cls = None
    _FMT_CLASSES[text] = cls
    return cls, used


def model_formats(ctx: Ctx, maxlen: int):
    """TLC enumerates the formats of DeclFormat.tla and, per format, the instances its greedy parser does not give back."""
    from .. import tlc

    r = tlc.run("irdl/DeclFormat.tla", cfg_text=MC_CFG.format(n=maxlen), workers=1, timeout=3000)   # one worker: the records are multi-line
    if r.violated:
        raise tlc.TLCMachineryError(f"DeclFormat.tla violates {r.violated}:\n" + "\n".join(r.out.splitlines()[-20:]))
    fmts = []
    for rec in r.records:
        if len(rec) >= 4 and rec[1] == "fmt":
            fmts.append((rec[2], rec[3]))
    ctx.cov_add("states", r.distinct)
    ctx.coverage.setdefault("models", {})[f"DeclFormat MaxLen={maxlen}"] = {"formats": len(fmts), "ambiguous_in_the_model": sum(1 for _f, a in fmts if a)}
    return fmts


def print_op(op, generic: bool) -> str:
    from xdsl.printer import Printer

    buf = io.StringIO()
    Printer(stream=buf, print_generic_format=generic).print_op(op)
    return buf.getvalue()


def parse(text: str):
    from xdsl.parser import Parser

    return Parser(fresh_ctx(), text).parse_module()


def roundtrip(ctx: Ctx, module, meta: dict[str, Any], cases: list[Any], metas: list[Any]):
    from ..project import Universe

    try:
        module.verify()
    except Exception:  # noqa: BLE001  (the property is about verified IR)
        ctx.cov_add("unverified_inputs_skipped")
        return
    try:
        custom = print_op(module, False)
        generic = print_op(module, True)
    except Exception as e:  # noqa: BLE001
        cases.append({"failed": "CustomFormPrints"})
        metas.append(dict(meta, text="", error=f"{type(e).__name__}: {str(e)[:200]}"))
        return
    parsed = []
    for which, text in (("custom", custom), ("generic", generic)):
        try:
            with time_limit(20.0):
                parsed.append(parse(text))
        except Hang:
            ctx.diverge("parser did not return within 20 s", **meta)
            return
        except Exception as e:  # noqa: BLE001
            if which == "generic":      # the generic form is C04's subject
                ctx.diverge("generic form does not parse back", error=f"{type(e).__name__}: {str(e)[:120]}", **meta)
                return
            cases.append({"failed": "CustomFormParsesBack"})
            metas.append(dict(meta, text=custom, error=f"{type(e).__name__}: {str(e)[:300]}"))
            return
    meta = dict(meta, first_difference=first_difference(module, parsed[0]))
    u = Universe()
    for m in (module, parsed[0], parsed[1]):
        u.register_tree(m)
    cases.append({"failed": "", "c": u.project(extras=True, normalize=True),
                  "pairs": [{"kind": "must", "ra": ["op", u.op(module)], "rb": ["op", u.op(parsed[0])]},
                            {"kind": "must", "ra": ["op", u.op(parsed[0])], "rb": ["op", u.op(parsed[1])]}]})
    metas.append(dict(meta, text=custom))


def first_difference(a, b) -> dict[str, str]:
    """Where the custom-parsed IR first differs from the original (walk order): operation and attribute / property name.
    Only used to describe (and key) a violation TLC reported."""
    for x, y in zip(a.walk(), b.walk()):
        if x.name != y.name:
            return {"op": x.name, "key": "<operation name>"}
        for kind, dx, dy in (("property", x.properties, y.properties), ("attribute", x.attributes, y.attributes)):
            for k in sorted(set(dx) | set(dy)):
                if dx.get(k) != dy.get(k):
                    return {"op": x.name, "key": f"{kind} {k}", "class": "dense_resource key renamed" if "dense_resource<" in str(dx.get(k)) else ""}
        if len(x.operands) != len(y.operands) or [r.type for r in x.results] != [r.type for r in y.results] or len(x.regions) != len(y.regions):
            return {"op": x.name, "key": "<operands / result types / regions>"}
        for rx, ry in zip(x.regions, y.regions):
            if len(rx.blocks) != len(ry.blocks) or any([t.type for t in bx.args] != [t.type for t in by.args] for bx, by in zip(rx.blocks, ry.blocks)):
                return {"op": x.name, "key": "<blocks / block arguments>"}
    return {"op": "", "key": ""}


def run(ctx: Ctx):
    ctx.level = "exploration"
    q = ctx.quick
    cases: list[Any] = []
    metas: list[Any] = []
    syn = synthetic_modules()
    for m, label in syn:
        roundtrip(ctx, m, {"source": "synthetic declarative formats", "file": label}, cases, metas)
    for m, label in directed_modules():
        roundtrip(ctx, m, {"source": "directed hand-written formats", "file": label}, cases, metas)
    # formats enumerated by TLC from DeclFormat.tla, defined for real, instantiated in every way
    from xdsl.dialects import test as _test
    from xdsl.dialects.builtin import ModuleOp as _ModuleOp, UnitAttr as _UnitAttr, f32 as _f32, i32 as _i32, IndexType as _IndexType

    fmts = model_formats(ctx, 3 if q else 4)
    stats = {"refused_by_the_engine": 0, "accepted": 0, "accepted_but_ambiguous_in_the_model": 0, "refused_although_unambiguous_in_the_model": 0}
    model_bad: dict[int, bool] = {}
    for fmt, ambiguous in fmts:
        cls, used = format_class(fmt)
        if cls is None:
            stats["refused_by_the_engine"] += 1
            if not ambiguous:
                stats["refused_although_unambiguous_in_the_model"] += 1
            continue
        stats["accepted"] += 1
        if ambiguous:
            stats["accepted_but_ambiguous_in_the_model"] += 1
        bad = {(tuple((n, a["xyz".index(n)]) for n in used), a[3]) for a in ambiguous} if ambiguous else set()
        counts = {"x": [1], "y": [0, 1], "z": [0, 1, 2]}
        for combo in itertools.product(*[counts[n] for n in used]):
            for d in (0, 1):
                p = _test.TestOp.create(result_types=[_i32, _f32, _IndexType()])
                pos, operands = 0, []
                for n, c in zip(used, combo):
                    vals = [p.results[(pos + j) % 3] for j in range(c)]
                    pos += c
                    operands.append(vals[0] if n == "x" else vals)
                try:
                    op = cls.build(operands=operands, attributes={"u": _UnitAttr()} if d else {})
                except Exception:  # noqa: BLE001
                    continue
                before = len(cases)
                roundtrip(ctx, _ModuleOp([p, op]), {"source": "formats enumerated by DeclFormat.tla", "file": f"{format_text(fmt)[0]} with {dict(zip(used, combo))}{' and an attribute' if d else ''}"}, cases, metas)
                if len(cases) > before:
                    model_bad[before] = (tuple(zip(used, combo)), d) in bad
    ctx.coverage["declarative_formats_from_the_model"] = stats
    n_syn = len(cases)
    from .c01_c2s import corpus_modules

    for name, module, _x in corpus_modules(ctx.rng("corpus"), 400 if q else 6000, max_ops=80):
        roundtrip(ctx, module, {"source": "corpus", "file": name}, cases, metas)
    n_corpus = len(cases) - n_syn
    from . import c17
    from xdsl.transforms import get_all_passes

    prng = ctx.rng("pass-outputs")
    idx = [(n, c, p) for (n, c, p) in c17.corpus_index(ctx.rng("corpus-index"), None) if p and len(c) < 8000]
    prng.shuffle(idx)
    allp = get_all_passes()
    n_out = 0
    for name, chunk, pipes in idx:
        if n_out >= (150 if q else 3000):
            break
        specs = [sp for sp in c17.parse_specs(prng.choice(pipes)) if sp.name in allp]
        if not specs:
            continue
        m = c17.parse_input(chunk)
        if m is None:
            continue
        try:
            with time_limit(30.0), contextlib.redirect_stdout(io.StringIO()), contextlib.redirect_stderr(io.StringIO()):
                xc = c17.all_ctx()
                for sp in specs:
                    allp[sp.name]().from_pass_spec(sp).apply(xc, m)
                m.verify()
        except BaseException as e:  # noqa: BLE001
            if isinstance(e, (KeyboardInterrupt, SystemExit)):
                raise
            continue
        if sum(1 for _ in m.walk()) > 120:
            continue
        n_out += 1
        roundtrip(ctx, m, {"source": "pass output", "file": name + " after " + ",".join(sp.name for sp in specs)}, cases, metas)
    ctx.log(f"{n_syn} synthetic, {n_corpus} corpus, {n_out} pass-output modules printed in custom and generic form and re-parsed")
    judged = [c for c in cases if not c["failed"]]
    idx_map = [i for i, c in enumerate(cases) if not c["failed"]]
    res = casecheck.run_cases("ir/IRIsoCases.tla", [{"c": c["c"], "pairs": c["pairs"]} for c in judged], min_per_shard=10, max_per_shard=1500)

    def ops_of(text: str) -> list[str]:
        import re
        return sorted(set(re.findall(r"(?:^|\s|=\s)([a-z_][\w]*\.[\w.]+)", text)))[:12]

    n_amb_real = 0
    for i, c in enumerate(cases):
        if c["failed"]:
            m = metas[i]
            if model_bad.get(i):      # DeclFormat.tla: no greedy parser gives this instance back - the format should have been refused
                n_amb_real += 1
                ctx.diverge("an ambiguous format the engine accepts: " + m["file"], clause=c["failed"])
                continue
            ctx.violate(f"[{m['source']}] {m['file']}: {c['failed']} fails: {m['error']}\n{m['text'][:500]}",
                        {"clause": c["failed"], "source": m["source"], "file": m["file"], "error": m["error"][:160], "text": m["text"][:2000]}, clause=c["failed"])
    by_case: dict[int, dict[int, Any]] = {}
    for idx, tail in res.mismatches:
        by_case.setdefault(idx, {})[int(tail[1])] = tail[0]
    for idx, pairs in by_case.items():
        i = idx_map[idx]
        m = metas[i]
        if model_bad.get(i):
            n_amb_real += 1
            ctx.diverge("an ambiguous format the engine accepts: " + m["file"], clause="CustomFormParsesToEquivalentIR")
            continue
        # when the custom form does not give back the original, its disagreement with the generic form is the same failure
        j = 1 if 1 in pairs else 2
        which = "CustomFormParsesToEquivalentIR" if j == 1 else "CustomAndGenericFormsAgree"
        fd = m.get("first_difference", {"op": "", "key": ""})
        ctx.violate(f"[{m['source']}] {m['file']}: {which} ({pairs[j]}; first difference at {fd['op']} {fd['key']})\n{m['text'][:500]}",
                    {"clause": which, "detail": str(pairs[j]), "op": fd["op"], "key": fd["key"], "difference_class": fd.get("class", ""), "source": m["source"], "file": m["file"],
                     "text": m["text"][:2000]}, clause=which)
    ctx.coverage["declarative_formats_from_the_model"]["instances_of_ambiguous_formats_that_do_not_round_trip_for_real"] = n_amb_real
    ctx.coverage["declarative_formats_from_the_model"]["instances_the_model_calls_ambiguous"] = sum(1 for v in model_bad.values() if v)
    op_names = set()
    for m in metas:
        op_names.update(ops_of(m["text"]))
    ctx.coverage.update({"evaluations": len(cases), "distinct_nontrivial": len({m["text"] for m in metas}), "synthetic_instances": n_syn, "corpus_chunks": n_corpus,
                         "pass_outputs": n_out, "judge_states": res.states, "operation_names_seen_in_custom_text": len(op_names),
                         "rule": "synthetic declarative formats in every combination; parseable corpus chunks <= 80 ops; outputs of the corpus files' own RUN pipelines; distinct = distinct custom texts"})
    ctx.sample({"source": metas[0]["source"], "file": metas[0]["file"], "text": metas[0]["text"][:300]})
    ctx.assumptions += ["attribute / property / type values are compared by Python == after re-parsing; literal fidelity itself is C06",
                        "equivalence normalisation as in C04: an attribute-dictionary entry named like a declared property counts as that property; a property equal to its declared default counts as absent",
                        "operations are covered as far as they occur in the corpus, in pass outputs, or in the synthetic family; a failure of the generic form is C04's subject (divergence here)"]
