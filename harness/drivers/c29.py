"""C29: symbol lookup returns the operation the nesting rules designate.

Model: spec/misc/SymbolTable.tla (nearest enclosing table, nested tables, private symbols refused).
Binding: every tree of a bounded shape space (nodes: named/unnamed symbol tables, non-table symbols, plain
region ops; visibilities; names a/b) is built as verified nested IR; every flat and nested reference is
looked up from every operation through SymbolTable.lookup_nearest_symbol_from / lookup_symbol_in, the
cached SymbolTableCollection variants and traits.SymbolTable.lookup_symbol; TLC computes Lookup."""

from __future__ import annotations

import itertools
from typing import Any

from .. import casecheck
from ..core import Ctx

KINDS = ["tab", "tabsym", "sym", "symattr", "plain"]   # unnamed table, named table (symbol), non-table symbol (name stored as
#                                                          property / as attribute), plain op with a region
_ATTRSYM: list = []


def attr_symbol_cls():
    """A symbol op that stores sym_name in its ATTRIBUTE dictionary (as ml_program.global, riscv_func.func ... do)."""
    if not _ATTRSYM:
        from xdsl.dialects.builtin import StringAttr
        from xdsl.irdl import IRDLOperation, attr_def, irdl_op_definition, traits_def, var_region_def
        from xdsl.traits import SymbolOpInterface

        @irdl_op_definition
        class AttrSymbolOp(IRDLOperation):
            name = "verif.attr_symbol"
            sym_name = attr_def(StringAttr)
            regs = var_region_def()
            traits = traits_def(SymbolOpInterface())

        _ATTRSYM.append(AttrSymbolOp)
    return _ATTRSYM[0]
API = ["utils.lookup_nearest_symbol_from", "collection.lookup_nearest_symbol_from", "traits.SymbolTable.lookup_symbol",
       "utils.lookup_symbol_in(nearest table)", "collection.lookup_symbol_in(nearest table)"]


def build(tree: list[dict[str, Any]]):
    """tree[0] is the root (an unnamed or named builtin.module). Returns the list of ops by node."""
    from xdsl.dialects import test
    from xdsl.dialects.builtin import ModuleOp, StringAttr
    from xdsl.ir import Block, Region

    ops: list[Any] = [None] * len(tree)

    def make(n: int):
        node = tree[n]
        kids = [make(k - 1) for k in node["kids"]]
        vis = {"sym_visibility": StringAttr(node["vis"])} if node["vis"] != "public" else {}
        if node["table"]:
            op = ModuleOp(kids, attributes=vis, sym_name=StringAttr(node["name"]) if node["name"] else None)
        elif node["name"] and node.get("attr"):
            op = attr_symbol_cls().create(attributes=dict(vis, sym_name=StringAttr(node["name"])), regions=[Region([Block(kids)])] if kids else [])
        elif node["name"]:
            op = test.TestSymbolOp.create(properties={"sym_name": StringAttr(node["name"])}, attributes=vis,
                                          regions=[Region([Block(kids)])] if kids else [])
        else:
            op = test.TestOp.create(regions=[Region([Block(kids)])] if kids else [])
        ops[n] = op
        return op

    make(0)
    return ops


def all_trees(max_nodes: int, names=("a", "b")):
    """Trees in pre-order: node i>0 picks a parent among earlier nodes that can hold children, a kind, name, visibility."""
    def rec(nodes):
        yield nodes
        if len(nodes) >= max_nodes:
            return
        for par in range(1, len(nodes) + 1):
            for kind in KINDS:
                nms = names if kind in ("tabsym", "sym", "symattr") else ("",)
                for nm in nms:
                    for vis in (("public", "private") if nm else ("public",)):
                        # a table must not define one name twice (verified modules)
                        ptab = par
                        while nodes[ptab - 1]["table"] == 0:
                            ptab = nodes[ptab - 1]["par"]
                        if nm and any(n["name"] == nm and _table_of(nodes, i + 1) == ptab for i, n in enumerate(nodes) if i > 0):
                            continue
                        new = [dict(n, kids=list(n["kids"])) for n in nodes]
                        new.append({"name": nm, "table": 1 if kind in ("tab", "tabsym") else 0, "vis": vis, "par": par, "kids": [],
                                    "attr": 1 if kind == "symattr" else 0})
                        new[par - 1]["kids"].append(len(new))
                        # canonical generation order: parents non-decreasing keeps every tree once
                        if len(nodes) > 1 and par < nodes[-1]["par"]:
                            continue
                        yield from rec(new)
    root = [{"name": "", "table": 1, "vis": "public", "par": 0, "kids": [], "attr": 0}]
    yield from rec(root)


def _table_of(nodes, n: int) -> int:
    p = nodes[n - 1]["par"]
    while p and nodes[p - 1]["table"] == 0:
        p = nodes[p - 1]["par"]
    return p


def refs(names=("a", "b"), maxlen: int = 3):
    for k in range(1, maxlen + 1):
        yield from (list(t) for t in itertools.product(names, repeat=k))


def ask(tree, ops, frm: int, ref: list[str]) -> list[int]:
    from xdsl import traits
    from xdsl.dialects.builtin import StringAttr, SymbolRefAttr
    from xdsl.utils.symbol_table import SymbolTable, SymbolTableCollection

    idx = {id(o): i + 1 for i, o in enumerate(ops)}
    sym: Any = SymbolRefAttr(ref[0], ref[1:]) if len(ref) > 1 else ref[0]
    op = ops[frm - 1]
    tab = SymbolTable.get_nearest_symbol_table(op)
    col = SymbolTableCollection()

    def res(f):
        try:
            r = f()
        except Exception:  # noqa: BLE001
            return -1
        return 0 if r is None else idx.get(id(r), -2)

    out = [res(lambda: SymbolTable.lookup_nearest_symbol_from(op, sym)),
           res(lambda: col.lookup_nearest_symbol_from(op, sym)),
           res(lambda: traits.SymbolTable.lookup_symbol(op, sym if not isinstance(sym, str) else StringAttr(sym))),
           res(lambda: SymbolTable.lookup_symbol_in(tab, sym)),
           res(lambda: col.lookup_symbol_in(tab, sym))]
    # ask the cached collection a second time (cache warm)
    out.append(res(lambda: col.lookup_nearest_symbol_from(op, sym)))
    return out


def run(ctx: Ctx):
    ctx.level = "exploration"
    rng = ctx.rng("trees")
    cases: list[dict[str, Any]] = []
    nq = 0
    max_nodes = 4 if ctx.quick else 5
    trees = list(all_trees(max_nodes))
    extra = []
    if not ctx.quick:
        pass
    ctx.log(f"{len(trees)} trees with <= {max_nodes} nodes")
    for tree in trees:
        ops = build(tree)
        try:
            ops[0].verify()
        except Exception as e:  # noqa: BLE001
            ctx.diverge("generated tree does not verify", error=str(e)[:100])
            continue
        qs = []
        for frm in range(1, len(tree) + 1):
            for ref in refs(maxlen=3):
                qs.append({"from": frm, "ref": ref, "got": ask(tree, ops, frm, ref)})
        nq += len(qs)
        cases.append({"t": tree, "q": qs})
    ctx.log(f"{nq} lookups asked of 6 API routes")
    res = casecheck.run_cases("misc/SymTabCases.tla", cases, min_per_shard=20)
    seen = set()
    for idx, tail in res.mismatches:
        _clause, j, a, want = tail
        c = cases[idx]
        q = c["q"][j - 1]
        api = (API + ["collection.lookup_nearest_symbol_from (warm cache)"])[a - 1]
        key = (api, len(q["ref"]), q["got"][a - 1] == -1)
        ctx.violate(f"{api}: from node {q['from']} ref {q['ref']} in tree {[(n['name'], n['table'], n['vis'], n['par']) for n in c['t']]} returned node {q['got'][a-1]}, "
                    f"the nesting rules designate {want}",
                    {"clause": "LookupDesignatedSymbol", "api": api, "ref_len": len(q["ref"]), "tree": c["t"], "from": q["from"], "ref": q["ref"],
                     "got": q["got"][a - 1], "want": want}, clause="LookupDesignatedSymbol")
    ctx.coverage.update({"evaluations": nq, "distinct_nontrivial": nq, "trees": len(cases), "exhaustive": True, "judge_states": res.states,
                         "rule": f"every tree with <= {max_nodes} nodes (kinds: unnamed/named table, non-table symbol, plain region op; names a/b; public/private; unique "
                                 "names per table) x every reference of length <= 3 (x every `from` op; 6 API routes each"})
    ctx.sample({"tree": cases[len(cases) // 2]["t"], "queries": cases[len(cases) // 2]["q"][:3]})
    ctx.assumptions += ["SymbolTable.tla states the nesting rules of the property; trees are verified modules"]
