"""C12: Worklist, union-find and ScopedDict follow their abstract models.

Model: spec/ds/{Worklist,WorklistImpl,DisjointSet,DisjointSetImpl,ScopedDict}.tla, checked by TLC
(representation invariants + refinement of the abstract model, return values included).
Binding S2C: transition cover of each TLC state graph replayed on the real objects; the return
value of every call must equal the model's `ret` (violation otherwise); the projected private
state is compared with the implementation-shaped model (divergence only).
Binding C2S: long seeded call sequences recorded from the real objects, validated by the
*Trace.tla specs (TLC evaluates the abstract model's operators on every event)."""

from __future__ import annotations

import json
import os
import tempfile
from pathlib import Path
from typing import Any

from .. import s2c, tlc
from ..core import Ctx


# ---------------------------------------------------------------- adapters to the real code
class WorklistAdapter:
    name = "Worklist"

    def __init__(self):
        from xdsl.utils.worklist import Worklist

        self.w = Worklist[int]()

    def apply(self, act: str, a: list[Any]):
        if act == "Push":
            r = self.w.push(a[0])
            return ("none", 0) if r is None else ("val", repr(r))
        if act == "Remove":
            r = self.w.remove(a[0])
            return ("none", 0) if r is None else ("val", repr(r))
        if act == "Pop":
            try:
                return ("item", self.w.pop())
            except IndexError:
                return ("raise", 0)
        if act == "Bool":
            return ("bool", 1 if self.w else 0)
        raise KeyError(act)

    def project(self) -> dict[str, Any]:
        from xdsl.utils import worklist as wl

        return {
            "stack": tuple(0 if x is wl._MISSING else x for x in self.w._stack),
            "map": dict(self.w._map),
        }


class IntDSAdapter:
    name = "IntDisjointSet"

    def __init__(self, init: int = 0):
        from xdsl.utils.disjoint_set import IntDisjointSet

        self.d = IntDisjointSet(size=init)

    def apply(self, act: str, a: list[Any]):
        d = self.d
        if act == "Add":
            return ("val", d.add())
        if act in ("Find", "FindBad"):
            try:
                return ("val", d[a[0]])
            except KeyError:
                return ("raise", 0)
        if act == "Union":
            return ("bool", int(bool(d.union(a[0], a[1]))))
        if act == "UnionLeft":
            return ("bool", int(bool(d.union_left(a[0], a[1]))))
        if act == "Connected":
            return ("bool", int(bool(d.connected(a[0], a[1]))))
        raise KeyError(act)

    def project(self) -> dict[str, Any]:
        return {"parent": tuple(self.d._parent), "count": tuple(self.d._count)}


class GenericDSAdapter:
    """DisjointSet over hashable values; values are tuples ("v", i) so that indices are not the values."""

    name = "DisjointSet"

    def __init__(self, init: int = 0):
        from xdsl.utils.disjoint_set import DisjointSet

        self.d = DisjointSet([("v", i) for i in range(init)])
        self.n = init

    def apply(self, act: str, a: list[Any]):
        d = self.d
        V = lambda i: ("v", i)
        if act == "Add":
            d.add(V(self.n))
            self.n += 1
            return ("val", len(d) - 1)
        if act in ("Find", "FindBad"):
            try:
                return ("val", d.find(V(a[0]))[1])
            except KeyError:
                return ("raise", 0)
        if act == "Union":
            return ("bool", int(bool(d.union(V(a[0]), V(a[1])))))
        if act == "UnionLeft":
            return ("bool", int(bool(d.union_left(V(a[0]), V(a[1])))))
        if act == "Connected":
            return ("bool", int(bool(d.connected(V(a[0]), V(a[1])))))
        raise KeyError(act)

    def project(self) -> dict[str, Any]:
        return {"parent": tuple(self.d._base._parent), "count": tuple(self.d._base._count)}


_VALS: list[Any] = [0, 1, None, "", ()]


def _val_index(v: Any) -> int:
    for i, w in enumerate(_VALS):
        if v is w or (type(v) is type(w) and v == w):
            return i
    return -1


class ScopedDictAdapter:
    name = "ScopedDict"

    def __init__(self):
        from xdsl.utils.scoped_dict import ScopedDict

        self.cls = ScopedDict
        self.s = [ScopedDict[int, Any]()]

    def apply(self, act: str, a: list[Any]):
        S = self.s
        if act == "NewScope":
            S.append(self.cls(S[a[0] - 1]))
            return ("none", 0)
        if act == "Set":
            S[a[0] - 1][a[1]] = _VALS[a[2]]
            return ("none", 0)
        if act == "Index":
            try:
                return ("val", _val_index(S[a[0] - 1][a[1]]))
            except KeyError:
                return ("raise", 0)
        if act == "Get":
            return ("val", _val_index(S[a[0] - 1].get(a[1])))
        if act == "GetDefault":
            return ("val", _val_index(S[a[0] - 1].get(a[1], _VALS[a[2]])))
        if act == "Contains":
            return ("bool", int(bool(a[1] in S[a[0] - 1])))
        raise KeyError(act)

    def project(self) -> dict[str, Any]:
        ids = {id(s): i + 1 for i, s in enumerate(self.s)}
        return {
            "parent": tuple(0 if s.parent is None else ids[id(s.parent)] for s in self.s),
            "local": tuple({k: _val_index(v) for k, v in s.local_scope.items()} for s in self.s),
        }


def _norm(v: Any) -> Any:
    """TLC prints a function with domain 1..n as a tuple; normalise both sides to dicts/tuples."""
    if isinstance(v, tuple):
        return tuple(_norm(x) for x in v)
    if isinstance(v, dict):
        ks = sorted(v)
        if ks and ks == list(range(1, len(ks) + 1)):
            return tuple(_norm(v[k]) for k in ks)
        if not ks:
            return ()
        return {k: _norm(x) for k, x in v.items()}
    return v


def safe_apply(ad, act: str, args: list[Any]):
    """An exception the adapter does not expect is an observable result, not a harness failure."""
    try:
        return ad.apply(act, args)
    except Exception as e:  # noqa: BLE001
        return ("exception", type(e).__name__)


# ---------------------------------------------------------------- S2C
def replay_graph(ctx: Ctx, struct: str, module: str, factory, state_vars: list[str], *, cfg_text: str | None = None):
    tmp = tempfile.mkdtemp(prefix="verif-c12-")
    dot = os.path.join(tmp, "g.dot")
    try:
        r = tlc.run(module, cfg_text=cfg_text, coverage=True, args=["-dump", "dot,actionlabels", dot])
        if r.violated:
            # the design itself is wrong w.r.t. the abstract model: machinery/spec problem, not the code
            raise tlc.TLCMachineryError(f"model {module} violates {r.violated}\n" + "\n".join(r.out.splitlines()[-40:]))
        never = [a for a, (d, t) in r.coverage.items() if t == 0]
        if never:
            raise tlc.TLCMachineryError(f"vacuity: actions never taken in {module}: {never}")
        states, edges, inits = tlc.parse_dot(dot)
    finally:
        import shutil

        shutil.rmtree(tmp, ignore_errors=True)
    ctx.cov_add("states", r.distinct)
    ctx.cov_add("transitions", r.generated)
    ctx.coverage.setdefault("models", {})[module] = {
        "distinct": r.distinct, "generated": r.generated, "depth": r.depth,
        "actions": {a: t for a, (d, t) in r.coverage.items()}, "graph_edges": len(edges)}
    paths = s2c.transition_cover(edges, inits)
    nsteps = 0
    seen_mismatch = set()
    for p in paths:
        ad = factory()
        hist = []
        for (u, v, lab) in p:
            act, args = s2c.parse_label(lab)
            got = safe_apply(ad, act, args)
            hist.append(lab)
            nsteps += 1
            want = states[v]["ret"]
            if tuple(got) != tuple(want):
                key = (struct, act, tuple(want), tuple(got))
                if key not in seen_mismatch:
                    seen_mismatch.add(key)
                    ctx.violate(
                        f"{ad.name}: after {hist} the call {lab} returned {got}, the model requires {want}",
                        {"structure": ad.name, "op": act, "expected": list(want), "got": list(got), "history": list(hist), "binding": "S2C"},
                        clause="ret")
                break
            proj = ad.project()
            for var in state_vars:
                if _norm(proj[var]) != _norm(states[v][var]):
                    ctx.diverge("private state differs from the implementation-shaped model", structure=ad.name,
                                var=var, history=list(hist), impl=repr(proj[var]), model=repr(states[v][var]))
                    break
        ctx.sample({"binding": "S2C", "structure": struct, "path": [e[2] for e in p]}, cap=3)
    ctx.cov_add("traces_validated_against_impl", len(paths))
    ctx.cov_add("s2c_steps_replayed", nsteps)
    ctx.log(f"{struct}: {r.distinct} states, {len(edges)} edges, {len(paths)} paths, {nsteps} steps replayed")


# ---------------------------------------------------------------- C2S
def gen_worklist_trace(rng, n: int):
    ad = WorklistAdapter()
    ev = []
    for _ in range(n):
        op = rng.choices(["push", "pop", "remove", "bool"], [5, 3, 3, 2])[0]
        x = rng.randint(1, 12)
        if op == "push":
            ev.append({"op": op, "x": x, "ret": list(safe_apply(ad, "Push", [x]))})
        elif op == "remove":
            ev.append({"op": op, "x": x, "ret": list(safe_apply(ad, "Remove", [x]))})
        elif op == "pop":
            ev.append({"op": op, "x": 0, "ret": list(safe_apply(ad, "Pop", []))})
        else:
            ev.append({"op": op, "x": 0, "ret": list(safe_apply(ad, "Bool", []))})
    return ev


def gen_ds_trace(rng, n: int, generic: bool):
    ad = GenericDSAdapter() if generic else IntDSAdapter()
    ev = []
    size = 0
    for _ in range(n):
        if size < 2 or (size < 12 and rng.random() < 0.15):
            ev.append({"op": "add", "ret": list(safe_apply(ad, "Add", []))})
            size += 1
            continue
        op = rng.choices(["find", "union", "union_left", "connected"], [4, 2, 3, 2])[0]
        a, b = rng.randrange(size), rng.randrange(size)
        if op == "find":
            x = a if rng.random() < 0.9 else size + rng.randrange(3)
            ev.append({"op": op, "x": x, "ret": list(safe_apply(ad, "Find", [x]))})
        else:
            act = {"union": "Union", "union_left": "UnionLeft", "connected": "Connected"}[op]
            ev.append({"op": op, "a": a, "b": b, "ret": list(safe_apply(ad, act, [a, b]))})
    return ev


def gen_sd_trace(rng, n: int):
    ad = ScopedDictAdapter()
    ev = []
    ns = 1
    for _ in range(n):
        op = rng.choices(["new", "set", "index", "get", "getd", "contains"], [1, 5, 3, 3, 3, 3])[0]
        s, k, v = rng.randint(1, ns), rng.randint(1, 6), rng.randrange(len(_VALS))
        if op == "new":
            if ns >= 8:
                continue
            safe_apply(ad, "NewScope", [s])
            ns += 1
            ev.append({"op": op, "s": s, "k": 0, "v": 0, "ret": ["none", 0]})
        elif op == "set":
            ev.append({"op": op, "s": s, "k": k, "v": v, "ret": list(safe_apply(ad, "Set", [s, k, v]))})
        elif op == "index":
            ev.append({"op": op, "s": s, "k": k, "v": 0, "ret": list(safe_apply(ad, "Index", [s, k]))})
        elif op == "get":
            ev.append({"op": op, "s": s, "k": k, "v": 0, "ret": list(safe_apply(ad, "Get", [s, k]))})
        elif op == "getd":
            ev.append({"op": op, "s": s, "k": k, "v": v, "ret": list(safe_apply(ad, "GetDefault", [s, k, v]))})
        else:
            ev.append({"op": op, "s": s, "k": k, "v": 0, "ret": list(safe_apply(ad, "Contains", [s, k]))})
    return ev


def validate_traces(ctx: Ctx, struct: str, module: str, traces: list[list[dict[str, Any]]]):
    with tempfile.TemporaryDirectory(prefix="verif-c12-") as tmp:
        f = Path(tmp) / "traces.json"
        f.write_text(json.dumps(traces))
        r = tlc.run(module, workers=1, env={"TRACE_FILE": str(f)})
    if r.violated:
        raise tlc.TLCMachineryError(f"trace monitor {module} violated its own invariant {r.violated}\n" + "\n".join(r.out.splitlines()[-30:]))
    done = [x for x in r.records if x[1] == "done"]
    if not done or done[0][2] != len(traces):
        raise tlc.TLCMachineryError(f"{module}: trace validation did not consume all traces: {done}")
    nev = sum(len(t) for t in traces)
    if r.distinct < nev:
        raise tlc.TLCMachineryError(f"{module}: {r.distinct} states for {nev} events")
    first: dict[int, Any] = {}
    for rec in r.records:
        if rec[1] == "mismatch" and rec[2] not in first:
            first[rec[2]] = rec
    for tid, rec in sorted(first.items()):
        _, _, t, l, op, exp, got = rec
        tr = traces[t - 1]
        ctx.violate(
            f"{struct}: trace {t} event {l} {tr[l-1]}: model says {exp}",
            {"structure": struct, "op": op, "expected": exp if isinstance(exp, str) else list(exp), "got": list(got),
             "history": tr[max(0, l - 12):l], "binding": "C2S"},
            clause=exp if isinstance(exp, str) else "ret")
    ctx.cov_add("traces_validated_against_impl", len(traces))
    ctx.cov_add("c2s_events_validated", nev)
    ctx.sample({"binding": "C2S", "structure": struct, "trace_prefix": traces[0][:8]}, cap=6)
    ctx.log(f"{struct}: {len(traces)} traces / {nev} events validated by {module} in {r.wall_s:.1f}s")


WL_CFG = """SPECIFICATION Spec
CONSTANTS
  Item = {{1, 2, 3}}
  MaxDepth = {d}
INVARIANT ImplInv
PROPERTY Refines
CONSTRAINT DepthBound
"""
DS_CFG = """SPECIFICATION Spec
CONSTANTS
  MaxElems = {m}
  InitElems = {i}
  MaxDepth = {d}
INVARIANT ImplInv
INVARIANT AbsRepInv
PROPERTY Refines
CONSTRAINT DepthBound
"""
SD_CFG = """SPECIFICATION Spec
CONSTANTS
  MaxScopes = 3
  Key = {{1, 2}}
  Value = {{0, 1, 2}}
  NoneV = 2
  MaxDepth = {d}
INVARIANT Consistent
CONSTRAINT DepthBound
"""


def run(ctx: Ctx):
    ctx.level = "model_checking"
    q = ctx.quick
    # --- S2C: exhaustive small-scope graphs replayed
    replay_graph(ctx, "Worklist", "ds/WorklistImpl.tla", WorklistAdapter, ["stack", "map"],
                 cfg_text=WL_CFG.format(d=7 if q else 9))
    init = 4
    ds_cfg = DS_CFG.format(m=5, i=init, d=5 if q else 6)
    replay_graph(ctx, "IntDisjointSet", "ds/DisjointSetImpl.tla", lambda: IntDSAdapter(init), ["parent", "count"], cfg_text=ds_cfg)
    replay_graph(ctx, "DisjointSet", "ds/DisjointSetImpl.tla", lambda: GenericDSAdapter(init), ["parent", "count"], cfg_text=ds_cfg)
    replay_graph(ctx, "ScopedDict", "ds/ScopedDict.tla", ScopedDictAdapter, ["parent", "local"],
                 cfg_text=SD_CFG.format(d=5 if q else 6))
    # --- C2S: long random histories validated by the trace specs
    rng = ctx.rng("c2s")
    ntr, ln = (30, 400) if q else (200, 1500)
    validate_traces(ctx, "Worklist", "ds/WorklistTrace.tla", [gen_worklist_trace(rng, ln) for _ in range(ntr)])
    validate_traces(ctx, "IntDisjointSet", "ds/DisjointSetTrace.tla", [gen_ds_trace(rng, ln, False) for _ in range(ntr)])
    validate_traces(ctx, "DisjointSet", "ds/DisjointSetTrace.tla", [gen_ds_trace(rng, ln, True) for _ in range(ntr)])
    validate_traces(ctx, "ScopedDict", "ds/ScopedDictTrace.tla", [gen_sd_trace(rng, ln) for _ in range(ntr)])
    ctx.coverage["exhaustive"] = True
    ctx.coverage["rule"] = ("S2C: every edge of the TLC state graph of each bounded model is replayed at least once; "
                            "C2S: seeded random call sequences over 12 keys")
    ctx.assumptions += [
        "abstract models in spec/ds/*.tla state the property (LIFO-without-duplicates, partition + representative, innermost scope)",
        "bounded MC: 3 items depth<=7/9; 4+1 elements depth<=5/6; 3 scopes x 2 keys x 3 values depth<=5/6",
    ]
