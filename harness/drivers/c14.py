"""C14: canonicalization, constant folding and CSE preserve program results (translation validation).

Every generated func/arith/cf/scf program (constants at boundary values, all integer arith ops, select,
scf.if / scf.for, cf diamonds and loops, external calls as effects) is run through the REAL passes
canonicalize, cse, constant-fold-interp, test-constant-folding and dce; TLC executes the program before and
after under spec/sem/Machine.tla on every input of a small domain (exhaustive for widths <= 4) and checks
AgreeClause.  A pass raising on a valid program is a violation ('leaves the op in place instead of failing')."""

from __future__ import annotations

from ..core import Ctx
from . import progs, tv

PASSES = ["canonicalize", "cse", "constant-fold-interp", "test-constant-folding", "dce"]


def programs(ctx: Ctx, n: int):
    for k in range(n):
        rng = ctx.rng(f"p{k}")
        control = rng.choice(["none", "none", "scf", "scf", "cf", "mixed"])
        text, widths, rws = progs.gen_program(rng, allow=progs.ALL_BIN, control="scf" if control == "mixed" else control,
                                              effects=rng.random() < 0.4, select=True, max_stmts=8)
        yield text, widths, rws, f"gen{k}"
    for text, widths, rws in list(progs.loop_family())[:: 6 if ctx.quick else 1]:
        yield text, widths, rws, "loop-family"
    for text, widths, rws in progs.cf_truth_family():
        yield text, widths, rws, "cf-truth-family"
    # the shapes rewrite patterns look for (constants 0/1/-1/2 on either side, equal operands, bool-to-int selects, equal
    # expressions in sibling regions, loop-invariant code) for i1 / i32 / i64 / index
    from .. import serialize
    from . import c17

    fam = c17.idiom_family()
    frng = ctx.rng("idioms")
    if ctx.quick:
        fam = frng.sample(fam, 300)
    for text in fam:
        try:
            m = progs.parse(text)
            f = next(iter(m.body.block.ops))
            widths = serialize.arg_widths(f)
            rws = [serialize.width_of(t) for t in f.function_type.outputs.data]
        except Exception:  # noqa: BLE001
            continue
        yield text, widths, rws, "idiom-family"


def run(ctx: Ctx):
    ctx.level = "translation_validation"
    cases, metas, stats = tv.tv_cases(ctx, PASSES, programs(ctx, 60 if ctx.quick else 2000), 32 if ctx.quick else 96)
    ctx.log(f"{len(cases)} (program, pass) pairs changed by a pass; {stats}")
    tv.judge(ctx, cases, metas, "C14")
    ctx.coverage.update({"pass_stats": stats, "passes": PASSES,
                         "rule": "generated programs, loop / cf-truth families and the idiom family (rewrite-pattern shapes over i1/i32/i64/index) x passes; only pairs where the pass changed the program are executed; inputs exhaustive for widths <=4, boundary+random otherwise"})
    ctx.sample({"pass": metas[0]["pass"], "before": metas[0]["text"], "after": metas[0].get("after", "")} if metas else "none")
    ctx.assumptions += ["Machine.tla is the reference semantics (integer fragment; floating point not modelled)",
                        "operations whose MLIR result is undefined in the source (division by zero, shift >= width, ...) impose no obligation"]
