"""C01: IR edits keep the op/block/region tree and use-def chains consistent.

Model: spec/ir/IRGraph.tla (abstract object graph, one pure operator per public mutator, documented
preconditions as guards) explored by TLC in spec/ir/IRGraphMC.tla: EVERY history of <= k mutator calls
from two initial IRs (breadth-first), plus long random walks (-simulate).
Binding S2C: every history TLC explored is replayed on real xDSL objects through the public API
(each action through several equivalent routes: Block/Region/Operation methods, Rewriter,
PatternRewriter); after EVERY call the real pointers are walked in both directions
(harness/project.py).  TLC then evaluates the C01 predicate (spec/ir/IRProj.tla) on every distinct
projection (violation if it fails), and the end state is compared with the model (divergence only).
Binding C2S: the same projections are taken after every outermost public mutator call while the
repository's own passes run on corpus modules, and during seeded random histories over the wider
API (opaque to the abstract model); TLC judges them with the same predicate."""

from __future__ import annotations

import glob
import json
import os
import re
import shutil
import tempfile
from typing import Any

from .. import casecheck, tlaval, tlc
from ..core import Ctx, Hang, time_limit

DIGEST_KEYS = ["ost", "opar", "oopn", "osuc", "ores", "oreg", "bst", "bpar", "bops", "barg", "rst", "rpar", "rblk", "vst"]

MC_CFG = """SPECIFICATION Spec
CONSTANTS
  NOps = {nops}
  NBlocks = {nblk}
  NRegions = 3
  NVals = {nval}
  MaxDepth = {d}
  InitChoice = "{init}"
INVARIANT Inv
{emit}
"""


class Collector:
    """Distinct projections with one witness history each."""

    def __init__(self):
        self.cases: list[dict[str, Any]] = []
        self.witness: list[dict[str, Any]] = []
        self._seen: dict[str, int] = {}
        self.total = 0

    def add(self, chk: dict[str, Any], witness: dict[str, Any]):
        self.total += 1
        key = json.dumps(chk, sort_keys=True, separators=(",", ":"))
        if key not in self._seen:
            self._seen[key] = len(self.cases)
            self.cases.append(chk)
            self.witness.append(witness)


def digest_to_state(d: tuple) -> dict[str, Any]:
    return dict(zip(DIGEST_KEYS, d))


def replay(ctx: Ctx, init_state: dict[str, Any], hist: list[tuple], final: dict[str, Any] | None, col: Collector,
           rng, source: str) -> bool:
    from ..realir import RealIR

    if ctx.coverage.get("replay_calls_that_hung", 0) >= 25:
        return False   # the implementation keeps hanging: enough histories were cut short, judge what was collected
    real = RealIR.from_state(init_state, rng)
    labels: list[str] = []
    for step in hist:
        act, args = step[0], list(step[1:])
        labels.append(f"{act}({', '.join(map(str, args))})")
        try:
            with time_limit(2.0):
                real.apply(act, args)
                chk = real.u.project()
        except Hang:
            # the call (or one of xDSL's own iterators) never came back: the graph was already corrupt;
            # the projection taken after the previous call is what TLC judges
            ctx.diverge("call did not return within 2 s; history truncated", history=labels, source=source)
            ctx.cov_add("replay_calls_that_hung")
            return False
        except Exception as e:  # noqa: BLE001   the model says the call is enabled, the code refused it
            ctx.diverge("call enabled in the model raised in the implementation; history truncated",
                        history=labels, error=f"{type(e).__name__}: {e}"[:200], source=source)
            ctx.cov_add("replay_calls_that_raised")
            return False
        col.add(chk, {"source": source, "history": list(labels)})
    if final is not None:
        d = real.diff(final, chk) if hist else None
        if d is not None:
            ctx.diverge("implementation state differs from the abstract model's prediction", history=labels, diff=d, source=source)
            ctx.cov_add("state_divergences")
    return True


def run_mc(ctx: Ctx, init: str, depth: int, col: Collector, rng, size=(7, 4, 6)) -> dict[str, Any]:
    cfg = MC_CFG.format(nops=size[0], nblk=size[1], nval=size[2], d=depth, init=init, emit="INVARIANT Emit")
    r = tlc.run("ir/IRGraphMC.tla", cfg_text=cfg, coverage=True, timeout=3000, xmx="8g")
    if r.violated:
        raise tlc.TLCMachineryError(f"IRGraphMC violates {r.violated}\n" + "\n".join(r.out.splitlines()[-30:]))
    recs = [x for x in r.records if x[1] == "p"]
    if len(recs) < r.distinct:
        raise tlc.TLCMachineryError(f"IRGraphMC: {len(recs)} histories printed for {r.distinct} states")
    init_rec = next(x for x in recs if len(x[2]) == 0)
    init_state = digest_to_state(init_rec[3])
    acts: dict[str, int] = {}
    n = 0
    for rec in recs:
        hist = list(rec[2])
        if not hist:
            continue
        for h in hist:
            acts[h[0]] = acts.get(h[0], 0) + 1
        replay(ctx, init_state, hist, digest_to_state(rec[3]), col, rng, f"MC init{init} depth<={depth}")
        n += 1
    ctx.cov_add("states", r.distinct)
    ctx.cov_add("transitions", r.generated)
    ctx.cov_add("traces_validated_against_impl", n)
    ctx.coverage.setdefault("models", {})[f"IRGraphMC init={init} depth={depth}"] = {
        "distinct": r.distinct, "generated": r.generated, "histories_replayed": n, "actions_in_histories": acts}
    ctx.log(f"MC init{init} depth {depth}: {r.distinct} histories, replayed {n}; {len(col.cases)} distinct projections so far")
    return init_state


def run_sim(ctx: Ctx, init: str, num: int, depth: int, col: Collector, rng, seed: int):
    tmp = tempfile.mkdtemp(prefix="verif-c01-sim-")
    try:
        cfg = MC_CFG.format(nops=9, nblk=6, nval=9, d=depth, init=init, emit="")
        workers = 8
        r = tlc.run("ir/IRGraphMC.tla", cfg_text=cfg, workers=workers, timeout=3000, check=False,
                    args=["-simulate", f"file={tmp}/tr,num={max(1, num // workers)}", "-depth", str(depth + 1), "-seed", str(seed + 1)])
        if "Error:" in r.out and "violated" in r.out:
            raise tlc.TLCMachineryError("simulation found a model violation\n" + "\n".join(r.out.splitlines()[-30:]))
        files = sorted(glob.glob(f"{tmp}/tr*"))
        n = steps = 0
        for f in files:
            text = open(f).read()
            # first and last state of the behaviour
            blocks = re.split(r"^STATE_\d+ ==\s*$", text, flags=re.M)[1:]
            if len(blocks) < 2:
                continue
            first = tlc.parse_state(re.split(r"^={4,}|^\\\*", blocks[0], flags=re.M)[0])
            last = tlc.parse_state(re.split(r"^={4,}|^\\\*", blocks[-1], flags=re.M)[0])
            hist = list(last["hist"])
            if replay(ctx, first["ir"], hist, last["ir"], col, rng, f"simulate init{init}"):
                n += 1
                steps += len(hist)
    finally:
        shutil.rmtree(tmp, ignore_errors=True)
    if n == 0 and ctx.coverage.get("replay_calls_that_hung", 0) < 25:
        raise tlc.TLCMachineryError("no simulation behaviours produced\n" + "\n".join(r.out.splitlines()[-20:]))
    ctx.cov_add("traces_validated_against_impl", n)
    ctx.cov_add("simulated_behaviours", n)
    ctx.cov_add("simulated_steps", steps)
    ctx.log(f"simulate init{init}: {n} behaviours / {steps} steps replayed; {len(col.cases)} distinct projections so far")


def judge(ctx: Ctx, col: Collector):
    res = casecheck.run_cases("ir/IRProjCases.tla", col.cases, min_per_shard=200, max_per_shard=4000)
    for idx, tail in res.mismatches:
        w = col.witness[idx]
        clause = tail[0]
        hist = w.get("history", [])
        last = hist[-1].split("(")[0] if hist else w.get("event", "")
        ctx.violate(f"[{w['source']}] after {hist[-6:] if hist else w.get('event')}: the real object graph violates {clause}",
                    {"clause": clause, "last_action": last, "source": w["source"], "history": hist[-12:], "witness": {k: v for k, v in w.items() if k != 'history'},
                     "projection": col.cases[idx]}, clause=clause)
    ctx.coverage["projections_taken"] = col.total
    ctx.coverage["distinct_projections_judged"] = len(col.cases)
    ctx.coverage["judge_states"] = res.states
    ctx.log(f"TLC judged {len(col.cases)} distinct projections ({col.total} taken) in {res.wall:.0f}s: {len(res.mismatches)} ill-formed")


def run(ctx: Ctx):
    ctx.level = "model_checking"
    q = ctx.quick
    rng = ctx.rng("routes")
    col = Collector()
    # every history of <= 2 calls (depth 3 is ~37M histories from init A: out of reach; the thorough tier widens the
    # universe instead - more operations / blocks / values to pick as arguments - and walks deeper by simulation)
    for init in ("A", "B"):
        run_mc(ctx, init, 2, col, rng, size=(7, 4, 6) if q else (8, 5, 7))
    for init in ("A", "B", "E"):
        run_sim(ctx, init, 400 if q else 3000, 30 if init != "E" else 40, col, rng, ctx.seed)
    from . import c01_c2s

    c01_c2s.random_histories(ctx, col, n=60 if q else 400, length=120 if q else 200)
    c01_c2s.traced_passes(ctx, col, max_modules=40 if q else 300)
    judge(ctx, col)
    ctx.coverage["rule"] = ("every history of <=k public mutator calls from two initial IRs (TLC breadth-first), random walks of the model "
                            "(TLC -simulate), seeded random histories over the wider API, and the repository's passes on corpus modules; "
                            "after every call the real pointers are walked both ways and the projection judged by TLC")
    for w in (col.witness[len(col.witness) // 3], col.witness[-1]):
        ctx.sample({k: (v[-6:] if isinstance(v, list) else v) for k, v in w.items()})
    ctx.assumptions += ["the projection (harness/project.py) reads the real private pointers faithfully; erased objects are those the harness saw erased",
                        "calls whose documented precondition is false are not issued; a raising call ends its history"]
