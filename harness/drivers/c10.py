"""C10: IRDL operation verification matches the operation definition.

Model: spec/irdl/OpDefVerify.tla - Accepts(def, inst) is literally 'there exists a split into segments with
non-negative sizes matching each kind, summing to the list length (equal to the size array / all equal where
the option says so) with every piece satisfying its constraint under one binding of the type variables'.
Binding: definitions of the bounded space are turned into REAL classes with irdl_op_definition; instances
are created raw (Op.create, so nothing is checked on construction) and verify()'s verdict is compared with
Accepts by TLC; instances built by the generated constructor from per-segment arguments must verify; every
generated accessor is compared with the segment TLC computes."""

from __future__ import annotations

import itertools
from typing import Any

from .. import casecheck
from ..core import Ctx

_N = [0]
KINDS = ["single", "optional", "variadic"]
CONSTRS = [["any"], ["eq", 1], ["var", "T"], ["rvar", "R"], ["ivar", "N"]]


def toks():
    from xdsl.dialects.builtin import IndexType, i32, i64

    return {1: i32, 2: i64, 3: IndexType()}


def make_class(d: dict[str, Any]):
    """Real IRDL op class for an abstract definition; None if the library refuses the definition."""
    from xdsl import irdl
    from xdsl.irdl import (AnyAttr, AttrSizedOperandSegments, AttrSizedRegionSegments, AttrSizedResultSegments, EqAttrConstraint, IRDLOperation,
                           SameVariadicOperandSize, SameVariadicRegionSize, SameVariadicResultSize, VarConstraint, irdl_op_definition)
    from xdsl.utils.exceptions import PyRDLOpDefinitionError

    T = toks()
    vars_ = {"T": VarConstraint("T", AnyAttr()), "U": VarConstraint("U", AnyAttr())}

    from xdsl.irdl import RangeOf, RangeVarConstraint

    rvar = RangeVarConstraint("R", RangeOf(AnyAttr()))
    from xdsl.irdl import AnyInt, IntVarConstraint

    ivar = RangeOf(AnyAttr()).of_length(IntVarConstraint("N", AnyInt()))

    def constr(c):
        if c[0] == "rvar":
            return rvar
        if c[0] == "ivar":
            return ivar
        if c[0] == "any":
            return AnyAttr()
        if c[0] == "eq":
            return EqAttrConstraint(T[c[1]])
        return vars_[c[1]]

    _N[0] += 1
    ns: dict[str, Any] = {"name": f"verif.op{_N[0]}", "__annotations__": {}}
    ns.update({k: v for k, v in vars_.items()})  # ClassVar-like: harmless attributes
    del ns["T"], ns["U"]
    mk = {"ops": {"single": irdl.operand_def, "optional": irdl.opt_operand_def, "variadic": irdl.var_operand_def},
          "res": {"single": irdl.result_def, "optional": irdl.opt_result_def, "variadic": irdl.var_result_def},
          "regs": {"single": irdl.region_def, "optional": irdl.opt_region_def, "variadic": irdl.var_region_def}}
    for key, prefix in (("ops", "o"), ("res", "r")):
        for i, sd in enumerate(d[key]):
            ns[f"{prefix}{i}"] = mk[key][sd["kind"]](constr(sd["c"]))
    for i, sd in enumerate(d["regs"]):
        ns[f"g{i}"] = mk["regs"][sd["kind"]]()
    opts = []
    if d["oopt"] == "attr":
        opts.append(AttrSizedOperandSegments(as_property=True))
    elif d["oopt"] == "same":
        opts.append(SameVariadicOperandSize())
    if d["ropt"] == "attr":
        opts.append(AttrSizedResultSegments(as_property=True))
    elif d["ropt"] == "same":
        opts.append(SameVariadicResultSize())
    if d["gopt"] == "attr":
        opts.append(AttrSizedRegionSegments(as_property=True))
    elif d["gopt"] == "same":
        opts.append(SameVariadicRegionSize())
    ns["irdl_options"] = tuple(opts)
    try:
        return irdl_op_definition(type(f"VerifOp{_N[0]}", (IRDLOperation,), ns))
    except (PyRDLOpDefinitionError, Exception):  # noqa: BLE001  definitions rejected at class-creation time are skipped
        return None


def registered_defs():
    """(class, abstract definition, {construct: size array is a property?}) for every IRDL operation of every registered dialect."""
    from xdsl.dialects import get_all_dialects
    from xdsl.irdl import (AttrSizedOperandSegments, AttrSizedRegionSegments, AttrSizedResultSegments, IRDLOperation, OptionalDef, SameVariadicOperandSize,
                           SameVariadicRegionSize, SameVariadicResultSize, VariadicDef)

    out = []
    seen = set()
    for _name, factory in sorted(get_all_dialects().items()):
        try:
            dialect = factory()
        except Exception:  # noqa: BLE001
            continue
        for cls in dialect.operations:
            if cls in seen or not (isinstance(cls, type) and issubclass(cls, IRDLOperation)):
                continue
            seen.add(cls)
            try:
                od = cls.get_irdl_definition()
            except Exception:  # noqa: BLE001
                continue
            if od.successors:
                continue

            def kinds(defs):
                return [{"kind": "optional" if isinstance(x, OptionalDef) else "variadic" if isinstance(x, VariadicDef) else "single", "c": ["any"]} for _n, x in defs]

            def opt(attr_cls, same_cls):
                for o in od.options:
                    if isinstance(o, attr_cls):
                        return "attr", bool(o.as_property)
                    if isinstance(o, same_cls):
                        return "same", False
                return "none", False

            (oo, op_), (ro, rp), (go, gp) = opt(AttrSizedOperandSegments, SameVariadicOperandSize), opt(AttrSizedResultSegments, SameVariadicResultSize), \
                opt(AttrSizedRegionSegments, SameVariadicRegionSize)
            d = {"ops": kinds(od.operands), "res": kinds(od.results), "regs": kinds(od.regions), "oopt": oo, "ropt": ro, "gopt": go}
            if len(d["ops"]) > 5 or len(d["res"]) > 4 or len(d["regs"]) > 3:
                continue
            out.append((cls, d, {"o": op_, "r": rp, "g": gp}))
    return out


def make_instance(cls, d, inst, ext_vals, asprop=None):
    from xdsl.dialects.builtin import DenseArrayBase, i32
    from xdsl.ir import Block, Region

    T = toks()
    props: dict[str, Any] = {}
    if asprop is not None:
        attrs: dict[str, Any] = {}
        for flag, key, name in (("hasosz", "osz", "operandSegmentSizes"), ("hasrsz", "rsz", "resultSegmentSizes"), ("hasgsz", "gsz", "regionSegmentSizes")):
            if inst[flag]:
                (props if asprop[key[0]] else attrs)[name] = DenseArrayBase.from_list(i32, inst[key])
        from xdsl.dialects import test

        src = test.TestOp.create(result_types=[T[t] for t in inst["ops"]])
        op = cls.create(operands=list(src.results), result_types=[T[t] for t in inst["res"]], properties=props, attributes=attrs,
                        regions=[Region() for _ in range(inst["nregs"])])
        Block([src, op])
        return op
    if inst["hasosz"]:
        props["operandSegmentSizes"] = DenseArrayBase.from_list(i32, inst["osz"])
    if inst["hasrsz"]:
        props["resultSegmentSizes"] = DenseArrayBase.from_list(i32, inst["rsz"])
    if inst["hasgsz"]:
        props["regionSegmentSizes"] = DenseArrayBase.from_list(i32, inst["gsz"])
    from xdsl.dialects import test

    src = test.TestOp.create(result_types=[T[t] for t in inst["ops"]])   # one distinct SSA value per operand
    op = cls.create(operands=list(src.results), result_types=[T[t] for t in inst["res"]], properties=props,
                    regions=[Region() for _ in range(inst["nregs"])])
    Block([src, op])
    return op


def accessors(op, d) -> tuple[list, list, list]:
    """<<offset, length>> of what each generated accessor returns, by identity against the flat lists."""
    def locate(flat, got):
        if got is None:
            return None
        items = list(got) if isinstance(got, (tuple, list)) else [got]
        if not items:
            return [-1, 0]
        ids = [id(x) for x in flat]
        try:
            start = ids.index(id(items[0]))
        except ValueError:
            return [-2, len(items)]
        ok = [id(x) for x in items] == ids[start:start + len(items)]
        return [start if ok else -2, len(items)]

    out = []
    for key, prefix, flat in (("ops", "o", list(op.operands)), ("res", "r", list(op.results)), ("regs", "g", list(op.regions))):
        acc = []
        for i, _sd in enumerate(d[key]):
            try:
                got = getattr(op, f"{prefix}{i}")
            except Exception:  # noqa: BLE001
                acc.append([-3, 0])
                continue
            loc = locate(flat, got)
            acc.append([-1, 0] if loc is None else loc)
        out.append(acc)
    return tuple(out)  # type: ignore[return-value]


def norm_acc(acc, sizes_hint=None):
    # an empty segment has no position of its own: TLC reports <<offset, 0>>; we cannot know the offset from identity, so
    # empty segments are reported with the running offset of the previous ones
    out = []
    run = 0
    for a in acc:
        if a[1] == 0 and a[0] == -1:
            out.append([run, 0])
        else:
            out.append(a)
            run = a[0] + a[1] if a[0] >= 0 else run
    return out


def gen_defs(rng, exhaustive_small: bool):
    def seg_lists(maxlen, with_c):
        for n in range(0, maxlen + 1):
            for kinds in itertools.product(KINDS, repeat=n):
                if with_c:
                    for cs in itertools.product(range(len(CONSTRS)), repeat=n):
                        if any(CONSTRS[c][0] in ("rvar", "ivar") and k != "variadic" for k, c in zip(kinds, cs)):
                            continue   # a range / length variable constrains a whole variadic segment
                        yield [{"kind": k, "c": CONSTRS[c]} for k, c in zip(kinds, cs)]
                else:
                    yield [{"kind": k, "c": ["any"]} for k in kinds]

    ops_l = list(seg_lists(3, True))
    res_l = list(seg_lists(2, True))
    regs_l = list(seg_lists(2, False))

    def opts_for(segs):
        nv = sum(1 for s in segs if s["kind"] != "single")
        return ["none"] if nv <= 1 and False else (["none", "same", "attr"] if nv >= 1 else ["none", "attr"])

    while True:
        o, r, g = rng.choice(ops_l), rng.choice(res_l), rng.choice(regs_l) if rng.random() < 0.3 else []
        d = {"ops": o, "res": r, "regs": g, "oopt": rng.choice(opts_for(o)), "ropt": rng.choice(opts_for(r)), "gopt": rng.choice(opts_for(g))}
        yield d


def gen_insts(rng, d, n: int):
    out = []
    for _ in range(n):
        ops = [rng.choice([1, 1, 2, 3]) for _ in range(rng.randint(0, 4))]
        res = [rng.choice([1, 1, 2]) for _ in range(rng.randint(0, 3))]
        nregs = rng.randint(0, 3) if d["regs"] else 0

        def sizes(opt, k, total):
            if opt != "attr":
                return 0, []
            mode = rng.random()
            if mode < 0.08:
                return 0, []                       # missing array
            if mode < 0.16:
                return 1, [rng.randint(0, 2) for _ in range(max(0, k + rng.choice([-1, 1])))]   # wrong number of entries
            if mode < 0.30 and k > 1:
                # near miss: a composition of total with an amount moved from one entry to another (sum kept; entries may become
                # negative or exceed what their kind allows)
                cuts = sorted(rng.randint(0, total) for _ in range(k - 1))
                parts = [b - a for a, b in zip([0] + cuts, cuts + [total])]
                i, j = rng.sample(range(k), 2)
                amt = rng.choice([1, 1, 2, 3])
                parts[i] -= amt
                parts[j] += amt
                return 1, parts
            if mode < 0.55 and k > 0:
                # a composition of total into k parts (often valid)
                cuts = sorted(rng.randint(0, total) for _ in range(k - 1))
                parts = [b - a for a, b in zip([0] + cuts, cuts + [total])]
                return 1, parts
            return 1, [rng.choice([-1, 0, 0, 1, 1, 2, 3, 5]) for _ in range(k)]

        ho, osz = sizes(d["oopt"], len(d["ops"]), len(ops))
        hr, rsz = sizes(d["ropt"], len(d["res"]), len(res))
        hg, gsz = sizes(d["gopt"], len(d["regs"]), nregs)
        out.append({"ops": ops, "res": res, "nregs": nregs, "osz": osz, "hasosz": ho, "rsz": rsz, "hasrsz": hr, "gsz": gsz, "hasgsz": hg})
    return out


def run(ctx: Ctx):
    from xdsl.dialects import test
    from xdsl.ir import Block
    from xdsl.utils.exceptions import VerifyException

    ctx.level = "exploration"
    rng = ctx.rng("defs")
    T = toks()
    src = test.TestOp.create(result_types=[T[1], T[2], T[3]])
    keep = Block([src])
    ext = {1: src.results[0], 2: src.results[1], 3: src.results[2]}
    ndefs = 250 if ctx.quick else 5000
    cases: list[dict[str, Any]] = []
    ninst = crashes = skipped = 0
    gen = gen_defs(rng, True)
    attempts = 0
    while len(cases) < ndefs:
        attempts += 1
        if attempts > 20 * ndefs:
            raise RuntimeError("irdl_op_definition refuses (almost) every generated definition")
        d = next(gen)
        cls = make_class(d)
        if cls is None:
            skipped += 1
            continue
        insts = []
        for inst in gen_insts(rng, d, 14):
            try:
                op = make_instance(cls, d, inst, ext)
            except Exception:  # noqa: BLE001
                continue
            built = 0
            try:
                op.verify()
                verdict = 1
            except VerifyException:
                verdict = 0
            except Exception as e:  # noqa: BLE001  escapes with an internal error instead of a diagnostic
                verdict = -1
                crashes += 1
                ctx.diverge("verify() escaped with an internal error instead of a verification diagnostic", error=f"{type(e).__name__}", inst=inst, d=d)
            oacc = racc = gacc = []
            if verdict == 1:
                a = accessors(op, d)
                oacc, racc, gacc = norm_acc(a[0]), norm_acc(a[1]), norm_acc(a[2])
            insts.append({"inst": inst, "verdict": verdict, "built": built, "oacc": oacc, "racc": racc, "gacc": gacc, "oneside": 0})
        # constructor-built instances from per-segment arguments that satisfy the definition
        for _ in range(3):
            b = build_via_constructor(rng, cls, d, ext)
            if b is not None:
                insts.append(b)
        ninst += len(insts)
        cases.append({"def": d, "insts": insts})
    # the operations of all registered dialects: their segment structure (kinds + size options; constraints abstracted to "any") against raw
    # instances with arbitrary operand / result / region counts - one-sided: where no split exists, verify() must reject
    n_reg_ops = n_reg_inst = 0
    rrng = ctx.rng("registered")
    regs = registered_defs()
    for cls, d, asprop in regs:
        insts = []
        for inst in gen_insts(rrng, d, 4 if ctx.quick else 16):
            try:
                op = make_instance(cls, d, inst, ext, asprop)
            except Exception:  # noqa: BLE001
                continue
            try:
                op.verify()
                verdict = 1
            except VerifyException:
                verdict = 0
            except Exception:  # noqa: BLE001
                verdict = -1
            insts.append({"inst": inst, "verdict": verdict, "built": 0, "oacc": [], "racc": [], "gacc": [], "oneside": 1})
        if insts:
            n_reg_ops += 1
            n_reg_inst += len(insts)
            cases.append({"def": d, "insts": insts, "opname": cls.name})
    ninst += n_reg_inst
    ctx.log(f"{len(cases) - n_reg_ops} definitions ({skipped} refused by irdl_op_definition), {n_reg_ops} registered operations, {ninst} instances, {crashes} internal errors in verify()")
    res = casecheck.run_cases("irdl/OpDefCases.tla", cases, min_per_shard=10)
    for idx, tail in res.mismatches:
        clause, j = tail
        c = cases[idx]
        x = c["insts"][j - 1]
        ctx.violate(f"{clause}: {('registered operation ' + c['opname'] + ' ') if c.get('opname') else ''}definition {c['def']} instance {x['inst']} verify() -> {x['verdict']} accessors {x['oacc']} {x['racc']} {x['gacc']}",
                    {"clause": clause, "def": c["def"], "inst": x["inst"], "verdict": x["verdict"], "built": x["built"], "opname": c.get("opname", ""),
                     "attr_sized": [c["def"]["oopt"], c["def"]["ropt"], c["def"]["gopt"]]}, clause=clause)
    ctx.coverage.update({"evaluations": ninst, "distinct_nontrivial": len({repr((c['def'], x['inst'])) for c in cases for x in c['insts']}),
                         "definitions": len(cases) - n_reg_ops, "registered_operations": n_reg_ops, "registered_operation_instances": n_reg_inst, "definitions_refused_by_library": skipped, "verify_internal_errors": crashes, "judge_states": res.states,
                         "rule": "seeded definitions (<=3 operand, <=2 result, <=2 region segments of kind single/optional/variadic; constraints any / eq / shared "
                                 "type variable; options none/same-size/attr-sized) x raw instances (lists up to 4/3/3, size arrays incl. missing, wrong length, "
                                 "negative, not summing) + constructor-built instances; plus the segment structure of every IRDL operation of every registered dialect against raw "
                                 "instances, one-sided (no split => rejected); distinct = distinct (definition, instance) pairs"})
    ctx.sample({"def": cases[0]["def"], "inst": cases[0]["insts"][0]})
    ctx.assumptions += ["OpDefVerify.tla's exists-a-split semantics is the property; properties/attributes other than the size arrays are not generated",
                        "successor segments are not generated (they need terminator ops); regions carry no constraints"]


def build_via_constructor(rng, cls, d, ext):
    """Per-segment arguments satisfying the definition -> generated constructor -> must verify."""
    from xdsl.ir import Block, Region
    from xdsl.utils.exceptions import VerifyException

    T = toks()
    bind = {"T": rng.choice([1, 2]), "U": rng.choice([1, 2])}

    def tok_for(c):
        return rng.choice([1, 2, 3]) if c[0] in ("any", "rvar", "ivar") else (c[1] if c[0] == "eq" else bind[c[1]])

    r_seq = [rng.choice([1, 2, 3]) for _ in range(rng.randint(0, 2))]   # the one value of range variable R

    any_r = any(x["c"][0] == "rvar" for x in d["ops"] + d["res"])
    n_len = len(r_seq) if any_r else rng.randint(0, 2)     # the one value of the length variable N

    def seg_sizes(segs, opt):
        has_r = any(s["c"][0] == "rvar" for s in segs)
        has_n = any(s["c"][0] == "ivar" for s in segs)
        same = len(r_seq) if has_r else n_len if has_n else (rng.choice([0, 1]) if any(s["kind"] == "optional" for s in segs) else rng.randint(0, 2))
        if (has_r or has_n) and opt == "same" and any(s["kind"] == "optional" for s in segs) and same > 1:
            return None
        out = []
        for s in segs:
            if s["kind"] == "single":
                out.append(1)
            elif s["c"][0] == "rvar":
                out.append(len(r_seq))
            elif s["c"][0] == "ivar":
                out.append(n_len)
            elif opt == "same":
                out.append(same)
            elif s["kind"] == "optional":
                out.append(rng.choice([0, 1]))
            else:
                out.append(rng.randint(0, 2))
        return out

    so, sr, sg = seg_sizes(d["ops"], d["oopt"]), seg_sizes(d["res"], d["ropt"]), seg_sizes(d["regs"], d["gopt"])
    if so is None or sr is None or sg is None:
        return None
    oargs, rargs, gargs = [], [], []
    flat_o, flat_r = [], []
    from xdsl.dialects import test

    for s, n in zip(d["ops"], so):
        ts = list(r_seq) if s["c"][0] == "rvar" else [tok_for(s["c"]) for _ in range(n)]
        flat_o += ts
        vals = list(test.TestOp.create(result_types=[T[t] for t in ts]).results)
        oargs.append(vals[0] if s["kind"] == "single" else (vals if s["kind"] == "variadic" else (vals[0] if vals else None)))
    for s, n in zip(d["res"], sr):
        ts = list(r_seq) if s["c"][0] == "rvar" else [tok_for(s["c"]) for _ in range(n)]
        flat_r += ts
        tys = [T[t] for t in ts]
        rargs.append(tys[0] if s["kind"] == "single" else (tys if s["kind"] == "variadic" else (tys[0] if tys else None)))
    for s, n in zip(d["regs"], sg):
        regs = [Region() for _ in range(n)]
        gargs.append(regs[0] if s["kind"] == "single" else (regs if s["kind"] == "variadic" else (regs[0] if regs else None)))
    try:
        op = cls.build(operands=oargs, result_types=rargs, regions=gargs)
    except Exception:  # noqa: BLE001   (e.g. same-size constructor constraints we violated)
        return None
    try:
        op.verify()
        verdict = 1
    except VerifyException:
        verdict = 0
    except Exception:  # noqa: BLE001
        verdict = -1
    from xdsl.dialects.builtin import DenseArrayBase

    def arr(name):
        a = op.properties.get(name)
        return (1, list(a.get_values())) if isinstance(a, DenseArrayBase) else (0, [])

    ho, osz = arr("operandSegmentSizes")
    hr, rsz = arr("resultSegmentSizes")
    hg, gsz = arr("regionSegmentSizes")
    inst = {"ops": flat_o, "res": flat_r, "nregs": sum(sg), "osz": osz, "hasosz": ho, "rsz": rsz, "hasrsz": hr, "gsz": gsz, "hasgsz": hg}
    a = accessors(op, d) if verdict == 1 else ([], [], [])
    return {"inst": inst, "verdict": verdict, "built": 1, "oacc": norm_acc(a[0]), "racc": norm_acc(a[1]), "gacc": norm_acc(a[2]), "oneside": 0}
