"""C08: attribute equality and hashing form a consistent value semantics.

Model: spec/value/ValueSem.tla - an attribute is abstracted to its payload tree (class + parameter payloads, data
leaves by exact content: integers, text, bytes, floats by binary64 pattern); being the same value means having the
same payload tree; over a family of attributes with an observed == matrix and observed hash classes this unfolds
into Reflexive / Symmetric / Transitive / HashConsistent / SameParametersEqual / DifferentPayloadsUnequal.
spec/value/ValueSemMC.tla lets TLC evaluate those laws for three candidate float-leaf equalities over a small float
domain (signed zeros, two NaN payloads, the same NaN as two objects): only equality by bit pattern passes.
Binding (TLC as judge, ValueSemCases.tla): families of real attributes - every attribute of the corpus parsed
twice in different contexts, generated builtin attributes with float corner cases, independently rebuilt twins and
single-parameter mutants - are compared pairwise for real (==, hash) and TLC evaluates the laws on the recorded
matrices together with the payload trees the harness projected."""

from __future__ import annotations

import dataclasses
import enum
import struct
from collections.abc import Mapping
from pathlib import Path
from typing import Any

from .. import casecheck, tlc
from ..core import Ctx, time_limit, Hang


class Unprojectable(Exception):
    pass


def N(tag: str, kids: list[Any] | None = None) -> list[Any]:
    return [[ord(c) for c in tag], kids or []]


def cls_tag(x: Any) -> str:
    t = type(x)
    return f"{t.__module__}.{t.__qualname__}"


def P(x: Any, depth: int = 0) -> list[Any]:
    """Payload tree of an attribute / parameter value."""
    from xdsl.ir import Attribute, Data, ParametrizedAttribute

    if depth > 40:
        raise Unprojectable("too deep")
    if isinstance(x, Attribute):
        if isinstance(x, Data):
            return N("D:" + cls_tag(x), [P(x.data, depth + 1)])
        if isinstance(x, ParametrizedAttribute):
            return N("P:" + cls_tag(x), [P(p, depth + 1) for p in x.parameters])
        return N("A:" + cls_tag(x))
    if isinstance(x, int):  # Python's bool is an int: IntAttr(True) and IntAttr(1) are one value
        return N("i" + str(int(x)))
    if isinstance(x, float):
        return N("f" + struct.pack(">d", x).hex())
    if isinstance(x, str):
        return N("s" + x)
    if isinstance(x, (bytes, bytearray)):
        return N("y" + bytes(x).hex())
    if x is None:
        return N("n")
    if isinstance(x, enum.Enum):
        return N("e:" + cls_tag(x) + "." + x.name)
    if isinstance(x, (tuple, list)):
        return N("t", [P(e, depth + 1) for e in x])
    if isinstance(x, (set, frozenset)):
        kids = [P(e, depth + 1) for e in x]
        return N("S", sorted(kids, key=repr))
    if isinstance(x, Mapping):
        kids = [N("kv", [P(k, depth + 1), P(v, depth + 1)]) for k, v in x.items()]
        return N("d", sorted(kids, key=repr))  # dictionaries are compared as mappings, not as sequences
    if dataclasses.is_dataclass(x) and not isinstance(x, type):
        return N("o:" + cls_tag(x), [P(getattr(x, f.name), depth + 1) for f in dataclasses.fields(x)])
    r = repr(x)
    if " at 0x" in r:
        raise Unprojectable(r)
    return N("r:" + cls_tag(x) + ":" + r)


def node_size(n: list[Any]) -> int:
    return 1 + sum(node_size(k) for k in n[1])


# ------------------------------------------------------------------ sources of attributes
def attrs_of_module(module) -> list[Any]:
    out = []
    for op in module.walk():
        out.extend(op.attributes.values())
        out.extend(op.properties.values())
        out.extend(r.type for r in op.results)
        for reg in op.regions:
            for b in reg.blocks:
                out.extend(a.type for a in b.args)
    return out


def sub_attrs(a: Any, acc: list[Any], depth: int = 0):
    from xdsl.ir import Attribute, Data, ParametrizedAttribute

    if depth > 6:
        return
    if isinstance(a, Attribute):
        acc.append(a)
        if type(a).__name__ == "DenseResourceAttr":     # its key is a handle into the module's resource section, not a value of its own
            return
        if isinstance(a, ParametrizedAttribute):
            for p in a.parameters:
                sub_attrs(p, acc, depth + 1)
        elif isinstance(a, Data):
            sub_attrs(a.data, acc, depth + 1)
    elif isinstance(a, (tuple, list)):
        for e in a:
            sub_attrs(e, acc, depth + 1)
    elif isinstance(a, Mapping):
        for e in a.values():
            sub_attrs(e, acc, depth + 1)


def fresh_ctx():
    from xdsl.context import Context
    from xdsl.dialects import get_all_dialects

    c = Context(allow_unregistered=True)
    for name, f in get_all_dialects().items():
        c.register_dialect(name, f)
    return c


def corpus_pairs(ctx: Ctx, limit: int) -> list[tuple[Any, Any, str]]:
    """(attribute, the same attribute parsed again in another context, where)."""
    from xdsl.parser import Parser

    repo = Path(__import__("os").environ.get("VERIF_REPO", "/repo"))
    files = sorted((repo / "tests" / "filecheck").rglob("*.mlir"))
    rng = ctx.rng("corpus")
    rng.shuffle(files)
    out: list[tuple[Any, Any, str]] = []
    n_files = 0
    for f in files:
        if len(out) >= limit:
            break
        try:
            text = f.read_text()
        except Exception:  # noqa: BLE001
            continue
        if len(text) > 60000:
            continue
        mods = []
        try:
            with time_limit(10):
                for _ in range(2):
                    mods.append(Parser(fresh_ctx(), text).parse_module())
        except (Exception, Hang):  # noqa: BLE001
            continue
        a1, a2 = attrs_of_module(mods[0]), attrs_of_module(mods[1])
        if len(a1) != len(a2):
            continue
        n_files += 1
        seen = set()
        for x, y in zip(a1, a2):
            xs: list[Any] = []
            ys: list[Any] = []
            sub_attrs(x, xs)
            sub_attrs(y, ys)
            if len(xs) != len(ys):
                continue
            for u, v in zip(xs, ys):
                try:
                    k = repr(P(u))
                except (Unprojectable, RecursionError):
                    continue
                if k in seen:
                    continue
                seen.add(k)
                out.append((u, v, f"{f.relative_to(repo)}"))
    ctx.coverage["corpus_files"] = n_files
    return out


def special_floats() -> list[float]:
    q = lambda bits: struct.unpack(">d", bits.to_bytes(8, "big"))[0]
    return [0.0, -0.0, 1.0, -1.0, 1.5, 0.1, float("inf"), float("-inf"), float("nan"), q(0x7FF8000000000001), q(0xFFF8000000000000),
            q(0x7FF0000000000001), 5e-324, 1e308, 2.0 ** -126, 65504.0, 3.0]


def generated(rng) -> list[tuple[Any, Any, str]]:
    """(attribute, independently rebuilt twin, label) for builtin attributes incl. float corner cases."""
    from xdsl.dialects import builtin as b
    from xdsl.ir.affine import AffineMap

    makers: list[tuple[str, Any]] = []
    DYN = getattr(b, "DYNAMIC_INDEX", -1)
    fts = [b.f16, b.bf16, b.f32, b.f64, b.Float80Type(), b.Float128Type()]
    for v in special_floats():
        makers.append((f"FloatData({v!r})", lambda v=v: b.FloatData(v)))
        for t in fts:
            makers.append((f"FloatAttr({v!r},{t})", lambda v=v, t=t: b.FloatAttr(v, t)))
    for v in (0, 1, -1, -2, 127, -128, 255, 2 ** 31, -(2 ** 63), 2 ** 64 - 1, 2 ** 61 - 1, 2 ** 61 + 4, 5):
        makers.append((f"IntAttr({v})", lambda v=v: b.IntAttr(v)))
        for w in (1, 8, 32, 64):
            def mk(v=v, w=w):
                return b.IntegerAttr.from_int_and_width(v, w) if hasattr(b.IntegerAttr, "from_int_and_width") else b.IntegerAttr(v, w)
            makers.append((f"IntegerAttr({v},i{w})", mk))
        makers.append((f"IntegerAttr({v},index)", lambda v=v: b.IntegerAttr(v, b.IndexType())))
        makers.append((f"IntegerAttr(IntAttr({v}),index)", lambda v=v: b.IntegerAttr(b.IntAttr(v), b.IndexType())))
    for s in ("", "a", "A", "a ", "é", "é", "\x00", "a\nb", '"', "\\", "0", "0.0"):
        makers.append((f"StringAttr({s!r})", lambda s=s: b.StringAttr(s)))
        makers.append((f"BytesAttr({s!r})", lambda s=s: b.BytesAttr(s.encode())))
        makers.append((f"SymbolRefAttr({s!r})", lambda s=s: b.SymbolRefAttr(s or "x", [s, "n"])))
    for vals in ([0.0], [-0.0], [0.0, -0.0], [float("nan")], [1.0, 2.0], [1.0], []):
        for t in (b.f32, b.f64):
            makers.append((f"DenseArrayBase({t},{vals})", lambda vals=vals, t=t: b.DenseArrayBase.from_list(t, vals)))
            if vals:
                makers.append((f"dense({t},{vals})", lambda vals=vals, t=t: b.DenseIntOrFPElementsAttr.from_list(b.TensorType(t, [len(vals)]), vals)))
    for vals in ([0], [1], [0, 1], [255], [-1], []):
        for t in (b.i8, b.i32, b.i64):
            makers.append((f"DenseArrayBase({t},{vals})", lambda vals=vals, t=t: b.DenseArrayBase.from_list(t, vals)))
    for shape in ([], [1], [2, 3], [3, 2], [DYN, 2]):
        for t in (b.f32, b.i32, b.IndexType()):
            makers.append((f"TensorType({t},{shape})", lambda shape=shape, t=t: b.TensorType(t, shape)))
            makers.append((f"MemRefType({t},{shape})", lambda shape=shape, t=t: b.MemRefType(t, shape)))
            if shape and all(s > 0 for s in shape):
                makers.append((f"VectorType({t},{shape})", lambda shape=shape, t=t: b.VectorType(t, shape)))
    makers += [
        ("ArrayAttr([])", lambda: b.ArrayAttr([])),
        ("ArrayAttr([1])", lambda: b.ArrayAttr([b.IntAttr(1)])),
        ("ArrayAttr([[1]])", lambda: b.ArrayAttr([b.ArrayAttr([b.IntAttr(1)])])),
        ("ArrayAttr([1,2])", lambda: b.ArrayAttr([b.IntAttr(1), b.IntAttr(2)])),
        ("ArrayAttr([2,1])", lambda: b.ArrayAttr([b.IntAttr(2), b.IntAttr(1)])),
        ("ArrayAttr([0.0])", lambda: b.ArrayAttr([b.FloatAttr(0.0, b.f32)])),
        ("ArrayAttr([-0.0])", lambda: b.ArrayAttr([b.FloatAttr(-0.0, b.f32)])),
        ("Dict{a:1,b:2}", lambda: b.DictionaryAttr({"a": b.IntAttr(1), "b": b.IntAttr(2)})),
        ("Dict{b:2,a:1}", lambda: b.DictionaryAttr({"b": b.IntAttr(2), "a": b.IntAttr(1)})),
        ("Dict{a:2,b:1}", lambda: b.DictionaryAttr({"a": b.IntAttr(2), "b": b.IntAttr(1)})),
        ("Dict{}", lambda: b.DictionaryAttr({})),
        ("Dict{a:nan}", lambda: b.DictionaryAttr({"a": b.FloatAttr(float("nan"), b.f64)})),
        ("UnitAttr", lambda: b.UnitAttr()),
        ("NoneAttr", lambda: b.NoneAttr()),
        ("FunctionType(i32->f32)", lambda: b.FunctionType.from_lists([b.i32], [b.f32])),
        ("FunctionType(f32->i32)", lambda: b.FunctionType.from_lists([b.f32], [b.i32])),
        ("FunctionType(->)", lambda: b.FunctionType.from_lists([], [])),
        ("TupleType(i32,f32)", lambda: b.TupleType((b.i32, b.f32))),
        ("ComplexType(f32)", lambda: b.ComplexType(b.f32)),
        ("AffineMapAttr(id2)", lambda: b.AffineMapAttr(AffineMap.identity(2))),
        ("AffineMapAttr(id3)", lambda: b.AffineMapAttr(AffineMap.identity(3))),
        ("AffineMapAttr(const)", lambda: b.AffineMapAttr(AffineMap.constant_map(1))),
        ("Signedness i32/si32/ui32", lambda: b.IntegerType(32, b.Signedness.SIGNED)),
        ("ui32", lambda: b.IntegerType(32, b.Signedness.UNSIGNED)),
        ("i32", lambda: b.IntegerType(32)),
        ("index", lambda: b.IndexType()),
    ]
    out = []
    for label, mk in makers:
        try:
            out.append((mk(), mk(), label))
        except Exception:  # noqa: BLE001
            continue
    # the same parameters through another constructor path (wrapped vs plain payload, list vs tuple, width vs type)
    for w in (1, 8, 32, 64):
        for v in (0, 1, -1, 2 ** (w - 1), 2 ** w - 1, 2 ** (w - 1) - 1, -(2 ** (w - 1))):
            try:
                t = b.IntegerType(w)
                out.append((b.IntegerAttr(v, t), b.IntegerAttr(b.IntAttr(v), t), f"IntegerAttr({v}, i{w}) from int / from IntAttr"))
                out.append((b.IntegerAttr(v, w), b.IntegerAttr(v, t), f"IntegerAttr({v}, {w}) from width / from type"))
            except Exception:  # noqa: BLE001
                continue
    for mk1, mk2, label in ((lambda: b.ArrayAttr([b.IntAttr(1)]), lambda: b.ArrayAttr((b.IntAttr(1),)), "ArrayAttr from list / tuple"),
                            (lambda: b.StringAttr("a"), lambda: b.StringAttr.get("a"), "StringAttr() / .get"),
                            (lambda: b.FloatAttr(1.0, 32), lambda: b.FloatAttr(1.0, b.f32), "FloatAttr from width / type"),
                            (lambda: b.FloatAttr(1, b.f32), lambda: b.FloatAttr(1.0, b.f32), "FloatAttr from int / float"),
                            (lambda: b.SymbolRefAttr("a"), lambda: b.SymbolRefAttr(b.StringAttr("a")), "SymbolRefAttr from str / StringAttr"),
                            (lambda: b.TensorType(b.f32, [2, 3]), lambda: b.TensorType(b.f32, (2, 3)), "TensorType shape list / tuple"),
                            (lambda: b.DenseArrayBase.from_list(b.i32, [1, 2]), lambda: b.DenseArrayBase.from_list(b.i32, (1, 2)), "DenseArrayBase list / tuple"),
                            (lambda: b.DictionaryAttr({"a": b.IntAttr(1)}), lambda: b.DictionaryAttr(dict(a=b.IntAttr(1))), "DictionaryAttr literal / dict()")):
        try:
            out.append((mk1(), mk2(), label))
        except Exception:  # noqa: BLE001
            continue
    # attributes parsed from text in different contexts (registered and unregistered ones)
    from xdsl.parser import Parser

    for t in ['#foo.bar<1>', '!foo.t<"x">', '#foo.bar', '!foo.t', '#foo.baz<1>', '"abc"', '1.0 : f32', '-0.0 : f64', '0.0 : f64', '0x7FF8000000000001 : f64',
              '0x7FF8000000000000 : f64', 'dense<[1.0, 2.0]> : tensor<2xf32>', 'dense<0.0> : tensor<2xf32>', 'dense<-0.0> : tensor<2xf32>', '{a = 1, b = 2}', '{b = 2, a = 1}',
              'loc("a":1:2)', 'loc(unknown)', 'affine_map<(d0) -> (d0)>', 'affine_set<(d0) : (d0 >= 0)>', 'opaque<"a", "b">', '@sym', '@sym::@n', 'array<i32: 1, 2>', 'array<f32: 0.0>',
              'array<f32: -0.0>', 'unit', 'i32', 'si32', 'tensor<2x?xf32>', 'memref<2xf32, strided<[1]>>', '!test.param<i32>', '#test.param<i32>', 'tuple<i32, f32>', '(i32) -> f32',
              'complex<f32>', 'vector<[2]xi32>', 'vector<2xi32>', '#builtin.int<1>', 'true', 'false', '1 : i1', '42', '42 : index']:
        try:
            out.append((Parser(fresh_ctx(), t).parse_attribute(), Parser(fresh_ctx(), t).parse_attribute(), f"parse {t!r}"))
        except Exception:  # noqa: BLE001
            continue
    return out


def late_unregistered_twins() -> list[tuple[Any, Any, str]]:
    """Unregistered attributes / types parsed early, then again through fresh contexts after several hundred other
    unregistered names have been requested (any per-name class table has been under pressure by then)."""
    from xdsl.parser import Parser

    texts = ['#foo.bar<1>', '!foo.t<"x">', '#mydialect.cfg<1, 2>', '!mydialect.ty', '#a.b', '!a.b<i32>']
    early = []
    for t in texts:
        try:
            early.append((t, Parser(fresh_ctx(), t).parse_attribute()))
        except Exception:  # noqa: BLE001
            continue
    for k in range(300):
        for t in (f'#filler{k}.attr<{k}>', f'!filler{k}.ty'):
            try:
                Parser(fresh_ctx(), t).parse_attribute()
            except Exception:  # noqa: BLE001
                pass
    out = []
    for t, a in early:
        try:
            out.append((a, Parser(fresh_ctx(), t).parse_attribute(), f"parse {t!r} (early / after 600 other unregistered names)"))
        except Exception:  # noqa: BLE001
            continue
    return out


def colliding_op_families() -> list[tuple[list[Any], list[str], list[Any]]]:
    """CSE keys of operations that differ only in a property / attribute whose values have equal Python hashes
    (hash(-1) == hash(-2), hash(n) == hash(n + 2**61 - 1)): equality must not rest on the hash."""
    from xdsl.dialects import arith, builtin, test
    from xdsl.transforms.common_subexpression_elimination import OperationInfo

    M = 2 ** 61 - 1
    out = []
    keep = []
    for vals, ty in (((-1, -2, -1), builtin.i32), ((0, M, 0), builtin.i64), ((5, M + 5, 5), builtin.i64), ((-1, -2, M - 1), builtin.i64)):
        for mk, label in ((lambda v: arith.ConstantOp(builtin.IntegerAttr(v, ty)), "arith.constant"),
                          (lambda v: test.TestOp(result_types=[ty], properties={"p": builtin.IntegerAttr(v, ty)}), "test.op property"),
                          (lambda v: test.TestOp(result_types=[ty], attributes={"a": builtin.IntegerAttr(v, ty)}), "test.op attribute"),
                          (lambda v: test.TestOp(result_types=[ty], properties={"p": builtin.IntAttr(v)}), "test.op IntAttr property")):
            try:
                ops = [mk(v) for v in vals]
            except Exception:  # noqa: BLE001
                continue
            keep.append(ops)
            vid: dict[int, int] = {}
            out.append(([OperationInfo(o) for o in ops], [f"{label} {v}" for v in vals], [op_payload(o, vid) for o in ops]))
    # the other components of a CSE key: operands, result types, discardable attributes vs properties, regions
    prod = test.TestOp(result_types=[builtin.i32, builtin.i32, builtin.i64])
    a, b2, c = prod.results
    variants = [
        ("operands a,b", lambda: test.TestOp(operands=[a, b2], result_types=[builtin.i32])),
        ("operands a,b again", lambda: test.TestOp(operands=[a, b2], result_types=[builtin.i32])),
        ("operands b,a", lambda: test.TestOp(operands=[b2, a], result_types=[builtin.i32])),
        ("operands a,a", lambda: test.TestOp(operands=[a, a], result_types=[builtin.i32])),
        ("operands a", lambda: test.TestOp(operands=[a], result_types=[builtin.i32])),
        ("result i64", lambda: test.TestOp(operands=[a, b2], result_types=[builtin.i64])),
        ("two results", lambda: test.TestOp(operands=[a, b2], result_types=[builtin.i32, builtin.i32])),
        ("no result", lambda: test.TestOp(operands=[a, b2])),
        ("attr x=1", lambda: test.TestOp(operands=[a, b2], result_types=[builtin.i32], attributes={"x": builtin.IntAttr(1)})),
        ("prop x=1", lambda: test.TestOp(operands=[a, b2], result_types=[builtin.i32], properties={"x": builtin.IntAttr(1)})),
        ("attr y=1", lambda: test.TestOp(operands=[a, b2], result_types=[builtin.i32], attributes={"y": builtin.IntAttr(1)})),
        ("attr x=1,y=2", lambda: test.TestOp(operands=[a, b2], result_types=[builtin.i32], attributes={"x": builtin.IntAttr(1), "y": builtin.IntAttr(2)})),
        ("attr y=2,x=1", lambda: test.TestOp(operands=[a, b2], result_types=[builtin.i32], attributes={"y": builtin.IntAttr(2), "x": builtin.IntAttr(1)})),
        ("attr x=2,y=1", lambda: test.TestOp(operands=[a, b2], result_types=[builtin.i32], attributes={"x": builtin.IntAttr(2), "y": builtin.IntAttr(1)})),
    ]
    keep.append([prod])
    built = []
    for label, mk in variants:
        try:
            built.append((mk(), label))
        except Exception:  # noqa: BLE001
            continue
    for k in range(0, len(built), 7):
        grp = built[k:k + 7] + built[:2]
        keep.append([o for o, _ in grp])
        vid2: dict[int, int] = {}
        out.append(([OperationInfo(o) for o, _ in grp], [f"test.op {lab}" for _, lab in grp], [op_payload(o, vid2) for o, _ in grp]))
    colliding_op_families.keep = keep  # type: ignore[attr-defined]
    return out


_CLASSES: dict[str, Any] = {}


def attr_classes() -> dict[str, Any]:
    """Registered attribute classes: by number of parameters / Data, and by `name` (several classes may share one)."""
    if _CLASSES:
        return _CLASSES
    from xdsl.dialects import get_all_dialects
    from xdsl.ir import Data, ParametrizedAttribute

    by_arity: dict[int, list[type]] = {}
    data: list[type] = []
    by_name: dict[str, list[type]] = {}
    for _n, f in get_all_dialects().items():
        try:
            d = f()
        except Exception:  # noqa: BLE001
            continue
        for c in d.attributes:
            by_name.setdefault(getattr(c, "name", ""), []).append(c)
            if issubclass(c, ParametrizedAttribute):
                try:
                    k = len(c.get_irdl_definition().parameters)
                except Exception:  # noqa: BLE001
                    continue
                by_arity.setdefault(k, []).append(c)
            elif issubclass(c, Data):
                data.append(c)
    _CLASSES.update({"arity": by_arity, "data": data, "name": by_name})
    return _CLASSES


def class_mutants(rng, a: Any, data_classes_by_payload: dict[type, list[type]] | None = None) -> list[Any]:
    """The same parameters under another attribute class (first the classes registered under the same name,
    e.g. a type and an attribute both called emitc.opaque): a different class is a different value."""
    from xdsl.ir import Data, ParametrizedAttribute

    cl = attr_classes()
    out = []
    try:
        if isinstance(a, ParametrizedAttribute):
            same_name = [c for c in cl["name"].get(type(a).name, []) if c is not type(a)]
            others = [c for c in cl["arity"].get(len(a.parameters), []) if c is not type(a)]
            for c in same_name[:2] + ([rng.choice(others)] if others else []):
                out.append(c.new(a.parameters))
        elif isinstance(a, Data) and data_classes_by_payload:
            # only Data classes that are seen to carry this kind of payload (IntAttr <-> other int carriers, ...)
            others = [c for c in data_classes_by_payload.get(type(a.data), []) if c is not type(a)]
            if others:
                out.append(rng.choice(others).new(a.data))
    except Exception:  # noqa: BLE001
        pass
    return out


def same_name_families() -> list[tuple[list[Any], list[str]]]:
    """For every attribute name registered for several classes (a type and an attribute called emitc.opaque, ...) and for a
    sample of class pairs of equal arity: the same parameter tuple under both classes - two different values."""
    from xdsl.dialects import builtin as b
    from xdsl.ir import ParametrizedAttribute

    cl = attr_classes()
    fillers = [b.StringAttr("foo"), b.IntAttr(1), b.i32, b.ArrayAttr([]), b.UnitAttr()]
    out = []
    groups = [g for g in cl["name"].values() if len(g) > 1]
    for k, lst in cl["arity"].items():
        groups += [lst[i:i + 6] for i in range(0, len(lst), 6)]
    for g in groups:
        pa = [c for c in g if issubclass(c, ParametrizedAttribute)]
        for f in fillers[:2]:
            members, labels = [], []
            for c in pa:
                try:
                    k = len(c.get_irdl_definition().parameters)
                    members += [c.new((f,) * k), c.new((f,) * k)]
                    labels += [f"{c.__name__}.new({k} x {f})"] * 2
                except Exception:  # noqa: BLE001
                    continue
            if len(members) >= 4:
                out.append((members[:12], labels[:12]))
    return out


def mutants(rng, a: Any, pool: list[Any]) -> list[Any]:
    """Single-point payload mutations of a: the same class with one parameter (or the data) replaced."""
    from xdsl.ir import Data, ParametrizedAttribute

    out = []
    try:
        if isinstance(a, ParametrizedAttribute) and a.parameters:
            ps = list(a.parameters)
            k = rng.randrange(len(ps))
            cands = [p for p in pool if type(p) is type(ps[k])]
            if cands:
                ps[k] = rng.choice(cands)
                out.append(type(a).new(tuple(ps)))
        elif isinstance(a, Data):
            cands = [p for p in pool if type(p) is type(a)]
            if cands:
                out.append(rng.choice(cands))
            d = a.data
            if isinstance(d, bool):
                pass
            elif isinstance(d, int):
                out.append(type(a).new(d + 1))
            elif isinstance(d, float):
                out.append(type(a).new(-d))
            elif isinstance(d, str):
                out.append(type(a).new(d + " "))
            elif isinstance(d, bytes) and d:
                out.append(type(a).new(bytes([d[0] ^ 0x80]) + d[1:]))
            elif isinstance(d, tuple) and d:
                out.append(type(a).new(d[1:]))
                out.append(type(a).new(tuple(reversed(d))))
    except Exception:  # noqa: BLE001
        pass
    return out


def op_payload(op, vid: dict[int, int]) -> list[Any]:
    from xdsl.dialects.builtin import UnregisteredOp

    name = op.op_name.data if isinstance(op, UnregisteredOp) else op.name
    return N("op:" + name, [P(dict(op.attributes)), P(dict(op.properties)), P(tuple(op.result_types)),
                            N("operands", [N("v" + str(vid.setdefault(id(v), len(vid)))) for v in op.operands])])


def opinfo_families(ctx: Ctx, rng, limit: int, pool: list[Any]) -> list[tuple[list[Any], list[str], list[Any]]]:
    """Families of CSE keys (OperationInfo) of region-free operations of one block: the operations, clones of them
    (same operands) and clones with one attribute / property replaced."""
    from xdsl.parser import Parser
    from xdsl.transforms.common_subexpression_elimination import OperationInfo

    repo = Path(__import__("os").environ.get("VERIF_REPO", "/repo"))
    files = sorted((repo / "tests" / "filecheck").rglob("*.mlir"))
    rng.shuffle(files)
    out = []
    keep = []  # clones must stay alive: OperationInfo holds the operation
    for f in files:
        if len(out) >= limit:
            break
        try:
            text = f.read_text()
            if len(text) > 40000:
                continue
            with time_limit(10):
                m = Parser(fresh_ctx(), text).parse_module()
        except (Exception, Hang):  # noqa: BLE001
            continue
        for op in m.walk():
            for reg in op.regions:
                for blk in reg.blocks:
                    ops = [o for o in blk.ops if not o.regions and not o.successors][:40]
                    by_name: dict[str, list[Any]] = {}
                    for o in ops:
                        by_name.setdefault(o.name, []).append(o)
                    for name, grp in by_name.items():
                        grp = grp[:4]
                        members, labels = [], []
                        for o in grp:
                            members.append(o)
                            labels.append(f"{name} in {f.name}")
                            try:
                                c = o.clone()
                            except Exception:  # noqa: BLE001
                                continue
                            members.append(c)
                            labels.append(f"{name} clone")
                            d = c.properties if c.properties else c.attributes
                            if d and pool:
                                c2 = o.clone()
                                d2 = c2.properties if c2.properties else c2.attributes
                                keys = [x for x in sorted(d2) if x != "op_name__"] or sorted(d2)
                                k = rng.choice(keys)
                                if k == "op_name__":
                                    continue
                                d2[k] = rng.choice(pool)
                                members.append(c2)
                                labels.append(f"{name} clone with {k} replaced")
                        if len(members) >= 2 and len(out) < limit:
                            keep.append(members)
                            vid: dict[int, int] = {}
                            try:
                                projs = [op_payload(x, vid) for x in members]
                            except (Unprojectable, RecursionError):
                                continue
                            out.append(([OperationInfo(x) for x in members], labels, projs))
    ctx.coverage["_keepalive"] = len(keep)
    opinfo_families.keep = keep  # type: ignore[attr-defined]
    return out


def sstr(a: Any) -> str:
    try:
        return str(a)[:200]
    except Exception:  # noqa: BLE001  (printing is not what is under test here)
        return repr(a)[:200]


def family_case(members: list[Any], given: list[Any] | None = None) -> dict[str, Any] | None:
    projs = []
    for k, m in enumerate(members):
        try:
            p = given[k] if given is not None else P(m)
        except (Unprojectable, RecursionError):
            return None
        if node_size(p) > 400:
            return None
        projs.append(p)
    n = len(members)
    eq = [[0] * n for _ in range(n)]
    hv: list[Any] = []
    for i in range(n):
        try:
            hv.append(hash(members[i]))
        except Exception:  # noqa: BLE001  (unhashable payloads; CSE keys of operations an accessor rejects)
            return None
        for j in range(n):
            try:
                eq[i][j] = 1 if members[i] == members[j] else 0
            except Exception:  # noqa: BLE001
                return None
    ids: dict[Any, int] = {}
    h = [ids.setdefault(v, len(ids) + 1) for v in hv]
    return {"n": n, "proj": projs, "eq": eq, "h": h, "twins": []}


MC_CFG = 'SPECIFICATION Spec\nCONSTANT Scheme = "{s}"\nINVARIANT {inv}\n'


def pair_class(a: Any, b: Any, pa: list[Any], pb: list[Any]) -> str:
    """Where two payload trees differ, for keying findings: float-zero-sign, float-nan-payload, dynamic-class, other."""
    def leaves(p, acc):
        acc.append("".join(map(chr, p[0])))
        for k in p[1]:
            leaves(k, acc)
        return acc
    la, lb = leaves(pa, []), leaves(pb, [])
    if la == lb:
        if type(a) is not type(b) and "<locals>" in type(a).__qualname__:
            return "same-payload-different-dynamic-class"
        nanleaf = any(x.startswith("f") and len(x) == 17 and x[1:4] in ("7ff", "fff") and int(x[1:], 16) & ((1 << 52) - 1) for x in la)
        return "same-payload-with-nan" if nanleaf else "same-payload"
    if len(la) != len(lb):
        return "other"
    diff = [(x, y) for x, y in zip(la, lb) if x != y]
    kinds = set()
    for x, y in diff:
        if x.startswith("f") and y.startswith("f") and len(x) == 17 and len(y) == 17:
            bx, by = int(x[1:], 16), int(y[1:], 16)
            if {bx, by} == {0, 1 << 63}:
                kinds.add("float-zero-sign")
                continue
            isnan = lambda v: (v >> 52) & 0x7FF == 0x7FF and v & ((1 << 52) - 1)
            if isnan(bx) and isnan(by):
                kinds.add("float-nan-payload")
                continue
        kinds.add("other")
    return "+".join(sorted(kinds))


def run(ctx: Ctx):
    ctx.level = "exploration"
    q = ctx.quick
    # 1. design rationale on the model: which float-leaf equality is a value semantics
    expect = {"bits": {"LawReflexive": True, "LawHash": True, "LawDifferent": True, "IsValueSemantics": True},
              "pyeq": {"LawReflexive": False}, "nanmerged": {"LawReflexive": True, "LawHash": False, "LawDifferent": False}}
    for scheme, invs in expect.items():
        for inv, holds in invs.items():
            r = tlc.run("value/ValueSemMC.tla", cfg_text=MC_CFG.format(s=scheme, inv=inv), workers=1, timeout=300, check=False)
            bad = bool(r.violated) or "is equal to FALSE" in r.out or "is violated" in r.out
            if bad == holds:
                raise tlc.TLCMachineryError(f"ValueSemMC scheme={scheme} {inv}: expected {'to hold' if holds else 'to be refuted'}\n" + "\n".join(r.out.splitlines()[-15:]))
            ctx.coverage.setdefault("models", {})[f"ValueSemMC scheme={scheme} {inv}"] = "holds" if holds else "refuted as expected"
    ctx.cov_add("states", 9)
    # 2. families of real attributes
    rng = ctx.rng("fam")
    gen = generated(rng) + late_unregistered_twins()
    corp = corpus_pairs(ctx, 4000 if q else 60000)
    ctx.log(f"{len(gen)} generated and {len(corp)} distinct corpus attributes (each with an independently built twin)")
    pool = [a for a, _, _ in gen] + [a for a, _, _ in corp[:2000]]
    subpool: list[Any] = []
    for a in pool:
        sub_attrs(a, subpool)
    families: list[tuple[list[Any], list[str]]] = []
    from xdsl.ir import Data as _Data

    data_by_payload: dict[type, list[type]] = {}
    for x in subpool:
        if isinstance(x, _Data) and type(x) not in data_by_payload.setdefault(type(x.data), []):
            data_by_payload[type(x.data)].append(type(x))
    # (a) every attribute with its twin, two mutants and three others
    everything = gen + corp
    for a, twin, label in everything:
        ms = mutants(rng, a, subpool)[:2]
        cms = class_mutants(rng, a, data_by_payload)
        others = [rng.choice(everything)[0] for _ in range(3)]
        members = [a, twin] + ms + cms + others
        labels = [label, label + " (built again from the same parameters)"] + [label + " (mutant)"] * len(ms) + [label + " (same parameters, other class)"] * len(cms) + ["other"] * 3
        families.append((members, labels))
    families += same_name_families()
    # (b) all generated float-carrying attributes of one class against each other (signed zeros, NaN payloads)
    by_cls: dict[type, list[tuple[Any, str]]] = {}
    for a, twin, label in gen:
        by_cls.setdefault(type(a), []).append((a, label))
        by_cls[type(a)].append((twin, label + " (twin)"))
    for cls, lst in by_cls.items():
        for k in range(0, len(lst), 10):
            chunk = lst[k:k + 10]
            if len(chunk) >= 2:
                families.append(([c[0] for c in chunk], [c[1] for c in chunk]))
        for _ in range(20 if q else 200):
            chunk = rng.sample(lst, min(len(lst), 8))
            if len(chunk) >= 2:
                families.append(([c[0] for c in chunk], [c[1] for c in chunk]))
    opf = opinfo_families(ctx, ctx.rng("opinfo"), 1500 if q else 20000, subpool) + colliding_op_families()
    ctx.coverage["operationinfo_families"] = len(opf)
    cases, kept = [], []
    skipped = 0
    for members, labels, projs in [(m, l, None) for m, l in families] + opf:
        c = family_case(members, projs)
        if c is not None and len(labels) > 1 and labels[1].endswith("(built again from the same parameters)"):
            c["twins"] = [[1, 2]]
        if c is None:
            skipped += 1
            continue
        cases.append(c)
        kept.append((members, labels))
    ctx.coverage["families"] = len(cases)
    ctx.coverage["families_skipped_unprojectable_or_unhashable"] = skipped
    ctx.coverage["attributes_compared"] = sum(c["n"] for c in cases)
    ctx.coverage["attribute_classes"] = len({type(m) for ms, _ in kept for m in ms})
    ctx.log(f"{len(cases)} families recorded")
    res = casecheck.run_cases("value/ValueSemCases.tla", cases)
    seen: set[tuple[str, str, str]] = set()
    for idx, tail in res.mismatches:
        law, i, j = tail[0], tail[1] - 1, tail[2] - 1
        members, labels = kept[idx]
        a, b = members[i], members[j]
        c = cases[idx]
        if type(a).__name__ == "OperationInfo":
            a, b = a.op, b.op
        pc = pair_class(a, b, c["proj"][i], c["proj"][j])
        key = (law, pc, type(a).__name__ if pc in ("other", "same-payload") else "")
        what = f"{law} fails for {labels[i]} = {sstr(a)[:80]!r} and {labels[j]} = {sstr(b)[:80]!r} (== {c['eq'][i][j]}, hashes {'equal' if c['h'][i] == c['h'][j] else 'differ'}, payloads {'equal' if c['proj'][i] == c['proj'][j] else 'differ'}: {pc})"
        if key in seen and len(ctx.violations) > 200:
            continue
        seen.add(key)
        ctx.violate(what, {"clause": law, "pair_class": pc, "cls": type(a).__name__, "a": sstr(a), "b": sstr(b)}, clause=law)
    ctx.cov_add("traces_validated_against_impl", len(cases))
    ctx.coverage["judge_states"] = res.states
    ctx.coverage["evaluations"] = sum(c["n"] * c["n"] for c in cases)
    ctx.coverage["distinct_nontrivial"] = len({repr(p) for c in cases for p in c["proj"]})
    ctx.coverage["rule"] = "evaluations = ordered attribute pairs compared for real; distinct = distinct payload trees"
    ctx.assumptions += ["the payload projection (harness/drivers/c08.py P) defines 'observable payload': class, parameters in order, data leaves by exact content, floats by binary64 pattern, dictionaries as mappings",
                        "unhashable or unprojectable attributes are skipped and counted",
                        "mutants are built with .new() (no verification): value semantics must hold for unverified attributes as well"]
