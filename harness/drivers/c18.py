"""C18: pass pipeline specifications round-trip through text.

Model: spec/misc/PipelineSpec.tla - the pipeline lexer (ordered rule list, lazy), the recursive-descent
parser, the printer and the typed conversion between option lists and dataclass fields, transcribed from
xdsl/utils/arg_spec.py.  spec/misc/PipelineSpecMC.tla: TLC checks on the model that every ArgSpec of a bounded
value universe (strings over a 15-character alphabet with quotes, backslashes, separators, newlines,
non-ASCII; booleans; integers; floats in plain and exponent form) prints to a text that parses back to it,
must refute the same claim for values that have no textual form (negative control), and that every text over
a 20-character alphabet up to a length bound ends in a result or a diagnostic.
Binding (TLC as judge, spec/misc/PipelineSpecCases.tla): the real printer, parser and from_spec/spec() are run
on (a) every registered pass and synthetic pass classes covering the documented option types, with generated
option values, (b) generated ArgSpecs and pipelines, (c) every short text over the model's alphabet, mutated
printed specs and random token sequences.  The property's clauses (RoundTrip, ReprintStable,
FailsOnlyWithDiagnostics) are evaluated by TLC on the recorded data; disagreement between the real code and the
model on anything else is a divergence."""

from __future__ import annotations

import dataclasses
import itertools
import re
import struct
from fractions import Fraction
from types import NoneType, UnionType
from typing import Any, Literal, Union, get_args, get_origin, get_type_hints

from .. import casecheck, tlc
from ..core import Ctx

# ------------------------------------------------------------------ encodings
def cps(s: str) -> list[int]:
    return [ord(c) for c in s]


def digits(n: int) -> list[int]:
    return [int(c) for c in str(abs(n))]


def enc_float(v: float, with_text: bool) -> list[Any]:
    b = struct.pack(">d", v)
    limbs = [int.from_bytes(b[i:i + 2], "big") for i in (0, 2, 4, 6)]
    if v != v:
        key: list[Any] = ["nan"]
    elif v in (float("inf"), float("-inf")):
        key = ["x"]
    elif v == int(v):
        key = ["i", 1 if v < 0 else 0, digits(int(v))]
    else:
        key = ["x"]
    return ["f", limbs, key] + ([cps(str(v))] if with_text else [])


def enc_val(v: Any, with_text: bool = False) -> list[Any]:
    if isinstance(v, bool):
        return ["b", int(v)]
    if isinstance(v, int):
        return ["i", 1 if v < 0 else 0, digits(v)]
    if isinstance(v, float):
        return enc_float(v, with_text)
    if isinstance(v, str):
        return ["s", cps(v)]
    raise TypeError(f"unsupported option value {v!r}")


def enc_spec(spec: Any, with_text: bool = False) -> dict[str, Any]:
    return {"name": cps(spec.name),
            "params": [[cps(k), [enc_val(x, with_text) for x in vs]] for k, vs in spec.parameters.items()]}


def enc_field_value(v: Any, with_text: bool = False) -> list[Any]:
    if v is None:
        return ["N"]
    if isinstance(v, tuple):
        return ["T", [enc_val(x, with_text) for x in v]]
    return enc_val(v, with_text)


_FLOAT_A = re.compile(r"[-+]?[0-9]+\.[0-9]*")
_FLOAT_B = re.compile(r"[-+]?[0-9]+\.[0-9]*[eE][-+]?[0-9]+")


def lexeme_to_float(lex: str) -> float:
    """Correctly rounded binary64 of a decimal lexeme by exact rational arithmetic (independent of float(str))."""
    m = re.fullmatch(r"([-+]?)([0-9]+)\.([0-9]*)(?:[eE]([-+]?[0-9]+))?", lex)
    assert m, lex
    sign, ip, fp, ex = m.groups()
    mant = int(ip + fp)
    e10 = (int(ex) if ex else 0) - len(fp)
    neg = sign == "-"
    if mant == 0:
        r = 0.0
    elif e10 + len(str(mant)) > 400:
        r = float("inf")
    elif e10 + len(str(mant)) < -400:
        r = 0.0
    else:
        q = Fraction(mant) * (Fraction(10) ** e10)
        try:
            r = q.numerator / q.denominator
        except OverflowError:
            r = float("inf")
    return -r if neg else r


def num_table(text: str) -> list[list[Any]]:
    """<<lo, hi, float>> (1-based, hi exclusive) for every substring that is a float lexeme starting at lo."""
    out = []
    for p in range(len(text)):
        if p > 0 and text[p - 1].isdigit() and text[p].isdigit():
            continue  # cannot be the start of a token the lexer produces, and keeps the table small
        ends = set()
        for rx in (_FLOAT_A, _FLOAT_B):
            m = rx.match(text, p)
            if m:
                ends.add(m.end())
        for e in sorted(ends):
            out.append([p + 1, e + 1, enc_float(lexeme_to_float(text[p:e]), False)])
    return out


def exc_class(e: BaseException) -> str:
    from xdsl.utils.exceptions import ArgSpecParseError, ParseError

    if isinstance(e, ArgSpecParseError):
        return "ArgSpecParseError"
    if isinstance(e, ParseError):
        return "ParseError"
    return type(e).__name__


def real_parse(text: str) -> tuple[dict[str, Any], tuple[Any, ...]]:
    from xdsl.utils.arg_spec import parse_pipeline

    try:
        specs = tuple(parse_pipeline(text))
    except (KeyboardInterrupt, SystemExit):
        raise
    except BaseException as e:  # noqa: BLE001  (ArgSpecParseError derives from BaseException)
        return {"e": exc_class(e), "specs": []}, ()
    return {"e": "", "specs": [enc_spec(s) for s in specs]}, specs


# ------------------------------------------------------------------ field descriptors
def alts_of(tp: Any) -> list[Any] | None:
    if tp is int:
        return [["int"]]
    if tp is float:
        return [["float"]]
    if tp is bool:
        return [["bool"]]
    if tp is str:
        return [["str"]]
    if tp is NoneType or tp is None:
        return [["none"]]
    o = get_origin(tp)
    if o in (Union, UnionType):
        out: list[Any] = []
        for a in get_args(tp):
            x = alts_of(a)
            if x is None:
                return None
            out += x
        return out
    if o is Literal:
        if all(isinstance(a, str) for a in get_args(tp)):
            return [["lit", [cps(a) for a in get_args(tp)]]]
        return None
    if o is tuple:
        args = get_args(tp)
        if len(args) == 2 and args[1] is Ellipsis:
            x = alts_of(args[0])
            if x is None or any(a[0] in ("tuple", "none") for a in x):
                return None
            return [["tuple", x]]
    return None


def describe(cls: type) -> list[dict[str, Any]] | None:
    hints = get_type_hints(cls)
    out = []
    for f in dataclasses.fields(cls):
        if f.name == "name" or not f.init:
            continue
        a = alts_of(hints[f.name])
        if a is None:
            return None
        hasdef = f.default is not dataclasses.MISSING or f.default_factory is not dataclasses.MISSING
        if f.default is not dataclasses.MISSING:
            d = f.default
        elif f.default_factory is not dataclasses.MISSING:
            d = f.default_factory()
        else:
            d = None
        try:
            dv = enc_field_value(d)
        except TypeError:
            return None
        out.append({"name": cps(f.name), "pyname": f.name, "alts": a,
                    "union": int(get_origin(hints[f.name]) in (Union, UnionType)), "hasdef": int(hasdef), "def": dv})
    return out


def strip_py(fields: list[dict[str, Any]]) -> list[dict[str, Any]]:
    return [{k: v for k, v in f.items() if k != "pyname"} for f in fields]


# ------------------------------------------------------------------ generators
STR_CHARS = ['a', 'b', 'Z', '1', '0', ' ', '"', '\\', ',', '=', '{', '}', '-', '_', '\n', '\t', 'é', '中', '😀',
             '[', ']', '.', 'e', '+', "'", '/', ':', ' ', '\x85', '\xa0', '%', '$', '#']
STR_RARE = ['\r', '\f', '\v']  # no textual form: open finding
STR_WORDS = ["", "true", "false", "1", "1.0", "-3", "1e-05", "inf", "nan", "x", "some-name", "a b", "a,b", 'q"q', "\\", "\\n",
             "\\fa", "2d-slice", "None", "{x=1}", "builtin.module(cse)", "é", "tab\there", "line\nbreak", " ", "a=b"]
FLOATS = [0.0, -0.0, 1.0, -1.0, 1.5, -2.25, 0.1, 3.14, 1e-5, 1e-7, 1.5e-7, 1e16, 1e22, 1.5e300, -1e-300, 5e-324, 1e-320,
          1.7976931348623157e308, 123456789.125, 2.0 ** 53, 1 / 3, 100.0, 1e15, 1e-4, 123456789012345680.0]
INTS = [0, 1, -1, 2, 7, 42, -5, 10, 255, 2 ** 31, -(2 ** 31), 2 ** 63, 10 ** 20, -(10 ** 20), 1000000]


def gen_str(rng) -> str:
    r = rng.random()
    if r < 0.3:
        return rng.choice(STR_WORDS)
    n = rng.choice([1, 1, 2, 2, 3, 4, 6])
    pool = STR_CHARS + (STR_RARE if rng.random() < 0.04 else [])
    return "".join(rng.choice(pool) for _ in range(n))


def gen_float(rng) -> float:
    r = rng.random()
    if r < 0.5:
        return rng.choice(FLOATS)
    if r < 0.53:
        return rng.choice([float("inf"), float("-inf"), float("nan")])
    if r < 0.8:
        while True:
            v = struct.unpack(">d", rng.getrandbits(64).to_bytes(8, "big"))[0]
            if v == v and abs(v) != float("inf"):
                return v
    return round(rng.uniform(-1000, 1000), rng.choice([0, 1, 3, 6]))


def gen_base(rng, a: list[Any]) -> Any:
    k = a[0]
    if k == "int":
        return rng.choice(INTS) if rng.random() < 0.8 else rng.randint(-10 ** 6, 10 ** 6)
    if k == "float":
        return gen_float(rng)
    if k == "bool":
        return rng.random() < 0.5
    if k == "str":
        return gen_str(rng)
    if k == "lit":
        return "".join(map(chr, rng.choice(a[1])))
    raise KeyError(k)


def gen_field(rng, f: dict[str, Any]) -> Any:
    a = rng.choice(f["alts"])
    if a[0] == "none":
        return None
    if a[0] == "tuple":
        n = rng.choice([0, 1, 1, 2, 3])
        return tuple(gen_base(rng, rng.choice(a[1])) for _ in range(n))
    return gen_base(rng, a)


def synthetic_classes() -> list[type]:
    """Pass classes covering the documented option types (docstring of ModulePass / ArgSpecConvertible)."""
    from xdsl.passes import ModulePass

    def mk(name: str, annos: dict[str, Any], defaults: dict[str, Any]) -> type:
        ns: dict[str, Any] = {"__annotations__": dict(annos), "name": name, "apply": lambda self, ctx, op: None}
        ns.update(defaults)
        return dataclasses.dataclass(frozen=True)(type("Verif_" + name.replace("-", "_"), (ModulePass,), ns))

    out = [
        mk("v-base", {"i": int, "f": float, "b": bool, "s": str}, {}),
        mk("v-base-def", {"i": int, "f": float, "b": bool, "s": str}, {"i": 0, "f": 1.0, "b": False, "s": ""}),
        mk("v-opt", {"i": int | None, "f": float | None, "b": bool | None, "s": str | None}, {}),
        mk("v-opt-def", {"i": int | None, "f": float | None, "b": bool | None, "s": str | None},
           {"i": 3, "f": None, "b": True, "s": "x"}),
        mk("v-tup", {"ti": tuple[int, ...], "tf": tuple[float, ...], "ts": tuple[str, ...], "tb": tuple[bool, ...]}, {}),
        mk("v-tup-def", {"ti": tuple[int, ...], "tf": tuple[float, ...], "ts": tuple[str, ...]},
           {"ti": (), "tf": (1.0,), "ts": ("a", "b")}),
        mk("v-mix", {"tm": tuple[int | float, ...], "tu": tuple[int, ...] | tuple[float, ...], "n": int | float}, {}),
        mk("v-opt-tup", {"ot": tuple[int, ...] | None, "os": tuple[str, ...] | None, "some_flag": bool}, {"some_flag": False}),
        mk("v-lit", {"l": Literal["fast", "none"], "lt": Literal["fast", "none"] | tuple[str, ...], "ol": Literal["static", "dynamic"] | None},
           {"ol": None}),
        mk("v-req-first", {"req": int, "opt_a": str, "opt_b": int | None}, {"opt_a": "d", "opt_b": None}),
        mk("v-factory", {"ti": tuple[int, ...], "ts": tuple[str, ...], "n": int}, {"ti": dataclasses.field(default_factory=lambda: (1, 2)), "ts": dataclasses.field(default_factory=tuple), "n": 5}),
        mk("v-int-vs-bool", {"i": int, "b": bool, "io": int | None, "bo": bool | None, "ib": int | bool}, {"i": 1, "b": True, "io": 0, "bo": False, "ib": 0}),
        mk("v-num", {"f": float, "fi": float | int, "tfi": tuple[int | float, ...]}, {"f": 0.0, "fi": 0, "tfi": ()}),
    ]
    return out


def all_classes(ctx: Ctx) -> list[tuple[type, list[dict[str, Any]]]]:
    from xdsl.transforms import get_all_passes

    out = []
    skipped = 0
    for _name, factory in sorted(get_all_passes().items()):
        try:
            cls = factory()
        except Exception:  # noqa: BLE001
            skipped += 1
            continue
        d = describe(cls)
        if d is None:
            skipped += 1
            continue
        out.append((cls, d))
    ctx.coverage["registered_pass_classes"] = len(out)
    ctx.coverage["registered_pass_classes_skipped"] = skipped
    for cls in synthetic_classes():
        d = describe(cls)
        assert d is not None, cls
        out.append((cls, d))
    return out


def make_instance(rng, cls: type, fields: list[dict[str, Any]]) -> Any | None:
    kw = {}
    for f in fields:
        if f["hasdef"] and rng.random() < 0.35:
            continue
        kw[f["pyname"]] = gen_field(rng, f)
    try:
        return cls(**kw)
    except Exception:  # noqa: BLE001  (a pass may validate its options)
        return None


def inst_values(inst: Any, fields: list[dict[str, Any]], with_text: bool) -> list[Any]:
    return [enc_field_value(getattr(inst, f["pyname"]), with_text) for f in fields]


def pass_case(cls: type, fields: list[dict[str, Any]], inst: Any) -> dict[str, Any]:
    spec = inst.spec()
    text = str(inst)
    out, specs = real_parse(text)
    inst2: dict[str, Any] = {"e": "unparsed", "inst": []}
    text2 = ""
    if out["e"] == "" and len(specs) == 1:
        try:
            i2 = cls.from_spec(specs[0])
            inst2 = {"e": "", "inst": inst_values(i2, fields, False)}
            text2 = str(i2)
        except (KeyboardInterrupt, SystemExit):
            raise
        except BaseException as e:  # noqa: BLE001
            inst2 = {"e": exc_class(e), "inst": []}
    return {"kind": "pass", "fields": strip_py(fields), "name": cps(cls.name), "inst": inst_values(inst, fields, True),
            "spec": enc_spec(spec), "text": cps(text), "num": num_table(text), "out": out, "inst2": inst2, "text2": cps(text2),
            "cls": cls.name}


def clean_value(v: Any) -> Any:
    """The same value without what the open findings are about (non-finite floats, \\r \\f \\v in strings)."""
    if isinstance(v, float) and (v != v or v in (float("inf"), float("-inf"))):
        return 1.5
    if isinstance(v, str):
        return v.replace("\r", "").replace("\f", "").replace("\v", "")
    return v


def clean_instance(cls: type, fields: list[dict[str, Any]], inst: Any) -> Any | None:
    kw = {}
    for f in fields:
        v = getattr(inst, f["pyname"])
        if isinstance(v, tuple):
            v = tuple(clean_value(x) for x in v)
            if not v and f["union"] and any(a[0] == "none" for a in f["alts"]):
                v = None
        else:
            v = clean_value(v)
        kw[f["pyname"]] = v
    try:
        return cls(**kw)
    except Exception:  # noqa: BLE001
        return None


def clean_argspec(spec: Any) -> Any:
    from xdsl.utils.arg_spec import ArgSpec

    return ArgSpec(spec.name, {k: tuple(clean_value(x) for x in vs) for k, vs in spec.parameters.items()})


def pipe_case(items: list[tuple[type, list[dict[str, Any]], Any]], available: dict[str, Any]) -> dict[str, Any]:
    from xdsl.passes import PassPipeline

    text = ",".join(str(inst) for _, _, inst in items)
    out, _ = real_parse(text)
    res: dict[str, Any] = {"e": "", "insts": []}
    text2 = ""
    try:
        pp = PassPipeline.parse_spec(available, text)
        if len(pp.passes) == len(items) and all(type(p) is cls for p, (cls, _, _) in zip(pp.passes, items)):
            res["insts"] = [inst_values(p, f, False) for p, (_, f, _) in zip(pp.passes, items)]
        else:
            res = {"e": "wrong-passes", "insts": []}
        text2 = ",".join(str(p) for p in pp.passes)
    except (KeyboardInterrupt, SystemExit):
        raise
    except BaseException as e:  # noqa: BLE001
        res = {"e": exc_class(e), "insts": []}
    return {"kind": "pipe", "elems": [{"fields": strip_py(f), "name": cps(cls.name), "inst": inst_values(inst, f, True)} for cls, f, inst in items],
            "text": cps(text), "num": num_table(text), "out": out, "res": res, "text2": cps(text2)}


def gen_argspec(rng) -> Any:
    from xdsl.utils.arg_spec import ArgSpec

    name = rng.choice(["p", "my-pass", "2d-x", "cse", "a_b", "mlir-opt", "x1"])
    params: dict[str, tuple[Any, ...]] = {}
    for _ in range(rng.choice([0, 1, 1, 2, 3])):
        key = rng.choice(["k", "arg-1", "arg_2", "2d", "flag", "x"])
        n = rng.choice([0, 1, 1, 2, 3])
        vals = []
        for _ in range(n):
            kind = rng.choice(["int", "float", "bool", "str", "str"])
            vals.append(gen_base(rng, [kind]))
        params[key] = tuple(vals)
    return ArgSpec(name, params)


def rt_case(specs: list[Any]) -> dict[str, Any]:
    text = ",".join(str(s) for s in specs)
    out, parsed = real_parse(text)
    text2 = ",".join(str(s) for s in parsed) if out["e"] == "" else ""
    return {"kind": "rt", "specs": [enc_spec(s, True) for s in specs], "text": cps(text), "num": num_table(text), "out": out,
            "text2": cps(text2)}


def parse_case(text: str) -> dict[str, Any]:
    out, _ = real_parse(text)
    return {"kind": "parse", "text": cps(text), "num": num_table(text), "out": out}


def opt_case(cls: type, fields: list[dict[str, Any]], text: str) -> dict[str, Any]:
    out, specs = real_parse(text)
    inst2: dict[str, Any] = {"e": "skipped", "inst": []}
    if out["e"] == "" and len(specs) == 1:
        try:
            i2 = cls.from_spec(specs[0])
            inst2 = {"e": "", "inst": inst_values(i2, fields, False)}
        except (KeyboardInterrupt, SystemExit):
            raise
        except BaseException as e:  # noqa: BLE001
            inst2 = {"e": exc_class(e), "inst": []}
    return {"kind": "opt", "fields": strip_py(fields), "name": cps(cls.name), "text": cps(text), "num": num_table(text), "out": out,
            "inst2": inst2, "cls": cls.name}


SIGMA = "ae10-+.\"\\f{}= ,[]\né" + "t"
TOKENS = ["a", "my-pass", "2d-slice", "mlir-opt", "{", "}", "=", ",", " ", "  ", "1", "-2", "+3", "1.5", "1.", "1.5e3", "1.5e", "1e5",
          "true", "false", '"s"', '"a b"', '"\\n"', '"\\""', '"\\r"', '"\\fa"', '"\\c3\\a9"', '"', "[cse]", "[a{b=1}]", "[", "]",
          "\n", "\t", "é", "$", "(", "-", "+", ".", "k=1", "x=1,2", "b-c", "arg_1", "0007", "-0", "0.0", "-0.0", "1.0e-05", "9" * 25]


def mutate(rng, text: str) -> str:
    ops = rng.choice([1, 1, 2, 3])
    s = list(text)
    for _ in range(ops):
        r = rng.random()
        pos = rng.randint(0, len(s))
        if r < 0.35 and s:
            del s[min(pos, len(s) - 1)]
        elif r < 0.7:
            s.insert(pos, rng.choice(SIGMA + "$(x\t\r"))
        elif s:
            s[min(pos, len(s) - 1)] = rng.choice(SIGMA + "$(x\t\r")
    return "".join(s)


def option_text(rng, cls: type, fields: list[dict[str, Any]]) -> str:
    """Syntactically plausible option text for cls with wrong counts / types / unknown or duplicated keys."""
    parts = []
    names = [f["pyname"] for f in fields] + ["unknown", "x"]
    for _ in range(rng.choice([0, 1, 1, 2, 3])):
        k = rng.choice(names)
        if rng.random() < 0.5:
            k = k.replace("_", "-")
        n = rng.choice([0, 1, 1, 2])
        if n == 0:
            parts.append(k)
        else:
            parts.append(k + "=" + ",".join(rng.choice(["1", "-2", "1.5", "true", "false", "abc", '"s"', "fast", "none", "2.0e+05", '""', "static"])
                                            for _ in range(n)))
    name = cls.name if rng.random() < 0.95 else "other"
    return name + ("{" + " ".join(parts) + "}" if parts or rng.random() < 0.2 else "")


MC_CFG = """SPECIFICATION Spec
CONSTANTS
  Mode = "{mode}"
  MaxLen = {n}
{invs}
"""


def model_check(ctx: Ctx):
    q = ctx.quick
    runs = [("spec", 0, ["RoundTrip"], False), ("spec", 0, ["RoundTripEvenUnrepresentable"], True),
            ("text", 4 if q else 5, ["TotalWithDiagnostics", "TokensTile"], False)]
    for mode, n, invs, must_fail in runs:
        r = tlc.run("misc/PipelineSpecMC.tla", cfg_text=MC_CFG.format(mode=mode, n=n, invs="\n".join("INVARIANT " + i for i in invs)),
                    workers=16, timeout=3000)
        label = f"PipelineSpecMC mode={mode} MaxLen={n} {'+'.join(invs)}"
        if must_fail:
            if not r.violated:
                raise tlc.TLCMachineryError(f"{label}: the negative control was not refuted - the universe does not reach unrepresentable values")
            ctx.coverage.setdefault("models", {})[label] = {"refuted_as_required": True}
            continue
        if r.violated:
            raise tlc.TLCMachineryError(f"{label} (transcription of the current code) violates {r.violated}:\n" + "\n".join(r.out.splitlines()[-30:]))
        ctx.cov_add("states", r.distinct)
        ctx.cov_add("transitions", r.generated)
        ctx.coverage.setdefault("models", {})[label] = {"distinct": r.distinct, "generated": r.generated}
        ctx.log(f"{label}: {r.distinct} elements, ok")


def run(ctx: Ctx):
    ctx.level = "model_checking"
    q = ctx.quick
    model_check(ctx)
    classes = all_classes(ctx)
    cases: list[dict[str, Any]] = []
    what: list[str] = []

    def add(c: dict[str, Any], w: str):
        cases.append(c)
        what.append(w)

    # (a) passes with generated option values
    rng = ctx.rng("pass")
    per_cls = 40 if q else 600
    n_inst = n_twins = 0
    for cls, fields in classes:
        if not fields:
            inst = make_instance(rng, cls, fields)
            if inst is not None:
                add(pass_case(cls, fields, inst), f"pass {cls.name} without options")
                n_inst += 1
            continue
        synth = cls.__name__.startswith("Verif_")
        for _ in range(per_cls * (6 if synth else 1)):
            inst = make_instance(rng, cls, fields)
            if inst is None:
                continue
            c = pass_case(cls, fields, inst)
            add(c, f"pass {inst!r}")
            n_inst += 1
            if classify(c) != "other":  # twin without the values the open findings are about
                twin = clean_instance(cls, fields, inst)
                if twin is not None:
                    add(pass_case(cls, fields, twin), f"pass {twin!r}")
                    n_twins += 1
    ctx.coverage["pass_instances"] = n_inst
    # (a') pipelines of several passes through PassPipeline.parse_spec, the same class repeated with other values
    rng = ctx.rng("pipe")
    available = {cls.name: (lambda cls=cls: cls) for cls, _ in classes}
    n_pipes = 0
    for _ in range(1500 if q else 30000):
        items = []
        k = rng.choice([2, 2, 3, 4])
        base = rng.sample(classes, k=min(k, 2))
        for _ in range(k):
            cls, fields = rng.choice(base)
            inst = make_instance(rng, cls, fields)
            if inst is not None:
                items.append((cls, fields, inst))
        if len(items) < 2:
            continue
        c = pipe_case(items, available)
        add(c, f"pipeline of passes {[repr(i) for _, _, i in items]}")
        n_pipes += 1
        if classify(c) != "other":
            twin = [(cls, f, clean_instance(cls, f, i)) for cls, f, i in items]
            if all(t[2] is not None for t in twin):
                add(pipe_case(twin, available), f"pipeline of passes {[repr(i) for _, _, i in twin]}")
                n_twins += 1
    ctx.coverage["pass_pipelines"] = n_pipes
    # (b) ArgSpecs and pipelines
    rng = ctx.rng("spec")
    for _ in range(3000 if q else 60000):
        k = rng.choice([1, 1, 1, 2, 3])
        specs = [gen_argspec(rng) for _ in range(k)]
        c = rt_case(specs)
        add(c, f"pipeline {[str(s) for s in specs]}")
        if classify(c) != "other":
            twin_specs = [clean_argspec(s) for s in specs]
            add(rt_case(twin_specs), f"pipeline {[str(s) for s in twin_specs]}")
            n_twins += 1
    ctx.coverage["twins_without_known_finding_values"] = n_twins
    # (c) arbitrary texts
    n_exh = 0
    for n in range(0, 4 if q else 5):
        for t in itertools.product(SIGMA, repeat=n):
            add(parse_case("".join(t)), "text " + repr("".join(t)))
            n_exh += 1
    ctx.coverage["texts_exhaustive"] = n_exh
    ctx.coverage["texts_exhaustive_rule"] = f"every text over the {len(SIGMA)}-character alphabet {SIGMA!r} up to length {3 if q else 4}"
    rng = ctx.rng("text")
    printed = ["".join(map(chr, c["text"])) for c in cases if c["kind"] in ("pass", "rt", "pipe")]
    for _ in range(6000 if q else 120000):
        r = rng.random()
        if r < 0.5:
            t = mutate(rng, rng.choice(printed))
        elif r < 0.9:
            t = "".join(rng.choice(TOKENS) for _ in range(rng.randint(1, 8)))
        else:
            t = "".join(rng.choice(SIGMA) for _ in range(rng.randint(5, 9)))
        add(parse_case(t), "text " + repr(t))
    # (d) option texts against pass classes
    rng = ctx.rng("opt")
    with_fields = [(c, f) for c, f in classes if f]
    for _ in range(4000 if q else 80000):
        cls, fields = rng.choice(with_fields)
        t = option_text(rng, cls, fields)
        add(opt_case(cls, fields, t), f"options {t!r} for {cls.name}")
    ctx.log(f"{len(cases)} cases recorded from the real printer/parser/conversion")
    kinds: dict[str, int] = {}
    outcomes: dict[str, int] = {}
    for c in cases:
        kinds[c["kind"]] = kinds.get(c["kind"], 0) + 1
        outcomes[c["out"]["e"] or "parsed"] = outcomes.get(c["out"]["e"] or "parsed", 0) + 1
    ctx.coverage["cases_by_kind"] = kinds
    ctx.coverage["parse_outcomes"] = outcomes
    res = casecheck.run_cases("misc/PipelineSpecCases.tla", [{k: v for k, v in c.items() if k != "cls"} for c in cases])
    VIOL = {"RoundTrip", "ReprintStable", "FailsOnlyWithDiagnostics"}
    n_div = 0
    for idx, tail in res.mismatches:
        c = cases[idx]
        clause = tail[0]
        text = "".join(map(chr, c["text"]))
        if clause in VIOL:
            ctx.violate(f"{what[idx]}: {clause} fails (text {text!r}, parsed {c['out']['e'] or 'ok'}"
                        + (f", from_spec {c['inst2']['e'] or 'ok'}" if "inst2" in c else "") + (f", parse_spec {c['res']['e'] or 'ok'}" if "res" in c else "") + ")",
                        {"kind": c["kind"], "clause": clause, "class": classify(c), "text": text, "cls": c.get("cls", ""), "case": c}, clause=clause)
        else:
            n_div += 1
            ctx.diverge(f"{what[idx]}: {clause} (text {text!r}, real outcome {c['out']['e'] or 'ok'})", clause=clause)
    ctx.coverage["model_divergences"] = n_div
    ctx.cov_add("traces_validated_against_impl", len(cases))
    ctx.coverage["judge_states"] = res.states
    ctx.coverage["evaluations"] = len(cases)
    ctx.coverage["distinct_nontrivial"] = len({tuple(c["text"]) for c in cases})
    ctx.coverage["rule"] = "distinct = distinct pipeline texts printed or parsed"
    ctx.sample({k: v for k, v in cases[0].items() if k != "fields"})
    ctx.assumptions += ["the decimal->binary64 rounding of float lexemes is taken from exact rational arithmetic in the harness (a table handed to the model), not computed by TLC",
                        "equality of passes is Python's == on the field values (bool/int/float compare numerically); ReprintStable additionally requires the same text when the parsed pipeline is printed again",
                        "ArgSpecParseError, ParseError (string escapes) and from_spec's ValueError are the diagnostics of the property; any other exception class is an internal error",
                        "lone surrogate code points are not generated"]


def classify(c: dict[str, Any]) -> str:
    """Value class of a failing round trip, used to key known findings narrowly."""
    def vals():
        if c["kind"] == "pass":
            for v in c["inst"]:
                if v[0] == "T":
                    yield from v[1]
                elif v[0] != "N":
                    yield v
        elif c["kind"] == "pipe":
            for el in c["elems"]:
                for v in el["inst"]:
                    if v[0] == "T":
                        yield from v[1]
                    elif v[0] != "N":
                        yield v
        elif c["kind"] == "rt":
            for s in c["specs"]:
                for _k, vs in s["params"]:
                    yield from vs
    tags = set()
    for v in vals():
        if v[0] == "s" and any(ch in (11, 12, 13) for ch in v[1]):
            tags.add("string-with-cr-ff-vt")
        if v[0] == "f" and (v[2] == ["nan"] or v[1][0] & 0x7FF0 == 0x7FF0):
            tags.add("non-finite-float")
    groups = [(c["fields"], c["inst"])] if c["kind"] == "pass" else [(el["fields"], el["inst"]) for el in c.get("elems", [])]
    for fs, vs in groups:
        for f, v in zip(fs, vs):
            if v == ["T", []] and f["union"] and any(a[0] == "none" for a in f["alts"]):
                tags.add("empty-tuple-in-optional-tuple-field")
    return "+".join(sorted(tags)) or "other"
