"""Seeded generator of executable func/arith/cf/scf programs (MLIR text) shared by C13-C16, C19, C21-C23, C28."""

from __future__ import annotations

from typing import Any

INTERP_OPS = ["addi", "subi", "muli", "andi", "ori", "xori", "shli", "shrsi", "divsi", "remsi", "floordivsi"]
ALL_BIN = INTERP_OPS + ["divui", "remui", "shrui", "ceildivsi", "ceildivui", "minsi", "maxsi", "minui", "maxui"]
PREDS = ["eq", "ne", "slt", "sle", "sgt", "sge", "ult", "ule", "ugt", "uge"]


def consts_for(w: int) -> list[int]:
    lo, hi = -(1 << (w - 1)), (1 << (w - 1)) - 1
    c = {0, 1, -1, 2, 3, lo, hi, hi - 1, lo + 1, 7, -8, 100, -128, 127}
    return sorted(x for x in c if lo <= x <= hi)


class Gen:
    def __init__(self, rng, w: int, allow: list[str], control: str, effects: bool, select: bool, casts: bool, max_stmts: int):
        self.rng, self.w, self.allow, self.control, self.effects, self.select, self.casts = rng, w, allow, control, effects, select, casts
        self.n = 0
        self.max_stmts = max_stmts
        self.t = f"i{w}"
        self.decls: set[str] = set()

    def fresh(self, p="v") -> str:
        self.n += 1
        return f"%{p}{self.n}"

    def const(self, lines, ind) -> str:
        v = self.fresh("c")
        lines.append(f"{ind}{v} = arith.constant {self.rng.choice(consts_for(self.w))} : {self.t}")
        return v

    def pick(self, pool, lines, ind) -> str:
        if not pool or self.rng.random() < 0.2:
            return self.const(lines, ind)
        return self.rng.choice(pool)

    def bool_val(self, ints, bools, lines, ind) -> str:
        if bools and self.rng.random() < 0.4:
            return self.rng.choice(bools)
        b = self.fresh("b")
        lines.append(f"{ind}{b} = arith.cmpi {self.rng.choice(PREDS)}, {self.pick(ints, lines, ind)}, {self.pick(ints, lines, ind)} : {self.t}")
        bools.append(b)
        return b

    def stmts(self, ints: list[str], bools: list[str], lines: list[str], ind: str, depth: int, budget: int) -> None:
        """Append statements; new values are added to ints/bools (scoped copies are passed for regions)."""
        for _ in range(budget):
            r = self.rng.random()
            if r < 0.55 or depth == 0 and self.control == "none":
                op = self.rng.choice(self.allow)
                v = self.fresh()
                lines.append(f"{ind}{v} = arith.{op} {self.pick(ints, lines, ind)}, {self.pick(ints, lines, ind)} : {self.t}")
                ints.append(v)
            elif r < 0.65:
                self.bool_val(ints, bools, lines, ind)
            elif r < 0.72 and self.select:
                b = self.bool_val(ints, bools, lines, ind)
                v = self.fresh()
                lines.append(f"{ind}{v} = arith.select {b}, {self.pick(ints, lines, ind)}, {self.pick(ints, lines, ind)} : {self.t}")
                ints.append(v)
            elif r < 0.78 and self.effects:
                self.decls.add(f"func.func private @ext{self.w}({self.t}) -> ()")
                lines.append(f"{ind}func.call @ext{self.w}({self.pick(ints, lines, ind)}) : ({self.t}) -> ()")
            elif r < 0.88 and self.control in ("scf", "mixed") and depth > 0:
                b = self.bool_val(ints, bools, lines, ind)
                v = self.fresh()
                lines.append(f"{ind}{v} = scf.if {b} -> ({self.t}) {{")
                for branch in (0, 1):
                    i2, b2 = list(ints), list(bools)
                    self.stmts(i2, b2, lines, ind + "  ", depth - 1, self.rng.randint(0, 2))
                    lines.append(f"{ind}  scf.yield {self.pick(i2, lines, ind + '  ')} : {self.t}")
                    lines.append(f"{ind}}} else {{" if branch == 0 else f"{ind}}}")
                ints.append(v)
            elif self.control in ("scf", "mixed") and depth > 0:
                lb, ub, st = self.fresh("lb"), self.fresh("ub"), self.fresh("st")
                lines.append(f"{ind}{lb} = arith.constant {self.rng.choice([-2, 0, 0, 1, 3])} : index")
                lines.append(f"{ind}{ub} = arith.constant {self.rng.choice([-1, 0, 2, 3, 5])} : index")
                lines.append(f"{ind}{st} = arith.constant {self.rng.choice([1, 1, 2, 3])} : index")
                acc, iv, v = self.fresh("acc"), self.fresh("i"), self.fresh()
                lines.append(f"{ind}{v} = scf.for {iv} = {lb} to {ub} step {st} iter_args({acc} = {self.pick(ints, lines, ind)}) -> ({self.t}) {{")
                i2, b2 = list(ints) + [acc], list(bools)
                if self.casts:
                    ivc = self.fresh("ivc")
                    lines.append(f"{ind}  {ivc} = arith.index_cast {iv} : index to {self.t}")
                    i2.append(ivc)
                self.stmts(i2, b2, lines, ind + "  ", depth - 1, self.rng.randint(1, 3))
                lines.append(f"{ind}  scf.yield {self.pick(i2[len(ints):], lines, ind + '  ')} : {self.t}")
                lines.append(f"{ind}}}")
                ints.append(v)


def gen_program(rng, allow=None, control: str = "scf", effects: bool = False, select: bool = False, casts: bool = True, width=None,
                max_stmts: int = 6) -> tuple[str, list[int], list[int]]:
    """-> (module text, argument widths, result widths)."""
    w = width or rng.choice([1, 2, 3, 4, 4, 8, 8, 16, 32, 64])
    g = Gen(rng, w, allow or ALL_BIN, control, effects, select, casts, max_stmts)
    nargs = rng.randint(1, 3)
    args = [f"%a{i}" for i in range(nargs)]
    t = g.t
    lines: list[str] = []
    ints, bools = list(args), []
    if control == "cf":
        # a CFG: entry computes, branches to a diamond or a counted loop, exit returns a block argument
        g.stmts(ints, bools, lines, "    ", 0, rng.randint(1, 3))
        b = g.bool_val(ints, bools, lines, "    ")
        if rng.random() < 0.5:
            lines.append(f"    cf.cond_br {b}, ^bb1, ^bb2")
            for name in ("bb1", "bb2"):
                lines.append(f"  ^{name}:")
                i2, b2 = list(ints), list(bools)
                g.stmts(i2, b2, lines, "    ", 0, rng.randint(0, 3))
                lines.append(f"    cf.br ^bb3({g.pick(i2, lines, '    ')} : {t})")
            lines.append(f"  ^bb3(%p: {t}):")
            ints = ints + ["%p"]
            g.stmts(ints, bools, lines, "    ", 0, rng.randint(0, 2))
            ret = [g.pick(ints, lines, "    ")]
        else:
            n = rng.choice([0, 1, 2, 3])
            lines.append(f"    %n = arith.constant {n} : index")
            lines.append("    %z = arith.constant 0 : index")
            lines.append("    %one = arith.constant 1 : index")
            lines.append(f"    cf.br ^hdr(%z, {g.pick(ints, lines, '    ')} : index, {t})")
            lines.append(f"  ^hdr(%i: index, %acc: {t}):")
            lines.append("    %lt = arith.cmpi slt, %i, %n : index")
            lines.append("    cf.cond_br %lt, ^body, ^exit")
            lines.append("  ^body:")
            i2, b2 = list(ints) + ["%acc"], list(bools)
            g.stmts(i2, b2, lines, "    ", 0, rng.randint(1, 3))
            lines.append("    %inext = arith.addi %i, %one : index")
            lines.append(f"    cf.br ^hdr(%inext, {g.pick(i2, lines, '    ')} : index, {t})")
            lines.append("  ^exit:")
            ret = ["%acc"]
    else:
        g.stmts(ints, bools, lines, "    ", 2 if control != "none" else 0, rng.randint(2, max_stmts))
        ret = [g.pick(ints, lines, "    ")]
        if rng.random() < 0.3:
            ret.append(g.pick(ints, lines, "    "))
    sig = ", ".join(f"{a} : {t}" for a in args)
    rts = ", ".join([t] * len(ret))
    body = "\n".join(lines)
    decls = "\n".join("  " + d for d in sorted(g.decls))
    text = (f"builtin.module {{\n{decls}\n  func.func @main({sig}) -> ({rts}) {{\n{body}\n    func.return {', '.join(ret)} : {rts}\n  }}\n}}")
    return text, [w] * nargs, [w] * len(ret)


def parse(text: str):
    from xdsl.context import Context
    from xdsl.dialects import affine, arith, builtin, cf, func, scf
    from xdsl.parser import Parser

    ctx = Context()
    for d in (builtin.Builtin, arith.Arith, func.Func, scf.Scf, cf.Cf, affine.Affine):
        ctx.load_dialect(d)
    return Parser(ctx, text).parse_module()


def loop_family():
    """Every scf.for with constant lb in -2..3, ub in -1..5, step in 1..3: returns (sum of iv + arg, trip count, last iv + 1)."""
    for lb in range(-2, 4):
        for ub in range(-1, 6):
            for st in (1, 2, 3):
                text = f"""builtin.module {{
  func.func @main(%a0 : i16) -> (i16, i16, i16) {{
    %lb = arith.constant {lb} : index
    %ub = arith.constant {ub} : index
    %st = arith.constant {st} : index
    %z = arith.constant 0 : i16
    %one = arith.constant 1 : i16
    %init_last = arith.constant -7 : i16
    %s, %n, %l = scf.for %i = %lb to %ub step %st iter_args(%acc = %a0, %cnt = %z, %last = %init_last) -> (i16, i16, i16) {{
      %iv = arith.index_cast %i : index to i16
      %acc2 = arith.addi %acc, %iv : i16
      %cnt2 = arith.addi %cnt, %one : i16
      %l2 = arith.addi %iv, %one : i16
      scf.yield %acc2, %cnt2, %l2 : i16, i16, i16
    }}
    func.return %s, %n, %l : i16, i16, i16
  }}
}}"""
                yield text, [16], [16, 16, 16]


def cf_truth_family():
    """cf programs where a branch condition is used again in a block with several predecessors / in both arms."""
    shapes = [
        # if-without-else diamond: ^else (join) has two predecessors and uses %c again
        """    cf.cond_br %c, ^then, ^join(%a0 : i8)
  ^then:
    %t = arith.addi %a0, %a1 : i8
    cf.br ^join(%t : i8)
  ^join(%p : i8):
    %one = arith.constant 1 : i8
    %two = arith.constant 2 : i8
    %s = arith.select %c, %one, %two : i8
    %r = arith.addi %p, %s : i8
    func.return %r : i8""",
        # the condition used in both successors, each with a single predecessor
        """    cf.cond_br %c, ^then, ^else
  ^then:
    %x = arith.select %c, %a0, %a1 : i8
    func.return %x : i8
  ^else:
    %y = arith.select %c, %a0, %a1 : i8
    func.return %y : i8""",
        # second branch on the same condition in the join block
        """    cf.cond_br %c, ^then, ^join
  ^then:
    cf.br ^join
  ^join:
    cf.cond_br %c, ^l, ^r
  ^l:
    func.return %a0 : i8
  ^r:
    func.return %a1 : i8""",
        # loop back-edge into the else block
        """    cf.cond_br %c, ^a, ^b(%a0 : i8)
  ^a:
    %n = arith.xori %a0, %a1 : i8
    cf.br ^b(%n : i8)
  ^b(%q : i8):
    %z = arith.constant 0 : i8
    %m = arith.select %c, %q, %z : i8
    func.return %m : i8""",
    ]
    for body in shapes:
        yield f"builtin.module {{\n  func.func @main(%c : i1, %a0 : i8, %a1 : i8) -> (i8) {{\n{body}\n  }}\n}}", [1, 8, 8], [8]


def nest_family(rng, n: int):
    """Perfect and imperfect scf.for nests with iter_args, used and unused induction variables, effects in the body."""
    for _ in range(n):
        olb, oub, ost = rng.choice([0, 0, 0, 0, 1, -1]), rng.choice([0, 1, 2, 3, 4]), rng.choice([1, 1, 2, 3])
        ilb, iub, ist = rng.choice([0, 0, 1, 2, -2]), rng.choice([0, 2, 3, 5]), rng.choice([1, 1, 2])
        unused = rng.random() < 0.5          # flattening applies when neither induction variable is used
        use_i, use_j = (False, False) if unused else (rng.random() < 0.6, rng.random() < 0.6)
        eff = rng.random() < 0.4
        sym = rng.random() < 0.3
        k1, k2 = rng.choice([1, 2, 3, -1, 0]), rng.choice([0, 1, 5, -2])
        body = []
        if use_i:
            body += ["        %ii = arith.index_cast %i : index to i16", f"        %ki = arith.constant {k1} : i16", "        %mi = arith.muli %ii, %ki : i16",
                     "        %x1 = arith.addi %acc2, %mi : i16"]
        else:
            body += ["        %x1 = arith.addi %acc2, %a0 : i16"]
        if use_j:
            body += ["        %jj = arith.index_cast %j : index to i16", f"        %kj = arith.constant {k2} : i16", "        %aj = arith.addi %jj, %kj : i16",
                     "        %x2 = arith.xori %x1, %aj : i16"]
        else:
            body += ["        %x2 = arith.addi %x1, %one : i16"]
        if eff:
            body += ["        func.call @ext16(%x2) : (i16) -> ()"]
        oub_def = f"    %oub = arith.constant {oub} : index" if not sym else "    %oub = arith.index_cast %a1 : i16 to index"
        text = f"""builtin.module {{
  func.func private @ext16(i16) -> ()
  func.func @main(%a0 : i16, %a1 : i16) -> (i16) {{
    %olb = arith.constant {olb} : index
{oub_def}
    %ost = arith.constant {ost} : index
    %ilb = arith.constant {ilb} : index
    %iub = arith.constant {iub} : index
    %ist = arith.constant {ist} : index
    %one = arith.constant 1 : i16
    %r = scf.for %i = %olb to %oub step %ost iter_args(%acc = %a0) -> (i16) {{
      %r2 = scf.for %j = %ilb to %iub step %ist iter_args(%acc2 = %acc) -> (i16) {{
{chr(10).join(body)}
        scf.yield %x2 : i16
      }}
      scf.yield %r2 : i16
    }}
    func.return %r : i16
  }}
}}"""
        yield text, [16, 16], [16]


def range_fold_family(rng, n: int):
    """Loops whose induction variable feeds add/mul chains with loop-invariant operands (incl. zero / negative factors, multi-use)."""
    for _ in range(n):
        lb, ub, st = rng.choice([0, 1, -2]), rng.choice([0, 3, 4, 5]), rng.choice([1, 2])
        c = rng.choice([0, 1, 2, 3, -1])
        sym = rng.random() < 0.5
        shape = rng.choice(["add", "mul", "addmul", "multiuse"])
        kdef = "    %k = arith.index_cast %a1 : i16 to index" if sym else f"    %k = arith.constant {c} : index"
        if shape == "add":
            body = ["      %t = arith.addi %i, %k : index"]
        elif shape == "mul":
            body = ["      %t = arith.muli %i, %k : index"]
        elif shape == "addmul":
            body = ["      %t0 = arith.addi %i, %k : index", "      %t = arith.muli %t0, %k2 : index"]
        else:
            body = ["      %t0 = arith.addi %i, %k : index", "      %tm = arith.muli %t0, %k2 : index", "      %tn = arith.addi %t0, %k : index",
                    "      %t = arith.addi %tm, %tn : index"]
        text = f"""builtin.module {{
  func.func @main(%a0 : i16, %a1 : i16) -> (i16) {{
    %lb = arith.constant {lb} : index
    %ub = arith.constant {ub} : index
    %st = arith.constant {st} : index
{kdef}
    %k2 = arith.constant {rng.choice([2, 3, 1])} : index
    %r = scf.for %i = %lb to %ub step %st iter_args(%acc = %a0) -> (i16) {{
{chr(10).join(body)}
      %tc = arith.index_cast %t : index to i16
      %n = arith.addi %acc, %tc : i16
      scf.yield %n : i16
    }}
    func.return %r : i16
  }}
}}"""
        yield text, [16, 16], [16]


def affine_family(rng, n: int):
    """affine.for with constant bounds (zero-trip and negative ranges, steps 1-3) whose body evaluates an affine.apply over the
    induction variable and a symbol taken from an argument (negative values included: mod / floordiv / ceildiv are floor-based)."""
    shapes = ["d0 + {c}", "d0 * {c}", "(d0 + s0) mod {p}", "d0 mod {p}", "s0 mod {p}", "d0 floordiv {p}", "s0 floordiv {p}", "(d0 + s0) ceildiv {p}",
              "s0 ceildiv {p}", "(d0 * {c} + s0) mod {p}", "(s0 + d0 * {c}) floordiv {p}", "s0 * {c} + d0", "(d0 mod {p}) + (s0 floordiv {q})"]
    for _ in range(n):
        lb, ub, st = rng.randint(-3, 2), rng.randint(-2, 6), rng.choice([1, 1, 2, 3])
        e = rng.choice(shapes).format(c=rng.choice([-3, -1, 2, 5]), p=rng.choice([1, 2, 3, 4, 7]), q=rng.choice([2, 3]))
        text = f"""func.func @main(%a0 : i16, %a1 : i16) -> i16 {{
  %s = arith.index_cast %a0 : i16 to index
  %r = "affine.for"(%a1) <{{"lowerBoundMap" = affine_map<() -> ({lb})>, "upperBoundMap" = affine_map<() -> ({ub})>, "step" = {st} : index, operandSegmentSizes = array<i32: 0, 0, 1>}}> ({{
  ^bb0(%i : index, %acc : i16):
    %v = affine.apply affine_map<(d0)[s0] -> ({e})> (%i)[%s]
    %vi = arith.index_cast %v : index to i16
    %n = arith.addi %acc, %vi : i16
    "affine.yield"(%n) : (i16) -> ()
  }}) : (i16) -> i16
  func.return %r : i16
}}
"""
        yield text, [16, 16], [16]


def carried_family():
    """scf.for with two or three loop-carried values whose yield permutes / mixes them (swap, rotation, Fibonacci-style), constant
    bounds incl. zero-trip, steps 1-2: what an unroller or a lowering to block arguments must treat as a simultaneous assignment."""
    yields2 = [("%b, %a", "swap"), ("%b, %s", "fib"), ("%a, %s", "keep-first"), ("%s, %a", "sum-then-old-first"), ("%b, %b", "dup-second")]
    yields3 = [("%b, %c, %a", "rotate-left"), ("%c, %a, %b", "rotate-right"), ("%b, %a, %s", "swap-two"), ("%c, %s, %a", "mix")]
    for (lb, ub, st) in [(0, 0, 1), (0, 1, 1), (0, 2, 1), (0, 3, 1), (1, 4, 2), (0, 5, 2), (2, 1, 1)]:
        for y, _tag in yields2:
            yield (f"""func.func @main(%x : i16, %y : i16) -> (i16, i16) {{
  %lb = arith.constant {lb} : index
  %ub = arith.constant {ub} : index
  %st = arith.constant {st} : index
  %r:2 = scf.for %i = %lb to %ub step %st iter_args(%a = %x, %b = %y) -> (i16, i16) {{
    %s = arith.addi %a, %b : i16
    scf.yield {y} : i16, i16
  }}
  func.return %r#0, %r#1 : i16, i16
}}
""", [16, 16], [16, 16])
        for y, _tag in yields3:
            yield (f"""func.func @main(%x : i16, %y : i16, %z : i16) -> (i16, i16, i16) {{
  %lb = arith.constant {lb} : index
  %ub = arith.constant {ub} : index
  %st = arith.constant {st} : index
  %r:3 = scf.for %i = %lb to %ub step %st iter_args(%a = %x, %b = %y, %c = %z) -> (i16, i16, i16) {{
    %s = arith.subi %a, %c : i16
    scf.yield {y} : i16, i16, i16
  }}
  func.return %r#0, %r#1, %r#2 : i16, i16, i16
}}
""", [16, 16, 16], [16, 16, 16])


def recursion_family():
    """Multi-block functions re-entered recursively through func.call; values of the outer activation are used after the call
    returns (factorial, Fibonacci, a sum that keeps two values live across two calls), also in scf form."""
    fact_cf = """func.func @main(%n : i16) -> i16 {
  %r = func.call @fact(%n) : (i16) -> i16
  func.return %r : i16
}
func.func @fact(%n : i16) -> i16 {
  %one = arith.constant 1 : i16
  %c = arith.cmpi sle, %n, %one : i16
  cf.cond_br %c, ^base, ^rec
^base:
  func.return %one : i16
^rec:
  %m = arith.subi %n, %one : i16
  %f = func.call @fact(%m) : (i16) -> i16
  %p = arith.muli %n, %f : i16
  func.return %p : i16
}
"""
    fib_cf = """func.func @main(%n : i16) -> i16 {
  %r = func.call @fib(%n) : (i16) -> i16
  func.return %r : i16
}
func.func @fib(%n : i16) -> i16 {
  %one = arith.constant 1 : i16
  %two = arith.constant 2 : i16
  %c = arith.cmpi slt, %n, %two : i16
  cf.cond_br %c, ^base(%n : i16), ^rec
^base(%v : i16):
  func.return %v : i16
^rec:
  %a = arith.subi %n, %one : i16
  %fa = func.call @fib(%a) : (i16) -> i16
  %b = arith.subi %n, %two : i16
  %fb = func.call @fib(%b) : (i16) -> i16
  %s = arith.addi %fa, %fb : i16
  %t = arith.addi %s, %n : i16
  %u = arith.subi %t, %n : i16
  func.return %u : i16
}
"""
    fact_scf = """func.func @main(%n : i16) -> i16 {
  %r = func.call @fact(%n) : (i16) -> i16
  func.return %r : i16
}
func.func @fact(%n : i16) -> i16 {
  %one = arith.constant 1 : i16
  %c = arith.cmpi sle, %n, %one : i16
  %r = scf.if %c -> (i16) {
    scf.yield %one : i16
  } else {
    %m = arith.subi %n, %one : i16
    %f = func.call @fact(%m) : (i16) -> i16
    %p = arith.muli %n, %f : i16
    scf.yield %p : i16
  }
  func.return %r : i16
}
"""
    loop_call = """func.func @main(%n : i16) -> i16 {
  %lb = arith.constant 0 : index
  %ub = arith.constant 3 : index
  %st = arith.constant 1 : index
  %r = scf.for %i = %lb to %ub step %st iter_args(%acc = %n) -> (i16) {
    %v = func.call @step(%acc) : (i16) -> i16
    %w = arith.addi %v, %acc : i16
    scf.yield %w : i16
  }
  func.return %r : i16
}
func.func @step(%x : i16) -> i16 {
  %three = arith.constant 3 : i16
  %c = arith.cmpi sgt, %x, %three : i16
  cf.cond_br %c, ^big, ^small
^big:
  %h = arith.subi %x, %three : i16
  func.return %h : i16
^small:
  %d = arith.addi %x, %x : i16
  func.return %d : i16
}
"""
    for text in (fact_cf, fib_cf, fact_scf, loop_call):
        yield text, [16], [16]
