"""C15: the interpreter computes MLIR semantics for arithmetic and control flow.

Model: spec/sem/BV.tla (bit-vector arithmetic on byte limbs, self-checked by TLC against integer arithmetic in
BVCheck.tla) and spec/sem/Machine.tla (operational semantics of func/arith/cf/scf).  Binding C2S: (1) one-op
functions for every arith op the interpreter implements are run by the REAL interpreter on every operand
tuple for widths 1..4 (plus boundary tuples for 8/16/32/64/index) and (2) generated multi-op programs with
cf / scf control flow are run by the real interpreter; the observed results are judged by TLC, which executes
the same programs under Machine.tla (MachineCases.tla, kind "run").  Results are compared as bit patterns."""

from __future__ import annotations

from typing import Any

from .. import casecheck, serialize, tlc
from ..core import Ctx, Hang, time_limit
from . import progs

BIN_OPS = ["addi", "subi", "muli", "andi", "ori", "xori", "divsi", "remsi", "floordivsi", "shli", "shrsi", "divui", "remui", "shrui",
           "ceildivsi", "ceildivui", "minsi", "maxsi", "minui", "maxui"]
PREDS = ["eq", "ne", "slt", "sle", "sgt", "sge", "ult", "ule", "ugt", "uge"]


def to_signed(v: int, w: int) -> int:
    v &= (1 << w) - 1
    return v - (1 << w) if v >> (w - 1) else v


def run_interpreter(module, fname: str, args: list[int]):
    """-> ("done", results) | ("raise", error name) | ("unimplemented", op)."""
    from xdsl.context import Context
    from xdsl.interpreter import Interpreter
    from xdsl.interpreters import register_implementations
    from xdsl.utils.exceptions import InterpretationError

    interp = Interpreter(module)
    register_implementations(interp, Context())
    try:
        with time_limit(10.0):
            res = interp.call_op(fname, tuple(args))
    except Hang:
        return ("raise", "Hang")
    except InterpretationError as e:
        if "Could not find interpretation function" in str(e):
            return ("unimplemented", str(e)[:80])
        return ("raise", "InterpretationError")
    except Exception as e:  # noqa: BLE001
        return ("raise", type(e).__name__)
    return ("done", list(res))


def ty(w) -> str:
    return "index" if w == "index" else f"i{w}"


def one_op_module(op: str, w, pred: str | None = None, rw=None):
    from xdsl.context import Context
    from xdsl.dialects import arith, builtin, func
    from xdsl.parser import Parser

    t = ty(w)
    if op == "cmpi":
        body = f"%r = arith.cmpi {pred}, %a, %b : {t}\n func.return %r : i1"
        sig, ret = f"%a : {t}, %b : {t}", "i1"
    elif op == "select":
        body = f"%r = arith.select %c, %a, %b : {t}\n func.return %r : {t}"
        sig, ret = f"%c : i1, %a : {t}, %b : {t}", t
    elif op in ("extsi", "extui", "trunci", "index_cast", "index_castui"):
        rt = ty(rw)
        body = f"%r = arith.{op} %a : {t} to {rt}\n func.return %r : {rt}"
        sig, ret = f"%a : {t}", rt
    else:
        body = f"%r = arith.{op} %a, %b : {t}\n func.return %r : {t}"
        sig, ret = f"%a : {t}, %b : {t}", t
    text = f"builtin.module {{ func.func @main({sig}) -> {ret} {{\n {body}\n }} }}"
    ctx = Context()
    for d in (builtin.Builtin, arith.Arith, func.Func):
        ctx.load_dialect(d)
    return Parser(ctx, text).parse_module()


def collect(ctx: Ctx, module, widths_in: list[int], inputs: list[list[list[int]]], res_widths: list[int], meta: dict[str, Any], cases, metas):
    """Run the real interpreter on every input; add a 'run' case."""
    got = []
    unimpl = None
    for inp in inputs:
        args = [to_signed(serialize.from_limbs(l), w) for l, w in zip(inp, widths_in)]
        st, res = run_interpreter(module, "main", args)
        if st == "unimplemented":
            unimpl = res
            break
        if st == "done":
            rets = []
            in_range = True
            for v, w in zip(res, res_widths):
                iv = int(v)
                if not (-(1 << (w - 1)) <= iv <= (1 << w) - 1):
                    in_range = False
                rets.append(serialize.limbs(iv, w))
            got.append({"st": "done" if in_range else "out_of_range", "rets": rets})
        else:
            got.append({"st": st + ":" + str(res), "rets": []})
    if unimpl is not None:
        ctx.coverage.setdefault("ops_not_implemented_by_interpreter", []).append(meta.get("op", "?"))
        return
    try:
        prog = serialize.serialize_module(module, "main")
    except serialize.Unsupported as e:
        ctx.diverge("program not expressible in Machine.tla", reason=str(e))
        return
    cases.append({"kind": "run", "A": prog, "inputs": inputs, "got": got})
    metas.append(meta)


def run(ctx: Ctx):
    ctx.level = "exploration"
    q = ctx.quick
    rng = ctx.rng("c15")
    # 0. the arithmetic itself: BV.tla against integer arithmetic
    r = tlc.run("sem/BVCheck.tla", cfg_text="SPECIFICATION Spec\nCONSTANT Widths = {%s}\nINVARIANT OK\n" % ("1, 2, 3, 4, 8, 9" if q else "1, 2, 3, 4, 5, 6, 8, 9, 12, 15"), timeout=1200)
    if r.violated:
        raise tlc.TLCMachineryError("BV.tla fails its self-check")
    ctx.coverage["bv_selfcheck_states"] = r.distinct
    cases: list[dict[str, Any]] = []
    metas: list[dict[str, Any]] = []
    small = [1, 2, 3, 4]
    big = [8, 16, 32, 64, "index"] if not q else [8, 64, "index"]
    for op in BIN_OPS:
        for w in small + big:
            wi = 64 if w == "index" else w
            try:
                m = one_op_module(op, w)
            except Exception as e:  # noqa: BLE001
                ctx.diverge("cannot build one-op module", op=op, error=str(e)[:80])
                continue
            inputs = serialize.input_tuples([wi, wi], rng, 256 if w in small else (60 if q else 200))
            collect(ctx, m, [wi, wi], inputs, [wi], {"op": "arith." + op, "width": str(w)}, cases, metas)
    for pred in PREDS:
        for w in small + big:
            wi = 64 if w == "index" else w
            m = one_op_module("cmpi", w, pred)
            inputs = serialize.input_tuples([wi, wi], rng, 256 if w in small else (60 if q else 200))
            collect(ctx, m, [wi, wi], inputs, [1], {"op": "arith.cmpi", "pred": pred, "width": str(w)}, cases, metas)
    for w in small + [8, 64]:
        m = one_op_module("select", w)
        inputs = serialize.input_tuples([1, w, w], rng, 128)
        collect(ctx, m, [1, w, w], inputs, [w], {"op": "arith.select", "width": str(w)}, cases, metas)
    for op, pairs in (("extsi", [(1, 8), (3, 4), (4, 16), (8, 64), (32, 64)]), ("extui", [(1, 8), (3, 4), (4, 16), (8, 64), (32, 64)]),
                      ("trunci", [(8, 1), (4, 3), (16, 4), (64, 8), (64, 32)]), ("index_cast", [(4, "index"), (32, "index"), ("index", 8), ("index", 32)]),
                      ("index_castui", [(4, "index"), (32, "index"), ("index", 8)])):
        for (a, b) in pairs:
            wa, wb = (64 if a == "index" else a), (64 if b == "index" else b)
            try:
                m = one_op_module(op, a, rw=b)
            except Exception as e:  # noqa: BLE001
                ctx.diverge("cannot build cast module", op=op, error=str(e)[:80])
                continue
            inputs = serialize.input_tuples([wa], rng, 64)
            collect(ctx, m, [wa], inputs, [wb], {"op": "arith." + op, "width": f"{a}->{b}"}, cases, metas)
    n_tables = len(cases)
    # 2. generated multi-op programs with control flow
    nprog = 60 if q else 1500
    for k in range(nprog):
        prng = ctx.rng(f"prog{k}")
        text, widths, rws = progs.gen_program(prng, allow=progs.INTERP_OPS, control=prng.choice(["none", "scf", "cf", "scf"]))
        try:
            m = progs.parse(text)
            m.verify()
        except Exception as e:  # noqa: BLE001
            ctx.diverge("generated program does not parse/verify", error=str(e)[:120])
            continue
        inputs = serialize.input_tuples(widths, prng, 24 if q else 48)
        collect(ctx, m, widths, inputs, rws, {"op": "program", "text": text}, cases, metas)
    for text, widths, rws in progs.loop_family():
        m = progs.parse(text)
        collect(ctx, m, widths, [[serialize.limbs(v, 16)] for v in (0, 5, 65535)], rws, {"op": "program", "text": text}, cases, metas)
    for text, widths, rws in progs.recursion_family():
        m = progs.parse(text)
        collect(ctx, m, widths, [[serialize.limbs(v, 16)] for v in (0, 1, 2, 3, 4, 5)], rws, {"op": "program", "text": text}, cases, metas)
    for text, widths, rws in progs.carried_family():
        m = progs.parse(text)
        collect(ctx, m, widths, [[serialize.limbs(v, 16) for v in vs[:len(widths)]] for vs in ((1, 2, 3), (65535, 0, 7))], rws, {"op": "program", "text": text}, cases, metas)
    ctx.log(f"{n_tables} one-op tables, {len(cases) - n_tables} programs; {sum(len(c['inputs']) for c in cases)} interpreter runs")
    res = casecheck.run_cases("sem/MachineCases.tla", cases, min_per_shard=8, timeout=3000, count_ends=lambda c: len(c["inputs"]))
    st: dict[str, int] = {}
    for (_i, _j, sa, _sb) in getattr(res, "ends", []):
        st[sa] = st.get(sa, 0) + 1
    ctx.coverage["machine_run_status"] = st
    ends = {}
    seen = set()
    for idx, tail in res.mismatches:
        clause, j = tail
        m = metas[idx]
        key = (m.get("op"), m.get("pred"), m.get("width"), clause)
        if key in seen and m.get("op") != "program":
            continue
        seen.add(key)
        c = cases[idx]
        inp = [serialize.from_limbs(l) for l in c["inputs"][j - 1]]
        ctx.violate(f"{m.get('op')} {m.get('pred', '')} width {m.get('width', '')}: on operands {inp} (bit patterns) the interpreter returned {c['got'][j-1]}: {clause}"
                    + (f"\n{m['text']}" if m.get("op") == "program" else ""),
                    {"clause": clause, "op": m.get("op"), "pred": m.get("pred", ""), "width": m.get("width", ""), "inputs": inp, "got": c["got"][j - 1],
                     "program": m.get("text", ""),
                     "unsigned_cmpi": m.get("pred", "") in ("ult", "ule", "ugt", "uge") or any(f"cmpi {p}," in m.get("text", "") for p in ("ult", "ule", "ugt", "uge"))},
                    clause=clause)
    ctx.coverage.update({"evaluations": sum(len(c["inputs"]) for c in cases), "distinct_nontrivial": sum(len(c["inputs"]) for c in cases[:n_tables]) + (len(cases) - n_tables),
                         "op_tables": n_tables, "programs": len(cases) - n_tables, "machine_states": res.states,
                         "rule": "every operand tuple for widths 1-4 and boundary/random tuples for 8..64/index, per arith op and predicate the interpreter implements; "
                                 "plus generated programs (arith chains, scf.if/for, cf branches) on boundary inputs; distinct = (op table entry) + programs"})
    ctx.sample({"meta": metas[0], "inputs": cases[0]["inputs"][:3], "got": cases[0]["got"][:3]})
    ctx.assumptions += ["BV.tla / Machine.tla are the MLIR semantics (self-check BVCheck.tla); floating point is not modelled",
                        "arguments are passed to the interpreter in its own convention (two's-complement signed Python ints); results compared as bit patterns"]
