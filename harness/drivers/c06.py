"""C06: builtin attributes and types round-trip bit-exactly through text.

Model: spec/value/ValueSem.tla - a value is its payload tree (class, parameters in order, data leaves by exact
content; a float leaf by the bit pattern of the float type it is stored under, so f32 1.0 and f64 1.0 are different
leaves and NaN payloads / signed zeros count).  TLC (spec/value/LiteralRoundTripCases.tla) decides, for every
generated builtin attribute / type value, Prints, PrintedTextParsesBack, ParsesBackToTheSamePayload,
ParsesBackToAnEqualValue and ReprintIsStable on what the real printer and the real parser did.
Generators: integers of widths 1-128 and all signednesses at their bounds, floats of each float type over boundary /
non-finite / subnormal / many-digit / random-bit values, strings over ASCII control characters, quotes, backslashes,
non-BMP Unicode, bytes, dense elements and dense arrays over those numbers (splats, NaN, -0.0), arrays, dictionaries,
symbol references, locations, affine maps / sets, shaped / function / tuple / complex types, recursively nested; plus
every distinct attribute of the corpus."""

from __future__ import annotations

import io
import struct
from typing import Any

from .. import casecheck
from ..core import Ctx, Hang, time_limit
from . import c08


def P6(x: Any, depth: int = 0, ftype: Any = None) -> list[Any]:
    """C08's payload tree, with float leaves taken under the float type they are stored with."""
    from xdsl.dialects.builtin import FloatAttr, FloatData
    from xdsl.ir import Attribute, Data, ParametrizedAttribute

    if isinstance(x, FloatAttr):
        v = x.value.data
        try:
            bits = x.type.pack((float(v),)).hex()
        except Exception:  # noqa: BLE001  (no packed form for this type: the double pattern is all there is)
            bits = "d" + struct.pack(">d", float(v)).hex()
        return c08.N("P:" + c08.cls_tag(x), [c08.N("f" + bits), P6(x.type, depth + 1)])
    if isinstance(x, Attribute) and not isinstance(x, FloatData):
        if isinstance(x, Data):
            return c08.N("D:" + c08.cls_tag(x), [P6(x.data, depth + 1)])
        if isinstance(x, ParametrizedAttribute):
            return c08.N("P:" + c08.cls_tag(x), [P6(p, depth + 1) for p in x.parameters])
    if isinstance(x, (tuple, list)):
        return c08.N("t", [P6(e, depth + 1) for e in x])
    from collections.abc import Mapping

    if isinstance(x, Mapping):
        kids = [c08.N("kv", [P6(k, depth + 1), P6(v, depth + 1)]) for k, v in x.items()]
        return c08.N("d", sorted(kids, key=repr))
    return c08.P(x, depth)


def print_attr(a: Any) -> str:
    from xdsl.printer import Printer

    buf = io.StringIO()
    Printer(stream=buf).print_attribute(a)
    return buf.getvalue()


def parse_attr(text: str) -> Any:
    from xdsl.parser import Parser

    p = Parser(c08.fresh_ctx(), text)
    a = p.parse_attribute()
    p._parse_token(__import__("xdsl.utils.mlir_lexer", fromlist=["MLIRTokenKind"]).MLIRTokenKind.EOF, "expected end of text")  # pyright: ignore
    return a


def more_generated(rng) -> list[tuple[Any, str]]:
    """Values beyond C08's list: more widths / signednesses, random-bit floats, nested containers, more strings."""
    from xdsl.dialects import builtin as b

    out: list[tuple[Any, str]] = []

    def add(label, mk):
        try:
            out.append((mk(), label))
        except Exception:  # noqa: BLE001  (value not constructible: not part of the quantifier)
            pass

    for w in (1, 2, 7, 8, 16, 31, 32, 33, 64, 65, 128):
        for sg in (b.Signedness.SIGNLESS, b.Signedness.SIGNED, b.Signedness.UNSIGNED):
            t = b.IntegerType(w, sg)
            lo, hi = t.value_range()
            for v in {lo, hi - 1, 0, 1, -1, lo + 1, hi - 2, (hi - 1) // 2}:
                add(f"IntegerAttr({v}, {t})", lambda v=v, t=t: b.IntegerAttr(v, t))
    fts = [b.f16, b.bf16, b.f32, b.f64, b.Float80Type(), b.Float128Type()]
    specials = c08.special_floats() + [1e22, 1e-7, 1234567.0, 123456789.0, 16777217.0, 9007199254740993.0, 0.30000000000000004, 2.5e-324, 6.1e-05, 65520.0, 3.4028235e38, 1e39, -1e-46]
    for t in fts:
        for v in specials:
            add(f"FloatAttr({v!r}, {t})", lambda v=v, t=t: b.FloatAttr(v, t))
        for _ in range(40):
            v = struct.unpack(">d", rng.getrandbits(64).to_bytes(8, "big"))[0]
            add(f"FloatAttr({v!r}, {t})", lambda v=v, t=t: b.FloatAttr(v, t))
    strs = ["", "a", "\x00", "\x01\x02", "\t", "\n", "\r", "\x0b\x0c", "\x7f", "\"", "\\", "\\n", "é", "中文", "\U0001F600", "a b", "퟿", "�", "%0", "//", "{-#", "\xa0", "a" * 300, "café", "naïve_name", "x²", "v٣", "变量", "a.b$c", "_", "a b", "9lives", "a-b", "é9", "A"]
    for s in strs:
        add(f"StringAttr({s!r})", lambda s=s: b.StringAttr(s))
        add(f"BytesAttr({s!r})", lambda s=s: b.BytesAttr(s.encode("utf-8", "surrogatepass")))
        add(f"SymbolRefAttr({s!r})", lambda s=s: b.SymbolRefAttr(s or "x", [s or "y"]))
        add(f"OpaqueAttr({s!r})", lambda s=s: b.OpaqueAttr.from_strings("d", s))
        add(f"loc({s!r})", lambda s=s: b.FileLineColLoc(b.StringAttr(s), b.IntAttr(1), b.IntAttr(2)))
    add("BytesAttr(all bytes)", lambda: b.BytesAttr(bytes(range(256))))
    # locations, nested
    flc = b.FileLineColLoc(b.StringAttr("f.mlir"), b.IntAttr(3), b.IntAttr(14))
    locs = {"unknown": lambda: b.UnknownLoc(), "file": lambda: flc, "name": lambda: b.NameLoc(b.StringAttr("n"), b.NoneAttr()),
            "name(unknown)": lambda: b.NameLoc(b.StringAttr("n"), b.UnknownLoc()), "name(file)": lambda: b.NameLoc(b.StringAttr("a b"), flc),
            "name(name(unknown))": lambda: b.NameLoc(b.StringAttr("o"), b.NameLoc(b.StringAttr("i"), b.UnknownLoc())),
            "callsite": lambda: b.CallSiteLoc(flc, b.UnknownLoc()), "callsite(name)": lambda: b.CallSiteLoc(b.NameLoc(b.StringAttr("n"), b.UnknownLoc()), flc),
            "fused": lambda: b.FusedLoc(b.ArrayAttr((flc, b.UnknownLoc())), b.NoneAttr()), "fused(name)": lambda: b.FusedLoc(b.ArrayAttr((b.NameLoc(b.StringAttr("n"), b.UnknownLoc()),)), b.NoneAttr()),
            "fused()": lambda: b.FusedLoc(b.ArrayAttr(()), b.NoneAttr())}
    for k, mk in locs.items():
        add(f"loc {k}", mk)
    # one printer, the same number under two float types: the spelling of one must not be reused for the other
    for v in (0.1, 1 / 3, 0.10009765625, 123456792.0, 16777217.0, 1.0, 65504.0, 2.5, 1e-7, 3.0e38):
        for narrow, wide in ((b.bf16, b.f32), (b.f16, b.f32), (b.f32, b.f64), (b.bf16, b.f64), (b.f64, b.f32)):
            add(f"[{v!r} : {narrow}, {v!r} : {wide}]", lambda v=v, narrow=narrow, wide=wide: b.ArrayAttr([b.FloatAttr(v, narrow), b.FloatAttr(v, wide)]))
            add(f"dict {v!r} {narrow} {wide}", lambda v=v, narrow=narrow, wide=wide: b.DictionaryAttr({"a": b.FloatAttr(v, narrow), "b": b.FloatAttr(v, wide),
                                                                                                   "c": b.DenseIntOrFPElementsAttr.from_list(b.TensorType(wide, [2]), [v, 1.0])}))
    for t, vals in ((b.f16, [0.0, -0.0, 1.0, 65504.0, float("inf")]), (b.bf16, [1.0, 3.0e38]), (b.f32, [0.1, float("nan"), -0.0, 16777217.0]), (b.f64, [0.1, 5e-324, float("-inf"), 1e308]),
                    (b.i1, [0, 1, 1]), (b.i8, [-128, 127, 0]), (b.i32, [2 ** 31 - 1, -2 ** 31]), (b.i64, [2 ** 63 - 1, -2 ** 63, 0]), (b.IndexType(), [0, 7])):
        add(f"dense({t}, {vals})", lambda t=t, vals=vals: b.DenseIntOrFPElementsAttr.from_list(b.TensorType(t, [len(vals)]), vals))
        add(f"dense splat({t}, {vals[0]})", lambda t=t, vals=vals: b.DenseIntOrFPElementsAttr.from_list(b.TensorType(t, [4]), [vals[0]] * 4))
        add(f"dense 2d({t})", lambda t=t, vals=vals: b.DenseIntOrFPElementsAttr.from_list(b.TensorType(t, [2, 1]), [vals[0], vals[-1]]))
        if not isinstance(t, b.IndexType):
            add(f"array({t}, {vals})", lambda t=t, vals=vals: b.DenseArrayBase.from_list(t, vals))
    # long lists are printed as a hexadecimal blob
    for t, gen in ((b.i8, lambda k: (k * 37) % 256 - 128), (b.i1, lambda k: k % 3 == 0), (b.i32, lambda k: k * 1000003 - 7), (b.i64, lambda k: -(k ** 5)),
                   (b.f32, lambda k: k / 7), (b.f64, lambda k: (-1) ** k * k / 3), (b.f16, lambda k: float(k)), (b.IndexType(), lambda k: k)):
        for n in (100, 101, 128, 257):
            add(f"dense long({t}, {n})", lambda t=t, gen=gen, n=n: b.DenseIntOrFPElementsAttr.from_list(b.TensorType(t, [n]), [gen(k) for k in range(n)]))
        add(f"dense long 2d({t})", lambda t=t, gen=gen: b.DenseIntOrFPElementsAttr.from_list(b.TensorType(t, [3, 40]), [gen(k) for k in range(120)]))
        if not isinstance(t, b.IndexType):
            add(f"array long({t})", lambda t=t, gen=gen: b.DenseArrayBase.from_list(t, [gen(k) for k in range(130)] if t != b.f16 else [1.0] * 5))
    # affine maps and sets
    from xdsl.ir.affine import AffineBinaryOpExpr, AffineBinaryOpKind, AffineConstantExpr, AffineDimExpr, AffineExpr, AffineMap, AffineSymExpr

    d0, d1, s0 = AffineExpr.dimension(0), AffineExpr.dimension(1), AffineExpr.symbol(0)
    exprs = [d0, d1 + 3, d0 * 2, d0 - d1, d0 // 4, d0 % 8, d0.ceil_div(2), d0 + s0, (d0 + d1) * 2, d0 * -1, -d0, s0 * 3 + d1,
             AffineExpr.constant(-5), (d0 % 4) // 2, d0 - 1]
    for k, e in enumerate(exprs):
        add(f"affine_map #{k}", lambda e=e: b.AffineMapAttr(AffineMap(2, 1, (e,))))
    add("affine_map two results", lambda: b.AffineMapAttr(AffineMap(2, 1, (d0 + s0, d1 % 2))))
    add("affine_map no dims", lambda: b.AffineMapAttr(AffineMap(0, 0, (AffineExpr.constant(7),))))
    add("affine_map empty", lambda: b.AffineMapAttr(AffineMap(1, 0, ())))
    add("memref with map", lambda: b.MemRefType(b.f32, [4, 4], b.AffineMapAttr(AffineMap(2, 0, (d1, d0)))))
    dyn = getattr(b, "DYNAMIC_INDEX", -1)
    add("strided dynamic", lambda: b.MemRefType(b.f32, [dyn, 3], b.StridedLayoutAttr([dyn, 1], dyn)))
    add("strided no offset", lambda: b.MemRefType(b.i8, [2], b.StridedLayoutAttr([1])))
    for strides, off in (([0], 0), ([4, 0, 1], 0), ([0, 0], 5), ([1], 0), ([2, 1], None), ([None, 0], 0), ([3], 7), ([], 0), ([-1], -2)):
        add(f"strided {strides} {off}", lambda strides=strides, off=off: b.StridedLayoutAttr(strides, off))
        add(f"memref strided {strides} {off}", lambda strides=strides, off=off: b.MemRefType(b.f32, [2] * len(strides), b.StridedLayoutAttr(strides, off)))
    add("vector 0-d", lambda: b.VectorType(b.f32, []))
    add("unsigned index-like", lambda: b.IntegerAttr(2 ** 64 - 1, b.IntegerType(64, b.Signedness.UNSIGNED)))
    add("dense vector", lambda: b.DenseIntOrFPElementsAttr.from_list(b.VectorType(b.f32, [2]), [1.5, -2.5]))
    add("dense empty", lambda: b.DenseIntOrFPElementsAttr.from_list(b.TensorType(b.f32, [0]), []))
    def roundtrips(x) -> bool:    # generation filter only: containers are built from values that round-trip on their own
        try:
            y = parse_attr(print_attr(x))
            return y == x and P6(y) == P6(x)
        except Exception:  # noqa: BLE001
            return False

    base = [x for x, _ in out if roundtrips(x)]
    for k in range(150):
        n = rng.choice([0, 1, 2, 3])
        add(f"ArrayAttr #{k}", lambda n=n: b.ArrayAttr([rng.choice(base) for _ in range(n)]))
        add(f"DictionaryAttr #{k}", lambda n=n: b.DictionaryAttr({rng.choice(["a", "b.c", "with space", "é", "0", "", "café", "x²", "变量", "a$", "_x", "a-b", "q\"q"]) or "k": rng.choice(base) for _ in range(n)}))
    nested = [x for x, _ in out[-300:] if roundtrips(x)]
    for k in range(60):
        add(f"nested #{k}", lambda: b.ArrayAttr([rng.choice(nested), b.DictionaryAttr({"k": rng.choice(nested)})]))
    for shape in ([], [1], [2, 3], [getattr(b, 'DYNAMIC_INDEX', -1), 4], [0]):
        for t in (b.f32, b.i1, b.IndexType(), b.ComplexType(b.f32), b.TensorType(b.i8, [2])):
            add(f"TensorType({t}, {shape})", lambda shape=shape, t=t: b.TensorType(t, shape))
            add(f"MemRefType({t}, {shape})", lambda shape=shape, t=t: b.MemRefType(t, shape))
            add(f"UnrankedTensor({t})", lambda t=t: b.UnrankedTensorType(t))
    add("memref strided", lambda: b.MemRefType(b.f32, [2, 3], b.StridedLayoutAttr([3, 1], 4)))
    add("memref space", lambda: b.MemRefType(b.f32, [2], b.NoneAttr(), b.IntegerAttr(2, b.i64)))
    add("vector scalable", lambda: b.VectorType(b.i32, [2, 4], b.ArrayAttr([b.BoolAttr.from_bool(True), b.BoolAttr.from_bool(False)])))
    add("function type", lambda: b.FunctionType.from_lists([b.i32, b.TensorType(b.f32, [2])], [b.TupleType((b.i1,))]))
    add("tuple of tuple", lambda: b.TupleType((b.TupleType(()), b.i32)))
    return out


def run(ctx: Ctx):
    ctx.level = "exploration"
    q = ctx.quick
    rng = ctx.rng("gen")
    values: list[tuple[Any, str]] = [(a, label) for a, _twin, label in c08.generated(rng) if "parse " not in label]
    values += more_generated(rng)
    n_gen = len(values)
    for a, _twin, where in c08.corpus_pairs(ctx, 3000 if q else 60000):
        from xdsl.dialects.builtin import BuiltinAttribute

        if isinstance(a, BuiltinAttribute) and type(a).__name__ != "DenseResourceAttr":   # a handle into the module's resource section, not a self-contained value
            values.append((a, f"corpus {where}"))
    ctx.log(f"{n_gen} generated and {len(values) - n_gen} corpus builtin attributes / types")
    cases, metas = [], []
    skipped = 0
    for a, label in values:
        try:
            pa = P6(a)
        except (c08.Unprojectable, RecursionError):
            skipped += 1
            continue
        if c08.node_size(pa) > 600:
            skipped += 1
            continue
        c = {"printed": 0, "parsed": 0, "a": pa, "b": [], "eq": 0, "reprint": 0}
        m = {"label": label, "cls": type(a).__name__, "text": "", "error": "", "leaf": leaf_issue(a)}
        try:
            text = print_attr(a)
            c["printed"] = 1
            m["text"] = text
        except Exception as e:  # noqa: BLE001
            m["error"] = f"{type(e).__name__}: {str(e)[:150]}"
            cases.append(c)
            metas.append(m)
            continue
        try:
            with time_limit(20.0):
                back = parse_attr(text)
            c["parsed"] = 1
        except (Exception, Hang) as e:  # noqa: BLE001
            m["error"] = f"{type(e).__name__}: {str(e).splitlines()[-1][:150] if str(e) else ''}"
            cases.append(c)
            metas.append(m)
            continue
        try:
            c["b"] = P6(back)
            c["eq"] = int(a == back)
            c["reprint"] = int(print_attr(back) == text)
            m["back"] = c08.sstr(back)
        except Exception as e:  # noqa: BLE001
            m["error"] = f"{type(e).__name__}: {str(e)[:150]}"
        cases.append(c)
        metas.append(m)
    ctx.coverage["skipped_unprojectable_or_huge"] = skipped
    res = casecheck.run_cases("value/LiteralRoundTripCases.tla", cases, max_per_shard=3000)
    for idx, tail in res.mismatches:
        m = metas[idx]
        clause = tail[0]
        ctx.violate(f"{m['label']}: {clause} fails (text {m['text'][:160]!r}{', ' + m['error'] if m['error'] else ''}{', parsed back ' + m.get('back', '')[:120] if clause != 'Prints' else ''})",
                    {"clause": clause, "cls": m["cls"], "label": m["label"][:200], "text": m["text"][:1000], "error": m["error"],
                     "kind": kind_of(m), "leaf": m["leaf"]}, clause=clause)
    ctx.coverage.update({"evaluations": len(cases), "distinct_nontrivial": len({m["text"] for m in metas}), "generated_values": n_gen, "corpus_values": len(values) - n_gen,
                         "classes": len({m["cls"] for m in metas}), "judge_states": res.states,
                         "rule": "generated builtin attribute / type values (see the driver's docstring) and every distinct builtin attribute of the parsed corpus; distinct = distinct printed texts"})
    ctx.sample({"label": metas[0]["label"], "text": metas[0]["text"]})
    ctx.assumptions += ["the payload projection of C08 with float leaves taken under their float type (harness/drivers/c06.py P6) defines 'bit for bit'",
                        "values the public constructors refuse are outside the quantifier; lone surrogates are encoded with surrogatepass only for BytesAttr"]


def leaf_issue(a: Any) -> str:
    """Does the value contain (or is it) a leaf one of the open findings is about?  Used to key those findings."""
    from xdsl.dialects import builtin as b

    subs: list[Any] = []
    c08.sub_attrs(a, subs)
    for x in subs:
        if isinstance(x, b.NoneAttr):
            return "NoneAttr"
        if isinstance(x, b.BytesAttr):
            return "BytesAttr"
        if isinstance(x, b.FloatAttr) and isinstance(x.type, (b.Float80Type, b.Float128Type)):
            return "FloatAttr of f80/f128"
        if isinstance(x, b.FloatData) and not isinstance(a, b.FloatAttr) and x is a:
            return "FloatData"
        if isinstance(x, b.DenseArrayBase) and isinstance(x.elt_type, b.AnyFloat):
            try:
                if "0x" in print_attr(x):
                    return "DenseArrayBase with a hexadecimal float element"
            except Exception:  # noqa: BLE001
                pass
    return ""


def kind_of(m: dict[str, Any]) -> str:
    """Coarse description of the value for keying findings: class + what is special about it."""
    lab = m["label"]
    tags = []
    if "0x" in m["text"] and m["cls"] == "DenseArrayBase":
        tags.append("hex-float-element")
    if m["cls"] == "StringAttr" and "\\" in m["text"]:
        tags.append("escaped")
    for needle, tag in (("nan", "nan"), ("inf", "inf"), ("Float80", "f80"), ("Float128", "f128"), ("f80", "f80"), ("f128", "f128"), ("bf16", "bf16"), ("f16", "f16")):
        if needle in lab and tag not in tags:
            tags.append(tag)
    return m["cls"] + (":" + "+".join(tags) if tags else "")
