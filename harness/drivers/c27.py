"""C27: PDL patterns act the same interpreted or compiled to pdl_interp.

Model: spec/pdl/PDLMatch.tla - the meaning of a PDL pattern (operation / operand / result-of / attribute / type
constraints with shared variables; rewrite = erase | replace with operand | replace with new operation) on a flat
payload, as match relation + rewrite step; TLC explores every application order to the fixpoints.  Binding: generated
single-pattern PDL modules (and patterns instantiated from them into generated payloads with near-misses: wrong result
index, different producers, missing/falsy attributes, extra operands) are applied to the payload by BOTH real paths
(apply-pdl; convert-pdl-to-pdl-interp + apply-pdl-interp).  TLC (PDLCases.tla) decides the property - the two resulting
payloads are equal - and, as diagnosis, which of them is a fixpoint of the model."""

from __future__ import annotations

import json
import tempfile
from concurrent.futures import ThreadPoolExecutor
from pathlib import Path
from typing import Any

from .. import tlc
from ..core import Ctx, Hang, time_limit

NAMES = ["test.op", "test.op_with_memwrite"]
REMOVABLE = {"test.pureop", "test.op_with_memread"}     # without uses these are trivially dead: the greedy driver of apply-pdl erases them
TYPES = ["i32", "i64", "index"]            # token k+1
ATTRV = ["0 : i32", "1 : i32", "2 : i32", "unit", "[]", "\"s\""]   # token k+1  (0 : i32 and [] are falsy in Python)
ATTRN = ["a", "b"]


def tt(k: int) -> str:
    return TYPES[k - 1]


def at(k: int) -> str:
    return ATTRV[k - 1]


# ------------------------------------------------------------------------------------------------ patterns
def gen_pattern(rng, names=None) -> dict[str, Any]:
    """Pattern record for PDLMatch.tla."""
    NAMES = names or globals()["NAMES"]
    nv = na = nt = 0
    ops: list[dict[str, Any]] = []

    def tconst_or_var(allow_none=False):
        nonlocal nt
        r = rng.random()
        if allow_none and r < 0.6:
            return {"kind": "none", "x": 0}
        if r < 0.75 or nt == 0:
            if rng.random() < 0.5:
                return {"kind": "const", "x": rng.randint(1, len(TYPES))}
            nt += 1
            return {"kind": "var", "x": nt}
        return {"kind": "var", "x": rng.randint(1, nt)}

    def attrs():
        nonlocal na
        out = []
        for n in ATTRN:
            if rng.random() < 0.3:
                if rng.random() < 0.65:
                    out.append({"n": n, "kind": "const", "x": rng.randint(1, len(ATTRV))})
                elif na and rng.random() < 0.4:
                    out.append({"n": n, "kind": "var", "x": rng.randint(1, na)})
                else:
                    na += 1
                    out.append({"n": n, "kind": "var", "x": na})
        return out

    def value_var(new_only=False):
        nonlocal nv
        if nv and not new_only and rng.random() < 0.3:
            return rng.randint(1, nv)
        nv += 1
        return nv

    def op_constraint(depth: int, need_results: int) -> int:
        nonlocal nv
        idx = len(ops)
        ops.append({})
        name = rng.choice(NAMES) if (depth == 0 or rng.random() < 0.7) else ""
        operands = []
        for _ in range(rng.choice([0, 1, 1, 2, 2])):
            if depth < 2 and rng.random() < (0.45 if depth == 0 else 0.25):
                res = rng.choice([1, 1, 2])
                # the same producer may be reached twice (diamond)
                prev = [p for p in operands if p["kind"] == "def"]
                if prev and rng.random() < 0.4:
                    c = prev[0]["op"]
                    res = 2 if prev[0]["res"] == 1 else 1
                    if len(ops[c - 1]["rtypes"]) < res:
                        ops[c - 1]["rtypes"].append(tconst_or_var())
                else:
                    c = op_constraint(depth + 1, res) + 1
                nv += 1
                operands.append({"kind": "def", "x": nv, "op": c, "res": res, "t": {"kind": "none", "x": 0}})
            else:
                operands.append({"kind": "var", "x": value_var(), "op": 0, "res": 0, "t": tconst_or_var(allow_none=True)})
        nres = max(need_results, rng.choice([0, 1, 1, 1, 2]) if depth == 0 else rng.choice([1, 1, 2]))
        ops[idx] = {"name": name, "operands": operands, "attrs": attrs(), "rtypes": [tconst_or_var() for _ in range(nres)]}
        return idx

    root = op_constraint(0, 0)
    r = ops[root]
    bound_vals = sorted({p["x"] for o in ops for p in o["operands"]})
    nres = len(r["rtypes"])
    new = {"name": "", "operands": [], "attrs": [], "rtypes": []}
    if nres == 0:
        kind = rng.choice(["erase", "erase", "newop"])
    elif nres == 1 and bound_vals:
        kind = rng.choice(["operand", "newop", "newop"])
    else:
        kind = "newop"
    x = 0
    if kind == "operand":
        x = rng.choice(bound_vals)
    if kind == "newop":
        bound_types = sorted({t["x"] for o in ops for t in o["rtypes"] if t["kind"] == "var"})   # operand type vars may stay unbound
        bound_attrs = sorted({a["x"] for o in ops for a in o["attrs"] if a["kind"] == "var"})
        others = [n for n in NAMES if n != r["name"]] or NAMES
        new = {"name": rng.choice(others),
               "operands": [rng.choice(bound_vals) for _ in range(rng.choice([0, 1, 2]) if bound_vals else 0)],
               "attrs": sorted([{"n": n, "kind": "var", "x": rng.choice(bound_attrs)} if bound_attrs and rng.random() < 0.5
                                else {"n": n, "kind": "const", "x": rng.randint(1, len(ATTRV))} for n in ATTRN if rng.random() < 0.4], key=lambda a: a["n"]),
               "rtypes": [({"kind": "var", "x": rng.choice(bound_types)} if bound_types and rng.random() < 0.5
                           else {"kind": "const", "x": rng.randint(1, len(TYPES))}) for _ in range(nres)]}
    return {"ops": ops, "root": root + 1, "rewrite": {"kind": kind, "x": x, "new": new}, "nv": max(nv, 1), "na": max(na, 1), "nt": max(nt, 1)}


def pattern_text(pat: dict[str, Any], hoist: bool = False) -> str:
    """hoist: constants used only by the rewrite are defined in the pattern body instead of inside the rewrite block"""
    lines: list[str] = []
    match_lines = lines
    tvar: dict[int, str] = {}
    avar: dict[int, str] = {}
    vvar: dict[int, str] = {}
    n = [0]

    def fresh(p):
        n[0] += 1
        return f"%{p}{n[0]}"

    def ty(c) -> str:
        if c["kind"] == "const":
            v = fresh("tc")
            lines.append(("  " if lines is match_lines else "    ") + f"{v} = pdl.type : {tt(c['x'])}")
            return v
        if c["x"] not in tvar:
            tvar[c["x"]] = fresh("t")
            lines.append(f"  {tvar[c['x']]} = pdl.type")
        return tvar[c["x"]]

    def attr(c) -> str:
        if c["kind"] == "const":
            v = fresh("ac")
            lines.append(("  " if lines is match_lines else "    ") + f"{v} = pdl.attribute = {at(c['x'])}")
            return v
        if c["x"] not in avar:
            avar[c["x"]] = fresh("a")
            lines.append(f"  {avar[c['x']]} = pdl.attribute")
        return avar[c["x"]]

    opname: dict[int, str] = {}

    def emit_op(c: int) -> str:
        if c in opname:
            return opname[c]
        oc = pat["ops"][c - 1]
        opnds = []
        for pc in oc["operands"]:
            if pc["x"] in vvar:
                opnds.append(vvar[pc["x"]])
                continue
            if pc["kind"] == "var":
                v = fresh("x")
                if pc["t"]["kind"] == "none":
                    lines.append(f"  {v} = pdl.operand")
                else:
                    lines.append(f"  {v} = pdl.operand : {ty(pc['t'])}")
            else:
                o = emit_op(pc["op"])
                v = fresh("r")
                lines.append(f"  {v} = pdl.result {pc['res'] - 1} of {o}")
            vvar[pc["x"]] = v
            opnds.append(v)
        attrs = [(a["n"], attr(a)) for a in oc["attrs"]]
        types = [ty(t) for t in oc["rtypes"]]
        v = fresh("op")
        lines.append(f"  {v} = pdl.operation" + (f' "{oc["name"]}"' if oc["name"] else "")
                     + (f" ({', '.join(opnds)} : {', '.join(['!pdl.value'] * len(opnds))})" if opnds else "")
                     + (" {" + ", ".join(f'"{k}" = {x}' for k, x in attrs) + "}" if attrs else "")
                     + (f" -> ({', '.join(types)} : {', '.join(['!pdl.type'] * len(types))})" if types else ""))
        opname[c] = v
        return v

    root = emit_op(pat["root"])
    rw = pat["rewrite"]
    body: list[str] = []
    if not hoist:
        lines = body          # constants created from here on go into the rewrite block
    if rw["kind"] == "erase":
        body.append(f"    pdl.erase {root}")
    elif rw["kind"] == "operand":
        body.append(f"    pdl.replace {root} with ({vvar[rw['x']]} : !pdl.value)")
    else:
        nw = rw["new"]
        attrs = [(a["n"], attr(a)) for a in nw["attrs"]]
        types = [ty(t) for t in nw["rtypes"]]
        opnds = [vvar[x] for x in nw["operands"]]
        body.append(f'    %new = pdl.operation "{nw["name"]}"'
                    + (f" ({', '.join(opnds)} : {', '.join(['!pdl.value'] * len(opnds))})" if opnds else "")
                    + (" {" + ", ".join(f'"{k}" = {x}' for k, x in attrs) + "}" if attrs else "")
                    + (f" -> ({', '.join(types)} : {', '.join(['!pdl.type'] * len(types))})" if types else ""))
        body.append(f"    pdl.replace {root} with %new" if types else f"    pdl.erase {root}")
    return "pdl.pattern : benefit(1) {\n" + "\n".join(match_lines) + f"\n  pdl.rewrite {root} {{\n" + "\n".join(body) + "\n  }\n}\n"


# ------------------------------------------------------------------------------------------------ payloads
def gen_payload(rng, pat: dict[str, Any], names=None) -> dict[str, Any]:
    """Payload record for PDLMatch.tla: noise ops plus instantiations of the pattern and near-misses of it."""
    NAMES = names or globals()["NAMES"]
    argtypes = [rng.randint(1, len(TYPES)) for _ in range(rng.randint(1, 3))]
    ops: list[dict[str, Any]] = []
    nid = [0]

    def values(t: int | None = None):
        vs = [{"k": "arg", "a": i + 1, "b": 0} for i in range(len(argtypes)) if t is None or argtypes[i] == t]
        for o in ops:
            for k, rt in enumerate(o["rtypes"]):
                if t is None or rt == t:
                    vs.append({"k": "res", "a": o["id"], "b": k + 1})
        return vs

    def add(name, operands, attrs, rtypes):
        nid[0] += 1
        ops.append({"id": nid[0], "name": name, "operands": operands, "attrs": sorted(attrs, key=lambda a: a["n"]), "rtypes": rtypes})
        return nid[0]

    def noise():
        vs = values()
        add(rng.choice(NAMES), [rng.choice(vs) for _ in range(rng.choice([0, 1, 2]))],
            [{"n": n, "v": rng.randint(1, len(ATTRV))} for n in ATTRN if rng.random() < 0.3],
            [rng.randint(1, len(TYPES)) for _ in range(rng.choice([0, 1, 1, 2]))])

    def instantiate(c: int, env: dict[str, Any], perturb: str | None) -> int:
        """add ops satisfying constraint c (recursively its producers); env carries variable bindings"""
        oc = pat["ops"][c - 1]
        if ("op", c) in env:
            return env[("op", c)]
        operands = []
        for j, pc in enumerate(oc["operands"]):
            if ("v", pc["x"]) in env:
                v = env[("v", pc["x"])]
            elif pc["kind"] == "var":
                want = None
                if pc["t"]["kind"] == "const":
                    want = pc["t"]["x"]
                elif pc["t"]["kind"] == "var":
                    want = env.get(("t", pc["t"]["x"]))
                cands = values(want) or values()
                v = rng.choice(cands)
                if pc["t"]["kind"] == "var":
                    env.setdefault(("t", pc["t"]["x"]), argtypes[v["a"] - 1] if v["k"] == "arg" else next(o for o in ops if o["id"] == v["a"])["rtypes"][v["b"] - 1])
            else:
                pid = instantiate(pc["op"], env, None)
                res = pc["res"]
                if perturb == "wrong_result_index":
                    prod = next(o for o in ops if o["id"] == pid)
                    alt = [k + 1 for k in range(len(prod["rtypes"])) if k + 1 != res]
                    if alt:
                        res = rng.choice(alt)
                if perturb == "other_producer" and j > 0:
                    env2 = {k: x for k, x in env.items() if k[0] not in ("op", "v")}
                    pid = instantiate(pc["op"], env2, None)
                v = {"k": "res", "a": pid, "b": res}
            env[("v", pc["x"])] = v
            operands.append(v)
        if perturb == "extra_operand" and values():
            operands.append(rng.choice(values()))
        attrs = []
        for a in oc["attrs"]:
            if perturb == "missing_attr":
                continue
            tok = a["x"] if a["kind"] == "const" else env.setdefault(("a", a["x"]), rng.randint(1, len(ATTRV)))
            if perturb == "other_attr":
                tok = tok % len(ATTRV) + 1
            attrs.append({"n": a["n"], "v": tok})
        for n in ATTRN:
            if not any(a["n"] == n for a in attrs) and rng.random() < 0.2:
                attrs.append({"n": n, "v": rng.randint(1, len(ATTRV))})
        rtypes = []
        for t in oc["rtypes"]:
            tok = t["x"] if t["kind"] == "const" else env.setdefault(("t", t["x"]), rng.randint(1, len(TYPES)))
            if perturb == "other_type":
                tok = tok % len(TYPES) + 1
            rtypes.append(tok)
        if perturb == "extra_result":
            rtypes.append(rng.randint(1, len(TYPES)))
        name = oc["name"] or rng.choice(NAMES)
        if perturb == "other_name":
            name = rng.choice([n for n in NAMES if n != name])
        oid = add(name, operands, attrs, rtypes)
        env[("op", c)] = oid
        return oid

    for _ in range(rng.randint(0, 2)):
        noise()
    for _ in range(rng.choice([1, 1, 2, 3])):
        perturb = rng.choice([None, None, None, "wrong_result_index", "other_producer", "extra_operand", "missing_attr", "other_attr", "other_type",
                              "extra_result", "other_name"])
        try:
            instantiate(pat["root"], {}, perturb)
        except (IndexError, StopIteration):
            pass
        if rng.random() < 0.5:
            noise()
    # users keep results alive (and are rewritten when a root is replaced)
    vs = values()
    add("test.termop", [rng.choice(vs) for _ in range(min(len(vs), rng.choice([1, 2, 3])))], [], [])
    return {"ops": ops, "argtypes": argtypes}


def payload_text(P: dict[str, Any]) -> str:
    def vname(v):
        return f"%arg{v['a']}" if v["k"] == "arg" else f"%v{v['a']}_{v['b']}"

    def vtype(v):
        return tt(P["argtypes"][v["a"] - 1]) if v["k"] == "arg" else tt(next(o for o in P["ops"] if o["id"] == v["a"])["rtypes"][v["b"] - 1])

    lines = []
    for o in P["ops"]:
        res = ", ".join(f"%v{o['id']}_{k + 1}" for k in range(len(o["rtypes"])))
        attrs = ", ".join(f"{a['n']}" if at(a["v"]) == "unit" else f"{a['n']} = {at(a['v'])}" for a in o["attrs"])
        lines.append("    " + (res + " = " if res else "") + f'"{o["name"]}"({", ".join(vname(v) for v in o["operands"])})'
                     + (" {" + attrs + "}" if attrs else "") + f' : ({", ".join(vtype(v) for v in o["operands"])}) -> ({", ".join(tt(t) for t in o["rtypes"])})')
    args = ", ".join(f"%arg{i + 1}: {tt(t)}" for i, t in enumerate(P["argtypes"]))
    # the wrapper has three results so that no generated root constraint (<= 2 results) matches it
    return '%w1, %w2, %w3 = "test.op"() ({\n  ^bb0(' + args + "):\n" + "\n".join(lines) + "\n}) : () -> (i1, i1, i1)\n"


def canon_real(module) -> list[dict[str, Any]]:
    """PDLMatch!Canon of the real payload after rewriting."""
    from xdsl.dialects.builtin import ArrayAttr, IndexType, IntegerAttr, IntegerType, StringAttr, UnitAttr
    from xdsl.ir import BlockArgument

    wrapper = module.body.block.first_op
    block = wrapper.regions[0].blocks[0]
    ops = list(block.ops)
    pos = {id(o): k + 1 for k, o in enumerate(ops)}

    def ttok(t) -> int:
        if isinstance(t, IntegerType):
            return {32: 1, 64: 2}.get(t.width.data, 90)
        return 3 if isinstance(t, IndexType) else 91

    def atok(a) -> int:
        if isinstance(a, IntegerAttr):
            return a.value.data + 1 if 0 <= a.value.data <= 2 and ttok(a.type) == 1 else 92
        if isinstance(a, UnitAttr):
            return 4
        if isinstance(a, ArrayAttr):
            return 5 if len(a.data) == 0 else 93
        if isinstance(a, StringAttr):
            return 6 if a.data == "s" else 94
        return 95

    out = []
    for o in ops:
        operands = []
        for v in o.operands:
            if isinstance(v, BlockArgument) and v.block is block:
                operands.append({"k": "arg", "a": v.index + 1, "b": 0})
            elif not isinstance(v, BlockArgument) and id(v.op) in pos:
                operands.append({"k": "res", "a": pos[id(v.op)], "b": v.index + 1})
            else:
                operands.append({"k": "detached", "a": 0, "b": 0})
        allattrs = dict(o.attributes) | dict(o.properties)
        out.append({"name": o.name, "attrs": [{"n": n, "v": atok(allattrs[n])} for n in sorted(allattrs)], "rtypes": [ttok(r.type) for r in o.results],
                    "operands": operands})
    return out


def full_ctx():
    from xdsl.context import Context
    from xdsl.dialects import get_all_dialects

    c = Context()
    for n, f in get_all_dialects().items():
        c.register_dialect(n, f)
    return c


def run_paths(ptext: str, ytext: str, tmp: Path, k: int):
    """-> (direct result | ("raised", msg), interp result | ("raised", msg))"""
    import contextlib
    import io

    from xdsl.parser import Parser
    from xdsl.transforms.apply_pdl import ApplyPDLPass
    from xdsl.transforms.apply_pdl_interp import ApplyPDLInterpPass
    from xdsl.transforms.convert_pdl_to_pdl_interp.conversion import ConvertPDLToPDLInterpPass

    pf = tmp / f"p{k}.mlir"
    pf.write_text(ptext)
    out = []
    for path in ("direct", "interp"):
        try:
            with time_limit(30.0), contextlib.redirect_stdout(io.StringIO()):
                c = full_ctx()
                m = Parser(c, ytext).parse_module()
                m.verify()
                if path == "direct":
                    ApplyPDLPass(pdl_file=str(pf)).apply(c, m)
                else:
                    pm = Parser(full_ctx(), ptext).parse_module()
                    pm.verify()
                    ConvertPDLToPDLInterpPass().apply(full_ctx(), pm)
                    pif = tmp / f"pi{k}.mlir"
                    pif.write_text(str(pm))
                    ApplyPDLInterpPass(pdl_interp_file=str(pif)).apply(c, m)
                out.append(canon_real(m))
        except Hang:
            out.append(("hang", "did not return within 30 s"))
        except BaseException as e:  # noqa: BLE001
            if isinstance(e, (KeyboardInterrupt, SystemExit, MemoryError)):
                raise
            out.append(("raised", f"{type(e).__name__}: {str(e)[:160]}"))
    return out[0], out[1]


def run(ctx: Ctx):
    ctx.level = "exploration"
    q = ctx.quick
    n = 260 if q else 6000
    cases: list[dict[str, Any]] = []
    metas: list[dict[str, Any]] = []
    stats = {"pattern_rejected": 0, "both_raise": 0, "one_raises": 0, "hang": 0}
    with tempfile.TemporaryDirectory(prefix="verif-c27-") as tmpd:
        tmp = Path(tmpd)
        for k in range(n):
            rng = ctx.rng(f"case{k}")
            names = NAMES + sorted(REMOVABLE) if rng.random() < 0.12 else NAMES     # trivially dead ops only in a minority of cases
            pat = gen_pattern(rng, names)
            hoist = rng.random() < 0.1
            ptext = pattern_text(pat, hoist)
            try:
                from xdsl.parser import Parser

                Parser(full_ctx(), ptext).parse_module().verify()
            except Exception as e:  # noqa: BLE001
                stats["pattern_rejected"] += 1
                ctx.diverge("generated pattern rejected by the pdl dialect", error=f"{type(e).__name__}: {str(e)[:120]}", pattern=ptext)
                continue
            for _ in range(2 if q else 3):
                P = gen_payload(rng, pat, names)
                ytext = payload_text(P)
                d, i = run_paths(ptext, ytext, tmp, k)
                occ: dict[int, list[str]] = {}
                for o in pat["ops"]:
                    for pc in o["operands"]:
                        occ.setdefault(pc["x"], []).append(pc["kind"])
                meta = {"pattern": ptext, "payload": ytext, "rewrite": pat["rewrite"]["kind"],
                        "result_value_used_twice": any(len(v) > 1 and "def" in v for v in occ.values()),
                        "rewrite_uses_pattern_level_constant": hoist and pat["rewrite"]["kind"] == "newop"
                        and any(c["kind"] == "const" for c in pat["rewrite"]["new"]["attrs"] + pat["rewrite"]["new"]["rtypes"]),
                        "payload_has_removable_op": any(o["name"] in REMOVABLE for o in P["ops"]) or pat["rewrite"]["new"]["name"] in REMOVABLE}
                dr, ir = isinstance(d, tuple), isinstance(i, tuple)
                if (dr and d[0] == "hang") or (ir and i[0] == "hang"):
                    stats["hang"] += 1
                    ctx.diverge("a path did not return within 30 s", **meta)
                    continue
                if dr and ir:
                    stats["both_raise"] += 1
                    ctx.cov_add("both_paths_raise:" + d[1].split(":")[0], 1)
                    continue
                if dr or ir:
                    stats["one_raises"] += 1
                    who = "interpreted (apply-pdl)" if dr else "compiled (apply-pdl-interp)"
                    err = d[1] if dr else i[1]
                    ctx.violate(f"only the {who} path fails: {err}\n{ptext}\n{ytext}",
                                dict(meta, clause="BothPathsComplete", failing_path="direct" if dr else "interp", error_type=err.split(":")[0],
                                     error=err), clause="BothPathsComplete")
                    continue
                cases.append({"pat": pat, "payload": P, "direct": d, "interp": i})
                metas.append(meta)
        ctx.log(f"{len(cases)} (pattern, payload) pairs applied by both paths; {stats}")
        # TLC: sharded, one worker each
        shards = 16 if len(cases) >= 64 else 1
        bounds = [(len(cases) * j // shards, len(cases) * (j + 1) // shards) for j in range(shards)]
        files = []
        for j, (a, b) in enumerate(bounds):
            f = tmp / f"cases{j}.json"
            f.write_text(json.dumps(cases[a:b]))
            files.append(f)
        with ThreadPoolExecutor(max_workers=shards) as ex:
            outs = list(ex.map(lambda j: tlc.run("pdl/PDLCases.tla", workers=1, env={"CASE_FILE": str(files[j])}, timeout=3000, xmx="3g"), range(shards)))
    mism: set[int] = set()
    term: dict[int, list[tuple[bool, bool]]] = {}
    fuel: set[int] = set()
    nmatch: dict[int, int] = {}
    states = 0
    for j, r in enumerate(outs):
        if r.violated:
            raise tlc.TLCMachineryError(f"PDLCases: {r.violated}")
        a = bounds[j][0]
        states += r.distinct
        for rec in r.records:
            if rec[1] == "mismatch":
                mism.add(a + rec[2] - 1)
            elif rec[1] == "terminal":
                term.setdefault(a + rec[2] - 1, []).append((bool(rec[3]), bool(rec[4])))
            elif rec[1] == "fuel":
                fuel.add(a + rec[2] - 1)
            elif rec[1] == "start":
                nmatch[a + rec[2] - 1] = rec[3]
    if len(nmatch) != len(cases):
        raise tlc.TLCMachineryError(f"PDLCases judged {len(nmatch)} of {len(cases)} cases")
    model_disagrees = 0
    for idx, m in enumerate(metas):
        ts = term.get(idx, [])
        d_ok, i_ok = any(t[0] for t in ts), any(t[1] for t in ts)
        if idx in mism:
            who = ("the interpreted path deviates from the PDL model" if i_ok and not d_ok else "the compiled path deviates from the PDL model" if d_ok and not i_ok
                   else "neither result is a fixpoint of the PDL model" if not (d_ok or i_ok) else "both are fixpoints (order-dependent pattern)")
            if idx in fuel and not (d_ok or i_ok):
                who = "model exploration ran out of fuel"
            ctx.violate(f"interpreted and compiled PDL disagree ({who})\n{m['pattern']}\n{m['payload']}\n--- apply-pdl\n{json.dumps(cases[idx]['direct'])}\n--- apply-pdl-interp\n{json.dumps(cases[idx]['interp'])}",
                        dict(m, clause="InterpretedAndCompiledAgree", diagnosis=who,
                             direct_is_model_fixpoint=d_ok, interp_is_model_fixpoint=i_ok), clause="InterpretedAndCompiledAgree")
        elif not (d_ok or i_ok) and idx not in fuel:
            model_disagrees += 1
            ctx.diverge("both implementations agree with each other but not with any fixpoint of PDLMatch.tla", pattern=m["pattern"], payload=m["payload"])
    ctx.coverage.update({"evaluations": len(cases), "distinct_nontrivial": sum(1 for v in nmatch.values() if v > 0), "pairs_with_a_match_in_the_model": sum(1 for v in nmatch.values() if v > 0),
                         "pairs_without_match": sum(1 for v in nmatch.values() if v == 0), "model_states": states, "model_fuel_exhausted": len(fuel),
                         "agree_with_each_other_but_not_with_model": model_disagrees, "outcomes": stats,
                         "rule": "generated single-root PDL patterns (<=2 levels of result-of producers incl. diamonds, shared value/attribute/type variables, constant attributes "
                                 "incl. falsy values, typed operands; rewrite erase / replace-with-operand / replace-with-new-op) x 2-3 generated payloads built from instantiations of the "
                                 "pattern with one perturbation (wrong result index, other producer, extra operand/result, missing/other attribute, other type/name) plus noise ops; "
                                 "distinct = pairs where the model finds at least one match"})
    if metas:
        ctx.sample({"pattern": metas[0]["pattern"], "payload": metas[0]["payload"]})
    ctx.assumptions += ["PDLMatch.tla is the meaning of PDL (MLIR semantics); the property's verdict needs only the equality of the two real results, the model supplies diagnosis and match coverage",
                        "payload ops are test-dialect ops inside one block; attributes/types are compared as tokens of a small alphabet",
                        "a path that raises while the other completes is a violation (BothPathsComplete); both raising is reported failure"]
