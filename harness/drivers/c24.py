"""C24: dominance and post-order traversal match their graph definitions.

Model: spec/cfg/CFG.tla (Reach, Dom as 'unreachable once a is removed', cross-checked against
literal simple-path enumeration), spec/cfg/DomAlgo.tla (the two algorithms as state machines
started from EVERY small graph).  Binding: every graph is built as a real region, the real
DominanceInfo / PostOrderIterator results are written out and judged by TLC (CFGCases.tla)."""

from __future__ import annotations

import itertools
from typing import Any

from .. import casecheck, tlc
from ..core import Ctx


def build_region(succ: list[list[int]]):
    from xdsl.dialects import test
    from xdsl.ir import Block, Region

    blocks = [Block() for _ in succ]
    for b, ss in zip(blocks, succ):
        b.add_op(test.TestTermOp(successors=[blocks[s - 1] for s in ss]))
    return Region(blocks), blocks


def run_impl(succ: list[list[int]]) -> dict[str, Any]:
    from xdsl.ir.post_order import PostOrderIterator
    from xdsl.irdl.dominance import DominanceInfo

    region, blocks = build_region(succ)
    idx = {id(b): i + 1 for i, b in enumerate(blocks)}
    di = DominanceInfo(region)
    n = len(blocks)
    dom = [[a + 1, b + 1] for a in range(n) for b in range(n) if di.dominates(blocks[a], blocks[b])]
    sdom = [[a + 1, b + 1] for a in range(n) for b in range(n) if di.strictly_dominates(blocks[a], blocks[b])]
    po = []
    for b in PostOrderIterator(blocks[0]):
        po.append(idx.get(id(b), 0))
        if len(po) > 4 * n + 4:
            break
    return {"g": succ, "dom": dom, "sdom": sdom, "po": po}


def all_graphs(n: int, maxout: int):
    seqs = [list(t) for k in range(maxout + 1) for t in itertools.product(range(1, n + 1), repeat=k)]
    for combo in itertools.product(seqs, repeat=n):
        yield [list(s) for s in combo]


def canon_key(succ: list[list[int]]) -> str:
    return ";".join(",".join(map(str, s)) for s in succ)


MC_CFG = """SPECIFICATION Spec
CONSTANTS
  N = {n}
  MaxOut = 2
  Fixed = TRUE
INVARIANT DomCorrect
INVARIANT POCorrect
INVARIANT DefsAgree
CONSTRAINT Sequential
"""


def run(ctx: Ctx):
    ctx.level = "model_checking"
    q = ctx.quick
    # 1. the design: both algorithms, as transcribed, from every graph with N blocks
    for n in ([3] if q else [3, 4]):
        r = tlc.run("cfg/DomAlgo.tla", cfg_text=MC_CFG.format(n=n), coverage=True, timeout=3000)
        if r.violated:
            raise tlc.TLCMachineryError(f"DomAlgo (transcription of the current code) violates {r.violated}:\n"
                                        + "\n".join(r.out.splitlines()[-40:]))
        never = [a for a, (d, t) in r.coverage.items() if t == 0]
        if never:
            raise tlc.TLCMachineryError(f"vacuity: {never} never taken")
        ctx.cov_add("states", r.distinct)
        ctx.cov_add("transitions", r.generated)
        ctx.coverage.setdefault("models", {})[f"DomAlgo N={n}"] = {"distinct": r.distinct, "generated": r.generated,
                                                                  "actions": {a: t for a, (d, t) in r.coverage.items()}}
        ctx.log(f"DomAlgo N={n}: {r.distinct} distinct states, ok")
    # 2. conformance: implementation results on graphs, judged by TLC
    rng = ctx.rng("graphs")
    cases: list[dict[str, Any]] = []
    for n in (1, 2, 3):
        for g in all_graphs(n, 2):
            cases.append(run_impl(g))
    n_exh = len(cases)
    g4 = list(all_graphs(4, 2)) if not q else None
    if g4 is None:
        # quick: a seeded slice of N=4 (about 6 %) ...
        seqs = [list(t) for k in range(3) for t in itertools.product(range(1, 5), repeat=k)]
        for _ in range(12000):
            cases.append(run_impl([list(rng.choice(seqs)) for _ in range(4)]))
    else:
        for g in g4:
            cases.append(run_impl(g))
    # ... and random larger graphs, out-degree up to 3, up to 9 blocks
    for _ in range(1500 if q else 20000):
        n = rng.randint(5, 9)
        g = [[rng.randint(1, n) for _ in range(rng.choice([0, 1, 1, 2, 2, 2, 3]))] for _ in range(n)]
        cases.append(run_impl(g))
    ctx.log(f"{len(cases)} graphs run through the real DominanceInfo/PostOrderIterator")
    res = casecheck.run_cases("cfg/CFGCases.tla", cases)
    seen: set[tuple[str, str]] = set()
    for idx, tail in res.mismatches:
        c = cases[idx]
        clause = tail[0]
        key = canon_key(c["g"])
        ctx.violate(f"graph {c['g']}: {clause} fails (dom={c['dom']}, po={c['po']})",
                    {"graph": key, "clause": clause, "n": len(c["g"]), "case": c}, clause=clause)
    ctx.cov_add("traces_validated_against_impl", len(cases))
    ctx.coverage["graphs_exhaustive_N_le_3"] = n_exh
    ctx.coverage["graphs_N4"] = len(g4) if g4 is not None else 12000
    ctx.coverage["exhaustive"] = g4 is not None
    ctx.coverage["judge_states"] = res.states
    distinct = len({canon_key(c["g"]) for c in cases})
    ctx.coverage["evaluations"] = len(cases)
    ctx.coverage["distinct_nontrivial"] = distinct
    ctx.coverage["rule"] = ("all graphs with <=3 blocks (<=4 in thorough) and out-degree <=2 incl. multi-edges/self-loops/unreachable blocks, "
                            "plus seeded random graphs with 4..9 blocks; distinct = distinct successor tables")
    ctx.sample(cases[len(cases) // 2])
    ctx.sample(cases[-1])
    ctx.assumptions += ["CFG.tla's Dom (b unreachable once a is removed) is the path definition: TLC checks it against simple-path enumeration on every graph of the MC instance (invariant DefsAgree)",
                        "blocks are terminated by test.termop; successor lists are taken from the terminator"]
