"""C04: the generic textual form round-trips every valid IR.

Model: spec/misc/Naming.tla - the printer's name allocation (hint setter strips one _N suffix; k-th reuse of a
hint prints hint_k) explored by TLC over every assignment of raw hints from a small alphabet: two values must
never print the same name (Injective).  spec/ir/IRIso.tla gives the equivalence the re-parsed IR must satisfy.
Binding: (1) every hint assignment of the model's alphabet (and block-name hints) is applied to real IR, printed
generically, parsed in a fresh context and TLC judges original ~ re-parsed on the joint projection; printed names
are read back from the printer and must be injective per scope; printing twice / printing the clone / re-printing
the parse must give identical text; (2) generated trees with random hints; (3) every parseable chunk of the
repository's .mlir corpus."""

from __future__ import annotations

import io
import itertools
from typing import Any

from .. import casecheck, tlc
from ..core import Ctx, Hang, time_limit

RAW_HINTS = [None, "a", "a_1", "a_1_2", "a_2", "b", "a_1_1"]
BLOCK_HINTS = [None, "bb1", "bb0", "x", "x_1", "bb1_1"]


def print_generic(op) -> tuple[str, Any]:
    from xdsl.printer import Printer

    buf = io.StringIO()
    p = Printer(stream=buf, print_generic_format=True)
    p.print_op(op)
    return buf.getvalue(), p


def fresh_ctx():
    from xdsl.context import Context
    from xdsl.dialects import get_all_dialects

    ctx = Context(allow_unregistered=True)
    for name, factory in get_all_dialects().items():
        ctx.register_dialect(name, factory)
    return ctx


def roundtrip_case(ctx: Ctx, module, meta: dict[str, Any], cases, metas):
    """print -> parse -> joint projection; text idempotence flags are judged by TLC as part of the case."""
    from xdsl.parser import Parser
    from xdsl.utils.exceptions import ParseError

    from ..project import Universe

    import re as _re

    bh = [b.name_hint for o in module.walk() for r in o.regions for b in r.blocks if b.name_hint]
    meta = dict(meta, has_block_hints=bool(bh), default_like_block_hint=any(_re.fullmatch(r"bb\d+", h) for h in bh))
    text, printer = print_generic(module)
    text2, _ = print_generic(module)
    try:
        text_clone, _ = print_generic(module.clone())
    except Exception as e:  # noqa: BLE001   cloning is C02's subject; here it only means the clone's text cannot be compared
        ctx.diverge("clone() of a verified module raised", error=f"{type(e).__name__}: {str(e)[:120]}", **{k: v for k, v in meta.items() if k in ("source", "file")})
        text_clone = text
    flags = {"twice": int(text == text2), "clone": int(text == text_clone)}
    # printed names per value: injective inside the module (isolated-from-above scopes only shrink the set)
    names = list(printer._ssa_values.values())  # pyright: ignore
    try:
        with time_limit(20.0):
            parsed = Parser(fresh_ctx(), text).parse_module()
    except Hang:
        ctx.diverge("parser did not return within 20 s", **meta)
        return
    except (ParseError, Exception) as e:  # noqa: BLE001
        cases.append({"c": None, "pairs": [], "parse_failed": 1})
        metas.append(dict(meta, text=text, error=f"{type(e).__name__}: {str(e)[:200]}", flags=flags))
        return
    text3, _ = print_generic(parsed)
    inherent_in_dict = any(set(Universe._normal_dicts(o)[0]) != set(o.attributes) for o in module.walk())
    if inherent_in_dict:
        # the property identifies an inherent attribute in the attribute dictionary with the property it denotes; the
        # generic parser moves it, so the text is compared one round later (text of the parsed IR must be a fixed point)
        ctx.cov_add("inherent_attribute_in_dictionary_modules", 1)
        try:
            text, text3 = text3, print_generic(Parser(fresh_ctx(), text3).parse_module())[0]
        except Exception as e:  # noqa: BLE001
            text3 = f"<re-parse of the re-printed text failed: {type(e).__name__}>"
    flags["reprint"] = int(text3 == text)
    if text3 != text:
        meta["first_diff"] = next(((a, b) for a, b in zip(text.splitlines(), text3.splitlines()) if a != b), ("<length>", "<length>"))
    u = Universe()
    u.register_tree(module)
    u.register_tree(parsed)
    cases.append({"c": u.project(extras=True, normalize=True), "pairs": [{"kind": "must", "ra": ["op", u.op(module)], "rb": ["op", u.op(parsed)]}], "parse_failed": 0})
    metas.append(dict(meta, text=text, flags=flags))


def hint_module(vhints, bhints):
    """A module with a two-block region: values defined in both blocks and a nested isolated op."""
    from xdsl.dialects import test
    from xdsl.dialects.builtin import ModuleOp, i32
    from xdsl.ir import Block, Region

    b0 = Block(arg_types=[i32])
    o1 = test.TestOp.create(operands=[b0.args[0]], result_types=[i32])
    o2 = test.TestOp.create(operands=[o1.results[0], b0.args[0]], result_types=[i32])
    b1 = Block(arg_types=[i32])
    o3 = test.TestOp.create(operands=[b1.args[0], o2.results[0]], result_types=[i32])
    t0 = test.TestTermOp.create(operands=[o2.results[0]], successors=[b1])
    t1 = test.TestTermOp.create(operands=[o3.results[0]])
    b0.add_ops([o1, o2, t0])
    b1.add_ops([o3, t1])
    vals = [b0.args[0], o1.results[0], o2.results[0], o3.results[0]]
    for v, h in zip(vals, vhints):
        if h is not None:
            v.name_hint = h
    for b, h in zip((b0, b1), bhints):
        if h is not None:
            b.name_hint = h
    holder = test.TestOp.create(regions=[Region([b0, b1])])
    return ModuleOp([holder])


def literal_modules(rng, n_ops: int = 12):
    """Modules whose ops carry attribute literals at the edges of their printed encodings: floats that need many digits / the
    hexadecimal fallback / inf / nan / -0.0 for every float type, integers at the type bounds, dense elements, strings with escapes."""
    from xdsl.dialects import test
    from xdsl.dialects.builtin import (ArrayAttr, BFloat16Type, DenseIntOrFPElementsAttr, DictionaryAttr, Float16Type, Float32Type, Float64Type, FloatAttr,
                                       IndexType, IntegerAttr, IntegerType, ModuleOp, StringAttr, SymbolRefAttr, TensorType, UnitAttr)

    floats = [0.0, -0.0, 1.0, -1.5, 0.1, 1 / 3, 1234567.0, 123456789.0, 16777217.0, 9007199254740992.0, 9007199254740993.0, 1e22, 1e-7, 65504.0,
              3.4028234663852886e38, 1.7976931348623157e308, 5e-324, float("inf"), float("-inf"), float("nan"), 299792512.0, -2147483648.0]
    attrs = []
    for ty in (Float16Type(), BFloat16Type(), Float32Type(), Float64Type()):
        for v in floats:
            try:
                attrs.append(FloatAttr(v, ty))
            except Exception:  # noqa: BLE001  (value not representable in the type)
                pass
        for vs in ([1234567.0, 0.5], [float("nan"), 1.0], [123456789.0, 123456789.0, 123456789.0], [2.0 ** 53]):
            try:
                attrs.append(DenseIntOrFPElementsAttr.from_list(TensorType(ty, [len(vs)]), vs))
            except Exception:  # noqa: BLE001
                pass
    for w in (1, 8, 16, 32, 64, 128):
        t = IntegerType(w)
        for v in (0, 1, -1, (1 << (w - 1)) - 1, -(1 << (w - 1))):
            try:
                attrs.append(IntegerAttr(v, t))
            except Exception:  # noqa: BLE001
                pass
    attrs += [IntegerAttr(v, IndexType()) for v in (0, -1, 2 ** 63 - 1, -(2 ** 63))]
    for w, vs in ((8, [0, -1, 127, -128]), (32, [2147483647, -2147483648]), (64, [2 ** 63 - 1, -(2 ** 63), 0])):
        attrs.append(DenseIntOrFPElementsAttr.from_list(TensorType(IntegerType(w), [len(vs)]), vs))
    attrs += [StringAttr(x) for x in ("", "a", "a\"b", "back\\slash", "line\nbreak\ttab", "é∑ unicode", "nul\x00byte", "%not a value", "^bb0", "#attr<x>")]
    attrs += [UnitAttr(), ArrayAttr([]), ArrayAttr([UnitAttr(), StringAttr("x")]), DictionaryAttr({"k": IntegerAttr(1, IntegerType(32)), "k.2": StringAttr("v")}),
              SymbolRefAttr("a", ["b", "c"])]
    mods = []
    rng.shuffle(attrs)
    for k in range(0, len(attrs), n_ops):
        ops = [test.TestOp.create(attributes={"v": a, "second": attrs[(k + j * 7 + 3) % len(attrs)]}) for j, a in enumerate(attrs[k:k + n_ops])]
        mods.append(ModuleOp(ops))
    # names at the edge of "bare identifier or quoted string": attribute / property dictionary keys and symbol names
    names = ["a", "a.b", "a$", "_x", "with space", "trail_newline\n", "trail2\n\n", "\nlead", "mid\nnl", "tab\t", "quote\"q", "back\\s", "1digit", "", "é", "a-b", "@at",
             "%p", "x\r", "x\x00", "a b\n"]
    for k in range(0, len(names), 5):
        grp = names[k:k + 5]
        ops = []
        for nm in grp:
            if nm:
                ops.append(test.TestOp.create(attributes={nm: UnitAttr(), "d": DictionaryAttr({nm: UnitAttr(), "z": StringAttr(nm)})},
                                              properties={nm: IntegerAttr(1, IntegerType(32))}))
            ops.append(test.TestOp.create(attributes={"s": SymbolRefAttr(nm or "e", [nm or "e", "n"])}))
        mods.append(ModuleOp(ops))
    return mods, len(attrs) + len(names)


def run(ctx: Ctx):
    ctx.level = "exploration"
    q = ctx.quick
    # 1. the design of name allocation
    for n, dedup in ((3, "TRUE"), (4, "TRUE")) if not q else ((3, "TRUE"),):
        r = tlc.run("misc/Naming.tla", cfg_text=f"SPECIFICATION Spec\nCONSTANTS\n  NVals = {n}\n  Deduplicate = {dedup}\nINVARIANT Injective\n", timeout=600)
        if r.violated:
            raise tlc.TLCMachineryError(f"Naming.tla (transcription of the current printer) violates {r.violated}")
        ctx.cov_add("naming_model_states", r.distinct)
    cases: list[dict[str, Any]] = []
    metas: list[dict[str, Any]] = []
    # 2. S2C: the model's hint alphabet on real IR
    rng = ctx.rng("hints")
    combos = list(itertools.product(RAW_HINTS, repeat=4))
    if q:
        combos = rng.sample(combos, 500)
    for vh in combos:
        roundtrip_case(ctx, hint_module(vh, (None, None)), {"source": "hint alphabet", "value_hints": list(vh)}, cases, metas)
    for bh in itertools.product(BLOCK_HINTS, repeat=2):
        roundtrip_case(ctx, hint_module((None, "a", None, "a"), bh), {"source": "block hint alphabet", "block_hints": list(bh)}, cases, metas)
    n_alpha = len(cases)
    # 3. generated trees with random hints
    from xdsl.dialects.builtin import ModuleOp

    from .. import irgen

    for k in range(60 if q else 1500):
        grng = ctx.rng(f"tree{k}")
        op = irgen.gen_op(grng, [], depth=grng.choice([0, 1, 2]), forward_refs=grng.random() < 0.5)
        for o in op.walk():
            for v in list(o.results) + [a for r in o.regions for b in r.blocks for a in b.args]:
                if grng.random() < 0.5:
                    v.name_hint = grng.choice(["a", "a_1", "b", "c_2", "a_1_2", "x.y", "_q", "a-b", "A", "a$"])
            for r in o.regions:
                for b in r.blocks:
                    if grng.random() < 0.3:
                        b.name_hint = grng.choice(["bb1", "bb0", "entry", "x_1", "bb2_1"])
        roundtrip_case(ctx, ModuleOp([op]), {"source": "generated tree", "tree": k}, cases, metas)
    n_gen = len(cases) - n_alpha
    # 3b. attribute literals at the edges of their encodings
    lmods, n_lit = literal_modules(ctx.rng("literals"))
    for k, lm in enumerate(lmods):
        roundtrip_case(ctx, lm, {"source": "literal alphabet", "file": f"literals#{k}"}, cases, metas)
    n_gen = len(cases) - n_alpha
    ctx.coverage["attribute_literals"] = n_lit
    # 4. the corpus
    from .c01_c2s import corpus_modules

    for name, module, _x in corpus_modules(ctx.rng("corpus"), 150 if q else 4000, max_ops=80):
        roundtrip_case(ctx, module, {"source": "corpus", "file": name}, cases, metas)
    n_corpus = len(cases) - n_alpha - n_gen
    # 5. pass outputs: corpus chunks after the pipeline of their own RUN line (the IR a pass leaves is printed too)
    import contextlib

    from . import c17

    prng = ctx.rng("pass-outputs")
    idx = [(n, c, p) for (n, c, p) in c17.corpus_index(ctx.rng("corpus-index"), None) if p and len(c) < 8000]
    prng.shuffle(idx)
    from xdsl.transforms import get_all_passes

    allp = get_all_passes()
    n_out = 0
    for name, chunk, pipes in idx:
        if n_out >= (120 if q else 3000):
            break
        specs = [sp for sp in c17.parse_specs(prng.choice(pipes)) if sp.name in allp]
        if not specs:
            continue
        m = c17.parse_input(chunk)
        if m is None:
            continue
        try:
            with time_limit(30.0), contextlib.redirect_stdout(io.StringIO()), contextlib.redirect_stderr(io.StringIO()):
                xc = c17.all_ctx()
                for sp in specs:
                    allp[sp.name]().from_pass_spec(sp).apply(xc, m)
                m.verify()
        except BaseException as e:  # noqa: BLE001   (a failing / invalid pass output is C17's business)
            if isinstance(e, (KeyboardInterrupt, SystemExit)):
                raise
            continue
        if sum(1 for _ in m.walk()) > 120:
            continue
        n_out += 1
        roundtrip_case(ctx, m, {"source": "pass output", "file": name + " after " + ",".join(sp.name for sp in specs)}, cases, metas)
    ctx.log(f"{n_alpha} hint-alphabet modules, {n_gen} generated, {n_corpus} corpus chunks, {n_out} pass outputs printed and re-parsed")
    judged = [c for c in cases if not c["parse_failed"]]
    idx_map = [i for i, c in enumerate(cases) if not c["parse_failed"]]
    res = casecheck.run_cases("ir/IRIsoCases.tla", [{"c": c["c"], "pairs": c["pairs"]} for c in judged], min_per_shard=10)

    def key_of(m):
        return {"source": m["source"], "value_hints": m.get("value_hints"), "block_hints": m.get("block_hints"), "file": m.get("file", ""),
                "has_block_hints": m.get("has_block_hints", False), "default_like_block_hint": m.get("default_like_block_hint", False),
                "uses_dialect_resource": "dense_resource<" in m.get("text", "")}

    for i, c in enumerate(cases):
        m = metas[i]
        if c["parse_failed"]:
            ctx.violate(f"[{m['source']}] printed generic form does not parse back: {m['error']}\n{m['text'][:600]}",
                        dict(key_of(m), clause="PrintedTextParses", error=m["error"], text=m["text"][:2000],
                             block_redeclared="re-declaration of block" in m["error"]), clause="PrintedTextParses")
            continue
        for flag, clause in (("twice", "PrintingTwiceGivesSameText"), ("clone", "CloneHasSameText"), ("reprint", "ReprintOfParseGivesSameText")):
            if not m["flags"].get(flag, 1):
                ctx.violate(f"[{m['source']}] {clause} {m.get('first_diff', '') if flag == 'reprint' else ''}\n{m['text'][:400]}",
                            dict(key_of(m), clause=clause, text=m["text"][:2000]), clause=clause)
    for idx, tail in res.mismatches:
        i = idx_map[idx]
        m = metas[i]
        ctx.violate(f"[{m['source']}] re-parsed IR is not equivalent to the printed IR: {tail[0]}\n{m['text'][:600]}",
                    dict(key_of(m), clause="RoundTripEquivalent:" + tail[0], text=m["text"][:2000]), clause="RoundTripEquivalent:" + tail[0])
    ctx.coverage.update({"evaluations": len(cases), "distinct_nontrivial": len({m["text"] for m in metas}), "hint_alphabet_modules": n_alpha, "generated": n_gen,
                         "corpus_chunks": n_corpus, "pass_outputs": n_out, "judge_states": res.states,
                         "rule": "all (quick: 500 sampled) assignments of 7 raw value hints to 4 values + all block-hint pairs on a 2-block region; generated trees with "
                                 "random hints (incl. $ . - characters); parseable corpus chunks <=80 ops; outputs of the corpus files' own RUN pipelines (<= 120 ops); distinct = distinct printed texts"})
    ctx.sample({"source": metas[0]["source"], "hints": metas[0].get("value_hints"), "text": metas[0]["text"][:300]})
    ctx.assumptions += ["attribute / property / type values are compared by Python == after re-parsing (interned tokens); literal fidelity itself is C06 (not applicable)",
                        "equivalence normalisation as the property states: an attribute-dictionary entry named like a declared property counts as that property; a property equal to its declared default counts as absent"]
