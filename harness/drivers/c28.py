"""C28: equality saturation preserves program results.

Model: spec/eqsat/EGraph.tla (e-graph as data; class values by least fixpoint; ClassSound; congruence) with the
design-level actions AddNode / Merge / Rebuild model-checked in EGraphMC.tla (plus a negative control: an unguarded
Merge must break Sound).  Binding: generated pure arith functions go through the REAL pipeline
eqsat-create-eclasses -> apply-eqsat-pdl-interp (sound PDL rules: commutativity, associativity, identities,
distributivity, x*2 = x+x; converted by the real convert-pdl-to-pdl-interp + convert-pdl-interp-to-eqsat-pdl-interp)
-> eqsat-add-costs -> eqsat-extract.  (1) C2S: the IR after each of the first three stages is projected to an e-graph
and TLC checks ClassSound and that the returned classes keep the source's value on every input (EGraphCases.tla);
(2) TV: source and extracted program are executed by TLC under Machine.tla on the same inputs (MachineCases.tla);
(3) without rules, create + add-costs + extract must give back an equivalent program (TV; structure compared too)."""

from __future__ import annotations

import tempfile
from pathlib import Path
from typing import Any

from .. import casecheck, serialize, tlc
from ..core import Ctx, Hang, time_limit
from . import progs, tv

PURE = ["addi", "subi", "muli", "andi", "ori", "xori"]


def rules_text(w: int) -> dict[str, str]:
    t = f"i{w}"

    def binary(op_a, x, y, op_b, x2, y2):
        return f"""pdl.pattern : benefit(1) {{
  %x = pdl.operand
  %y = pdl.operand
  %type = pdl.type
  %op = pdl.operation "arith.{op_a}" (%{x}, %{y} : !pdl.value, !pdl.value) -> (%type : !pdl.type)
  pdl.rewrite %op {{
    %n = pdl.operation "arith.{op_b}" (%{x2}, %{y2} : !pdl.value, !pdl.value) -> (%type : !pdl.type)
    pdl.replace %op with %n
  }}
}}
"""

    comm = "".join(binary(o, "x", "y", o, "y", "x") for o in ("addi", "muli", "andi", "ori", "xori"))

    def assoc(o):
        return f"""pdl.pattern : benefit(1) {{
  %x = pdl.operand
  %y = pdl.operand
  %z = pdl.operand
  %type = pdl.type
  %in = pdl.operation "arith.{o}" (%x, %y : !pdl.value, !pdl.value) -> (%type : !pdl.type)
  %inr = pdl.result 0 of %in
  %op = pdl.operation "arith.{o}" (%inr, %z : !pdl.value, !pdl.value) -> (%type : !pdl.type)
  pdl.rewrite %op {{
    %n1 = pdl.operation "arith.{o}" (%y, %z : !pdl.value, !pdl.value) -> (%type : !pdl.type)
    %n1r = pdl.result 0 of %n1
    %n2 = pdl.operation "arith.{o}" (%x, %n1r : !pdl.value, !pdl.value) -> (%type : !pdl.type)
    pdl.replace %op with %n2
  }}
}}
"""

    def ident(o, c):
        return f"""pdl.pattern : benefit(1) {{
  %x = pdl.operand
  %type = pdl.type
  %c = pdl.attribute = {c} : {t}
  %cop = pdl.operation "arith.constant" {{"value" = %c}} -> (%type : !pdl.type)
  %cr = pdl.result 0 of %cop
  %op = pdl.operation "arith.{o}" (%x, %cr : !pdl.value, !pdl.value) -> (%type : !pdl.type)
  pdl.rewrite %op {{
    pdl.replace %op with (%x : !pdl.value)
  }}
}}
"""

    distrib = f"""pdl.pattern : benefit(1) {{
  %a = pdl.operand
  %b = pdl.operand
  %c = pdl.operand
  %type = pdl.type
  %m1 = pdl.operation "arith.muli" (%a, %b : !pdl.value, !pdl.value) -> (%type : !pdl.type)
  %m1r = pdl.result 0 of %m1
  %m2 = pdl.operation "arith.muli" (%a, %c : !pdl.value, !pdl.value) -> (%type : !pdl.type)
  %m2r = pdl.result 0 of %m2
  %op = pdl.operation "arith.addi" (%m1r, %m2r : !pdl.value, !pdl.value) -> (%type : !pdl.type)
  pdl.rewrite %op {{
    %s = pdl.operation "arith.addi" (%b, %c : !pdl.value, !pdl.value) -> (%type : !pdl.type)
    %sr = pdl.result 0 of %s
    %n = pdl.operation "arith.muli" (%a, %sr : !pdl.value, !pdl.value) -> (%type : !pdl.type)
    pdl.replace %op with %n
  }}
}}
"""
    times2 = f"""pdl.pattern : benefit(1) {{
  %x = pdl.operand
  %type = pdl.type
  %c = pdl.attribute = 2 : {t}
  %cop = pdl.operation "arith.constant" {{"value" = %c}} -> (%type : !pdl.type)
  %cr = pdl.result 0 of %cop
  %op = pdl.operation "arith.muli" (%x, %cr : !pdl.value, !pdl.value) -> (%type : !pdl.type)
  pdl.rewrite %op {{
    %n = pdl.operation "arith.addi" (%x, %x : !pdl.value, !pdl.value) -> (%type : !pdl.type)
    pdl.replace %op with %n
  }}
}}
"""
    selfsub = f"""pdl.pattern : benefit(1) {{
  %x = pdl.operand
  %type = pdl.type : {t}
  %op = pdl.operation "arith.subi" (%x, %x : !pdl.value, !pdl.value) -> (%type : !pdl.type)
  pdl.rewrite %op {{
    %z = pdl.attribute = 0 : {t}
    %n = pdl.operation "arith.constant" {{"value" = %z}} -> (%type : !pdl.type)
    pdl.replace %op with %n
  }}
}}
"""
    idents = ident("muli", 1) + ident("addi", 0) + ident("ori", 0) + ident("xori", 0) + ident("subi", 0)
    return {"commutativity": comm, "identities": idents, "associativity": assoc("addi") + assoc("muli"),
            "comm+ident": comm + idents, "distributivity+comm": distrib + comm, "times2+selfsub": times2 + selfsub + ident("addi", 0),
            "all": comm + idents + assoc("addi") + distrib + times2 + selfsub}


def full_ctx():
    from xdsl.context import Context
    from xdsl.dialects import get_all_dialects

    c = Context()
    for n, f in get_all_dialects().items():
        c.register_dialect(n, f)
    return c


def convert_rules(text: str, path: Path) -> None:
    """PDL -> pdl_interp -> eqsat_pdl_interp with the real conversion passes; written as a file for the pass option."""
    from xdsl.parser import Parser
    from xdsl.transforms.convert_pdl_interp_to_eqsat_pdl_interp import ConvertPDLInterpToEqsatPDLInterpPass
    from xdsl.transforms.convert_pdl_to_pdl_interp.conversion import ConvertPDLToPDLInterpPass

    c = full_ctx()
    m = Parser(c, text).parse_module()
    ConvertPDLToPDLInterpPass().apply(c, m)
    ConvertPDLInterpToEqsatPDLInterpPass().apply(c, m)
    m.verify()
    path.write_text(str(m))


def gen_pure(rng, w: int) -> tuple[str, list[int], list[int]]:
    """A single-block pure function over i<w>, biased towards shapes the rules match."""
    t = f"i{w}"
    nargs = rng.randint(1, 3)
    vals = [f"%a{i}" for i in range(nargs)]
    lines = []
    consts: dict[int, str] = {}

    def const(c):
        if c not in consts:
            consts[c] = f"%c{len(consts)}"
            lines.append(f"  {consts[c]} = arith.constant {c} : {t}")
        return consts[c]

    n = 0
    for _ in range(rng.randint(2, 8)):
        shape = rng.random()
        name = f"%v{n}"
        n += 1
        if shape < 0.15:
            lines.append(f"  {name} = arith.{rng.choice(['muli', 'addi', 'ori', 'xori', 'subi'])} {rng.choice(vals)}, {const(rng.choice([0, 1]))} : {t}")
        elif shape < 0.25:
            lines.append(f"  {name} = arith.muli {rng.choice(vals)}, {const(2)} : {t}")
        elif shape < 0.33:
            x = rng.choice(vals)
            lines.append(f"  {name} = arith.{rng.choice(['subi', 'addi', 'xori'])} {x}, {x} : {t}")
        elif shape < 0.45 and len(vals) >= 3:
            a, b, c = rng.choice(vals), rng.choice(vals), rng.choice(vals)
            lines.append(f"  %m{n}a = arith.muli {a}, {b} : {t}")
            lines.append(f"  %m{n}b = arith.muli {a}, {c} : {t}")
            lines.append(f"  {name} = arith.addi %m{n}a, %m{n}b : {t}")
        elif shape < 0.52:
            lines.append(f"  {name} = arith.addi {rng.choice(vals)}, {const(rng.choice([3, -1, 7, 2]))} : {t}")
        else:
            lines.append(f"  {name} = arith.{rng.choice(PURE)} {rng.choice(vals)}, {rng.choice(vals)} : {t}")
        vals.append(name)
    nret = rng.choice([1, 1, 2])
    rets = [rng.choice(vals[nargs:]) for _ in range(nret)]
    sig = ", ".join(f"%a{i} : {t}" for i in range(nargs))
    text = (f"func.func @main({sig}) -> ({', '.join([t] * nret)}) {{\n" + "\n".join(lines)
            + f"\n  func.return {', '.join(rets)} : {', '.join([t] * nret)}\n}}\n")
    return text, [w] * nargs, [w] * nret


def project_egraph(module) -> dict[str, Any] | None:
    """The function body as an e-graph for EGraph.tla.  None if the body is not in e-graph form."""
    from xdsl.dialects import equivalence, func
    from xdsl.ir import BlockArgument, OpResult

    f = next(o for o in module.body.block.ops if isinstance(o, func.FuncOp))
    block = f.body.blocks[0]
    cls_id: dict[Any, int] = {}
    nodes: list[dict[str, Any]] = []
    consts: list[list[Any]] = []
    for op in block.ops:
        if isinstance(op, (equivalence.ClassOp, equivalence.ConstantClassOp)):
            cls_id[op.results[0]] = len(cls_id) + 1

    def class_of(v) -> int:
        """the class a value denotes: a class result, or an implicit singleton class for a bare value"""
        if v not in cls_id:
            cls_id[v] = len(cls_id) + 1
            add_member(v, cls_id[v])
        return cls_id[v]

    done: set[tuple[int, int]] = set()

    def add_member(v, c: int):
        if (id(v), c) in done:
            return
        done.add((id(v), c))
        if isinstance(v, BlockArgument):
            nodes.append({"o": {"op": "arg", "i": v.index + 1}, "kids": [], "cls": c})
            return
        assert isinstance(v, OpResult)
        o = v.op
        if isinstance(o, (equivalence.ClassOp, equivalence.ConstantClassOp)):
            raise serialize.Unsupported("class as member of a class")
        if o.name == "arith.constant":
            w = serialize.width_of(v.type)
            rec = {"op": o.name, "w": w, "sw": w, "p": 0, "k": serialize.limbs(o.value.value.data, w)}
        elif o.name in serialize.ARITH_BIN and len(o.results) == 1:
            w = serialize.width_of(v.type)
            rec = {"op": o.name, "w": w, "sw": w, "p": 0, "k": []}
        else:
            raise serialize.Unsupported(o.name)
        nodes.append({"o": rec, "kids": [class_of(x) for x in o.operands], "cls": c})

    for op in block.ops:
        if isinstance(op, (equivalence.ClassOp, equivalence.ConstantClassOp)):
            c = cls_id[op.results[0]]
            for v in op.operands:
                add_member(v, c)
            if isinstance(op, equivalence.ConstantClassOp):
                w = serialize.width_of(op.results[0].type)
                consts.append([c, serialize.limbs(op.value.value.data, w)])
    ret = block.last_op
    rets = [class_of(v) for v in ret.operands]
    # e-nodes that are not a member of any class (dead leftovers) are ignored
    return {"g": {"nodes": nodes, "nclasses": max(len(cls_id), 1)}, "rets": rets, "consts": consts}


def sort_defs_before_uses(module) -> str:
    """If the function body uses a value before its definition (not a program in an SSA region), report the first such
    operand and reorder the block (stable topological order) so that the results can still be compared."""
    from xdsl.dialects import func
    from xdsl.ir import OpResult

    f = next(o for o in module.body.block.ops if isinstance(o, func.FuncOp))
    block = f.body.blocks[0]
    ops = list(block.ops)
    pos = {id(o): k for k, o in enumerate(ops)}
    first = ""
    for k, o in enumerate(ops):
        for v in o.operands:
            if isinstance(v, OpResult) and v.op.parent is block and pos[id(v.op)] >= k and not first:
                first = f"{o.name} at position {k} uses the result of {v.op.name} at position {pos[id(v.op)]}"
    if not first:
        return ""
    placed: set[int] = set()
    order = []
    pending = list(ops)
    while pending:
        progress = False
        for o in list(pending):
            if all(not (isinstance(v, OpResult) and v.op.parent is block) or id(v.op) in placed for v in o.operands):
                order.append(o)
                placed.add(id(o))
                pending.remove(o)
                progress = True
                break
        if not progress:
            return first + " (cyclic)"
    term = order.pop(order.index(ops[-1]))
    for o in order + [term]:
        o.detach()
    block.add_ops(order + [term])
    return first


def run(ctx: Ctx):
    from xdsl.transforms.apply_eqsat_pdl_interp import ApplyEqsatPDLInterpPass
    from xdsl.transforms.eqsat_add_costs import EqsatAddCostsPass
    from xdsl.transforms.eqsat_create_eclasses import EqsatCreateEclassesPass
    from xdsl.transforms.eqsat_extract import EqsatExtractPass

    ctx.level = "translation_validation"
    q = ctx.quick
    # 0. the design: guarded rewrites keep every class sound; the unguarded variant must fail (the invariant is not vacuous)
    r = tlc.run("eqsat/EGraphMC.tla", cfg_text="SPECIFICATION Spec\nCONSTANTS\n  MaxNodes = %d\n  MaxClasses = 5\n  Guarded = TRUE\nINVARIANT Sound\nINVARIANT RootKeepsItsValue\n" % (6 if q else 7),
                workers=16, timeout=1500, args=["-deadlock"])
    if r.violated:
        raise tlc.TLCMachineryError(f"EGraphMC violates {r.violated}")
    ctx.coverage["egraph_model_states"] = r.distinct
    # every action is taken in the bounded model (TLC's -coverage is far too slow on the recursive operators: each action gets a
    # "never happens" invariant that TLC must refute)
    for inv in ("NeverAdd", "NeverMerge", "NeverRebuild"):
        rn = tlc.run("eqsat/EGraphMC.tla", cfg_text=f"SPECIFICATION Spec\nCONSTANTS\n  MaxNodes = 6\n  MaxClasses = 5\n  Guarded = TRUE\nINVARIANT {inv}\n", workers=4, timeout=600,
                     args=["-deadlock"], check=False)
        if not rn.violated:
            raise tlc.TLCMachineryError(f"EGraphMC: {inv} holds - the action is never taken in the bounded model")
    ctx.coverage["egraph_model_actions_all_taken"] = True
    r2 = tlc.run("eqsat/EGraphMC.tla", cfg_text="SPECIFICATION Spec\nCONSTANTS\n  MaxNodes = 5\n  MaxClasses = 5\n  Guarded = FALSE\nINVARIANT Sound\n", workers=16, timeout=600,
                 args=["-deadlock"], check=False)
    if not r2.violated:
        raise tlc.TLCMachineryError("negative control: an unguarded Merge did not break Sound - the invariant is vacuous")
    ctx.coverage["negative_control_unsound_merge_detected"] = True
    eg_cases: list[dict[str, Any]] = []
    eg_metas: list[dict[str, Any]] = []
    tv_cases: list[dict[str, Any]] = []
    tv_metas: list[dict[str, Any]] = []
    stats = {"pipeline_raised": 0, "egraph_not_projectable": 0, "roundtrip_structure_differs": 0, "programs": 0, "extracted_use_before_def": 0}
    with tempfile.TemporaryDirectory(prefix="verif-c28-") as tmp:
        rule_files: dict[tuple[int, str], str] = {}
        for w in (8, 32):
            for name, text in rules_text(w).items():
                p = Path(tmp) / f"rules_{w}_{name.replace('+', '_')}.mlir"
                try:
                    convert_rules(text, p)
                    rule_files[(w, name)] = str(p)
                except Exception as e:  # noqa: BLE001
                    ctx.diverge("rule set cannot be converted to eqsat_pdl_interp", rules=name, width=w, error=f"{type(e).__name__}: {str(e)[:120]}")
        ctx.coverage["rule_sets_converted"] = len(rule_files)
        if not rule_files:
            raise tlc.TLCMachineryError("no rule set could be converted")
        nprog = 50 if q else 1200
        for k in range(nprog):
            prng = ctx.rng(f"prog{k}")
            w = prng.choice([8, 32])
            text, widths, rws = gen_pure(prng, w)
            try:
                src = progs.parse(text)
                src.verify()
                progA = serialize.serialize_module(src, "main")
            except Exception as e:  # noqa: BLE001
                ctx.diverge("generated program rejected", error=f"{type(e).__name__}: {str(e)[:120]}")
                continue
            stats["programs"] += 1
            inputs = serialize.input_tuples(widths, prng, 40 if q else 80)
            names = [n for (ww, n) in rule_files if ww == w]
            for rname in [None] + prng.sample(names, 2 if q else 4):
                m = progs.parse(text)
                c = full_ctx()
                snaps: list[Any] = []
                try:
                    with time_limit(60.0):
                        EqsatCreateEclassesPass().apply(c, m)
                        snaps.append(project_egraph(m))
                        if rname is not None:
                            ApplyEqsatPDLInterpPass(pdl_interp_file=rule_files[(w, rname)], max_iterations=prng.choice([1, 2, 3, 5])).apply(c, m)
                        snaps.append(project_egraph(m))
                        EqsatAddCostsPass(default=1).apply(c, m)
                        snaps.append(project_egraph(m))
                        EqsatExtractPass().apply(c, m)
                        m.verify()
                        ubd = sort_defs_before_uses(m)
                        progB = serialize.serialize_module(m, "main")
                except serialize.Unsupported as e:
                    stats["egraph_not_projectable"] += 1
                    ctx.diverge("e-graph / extracted program not expressible in the model", reason=str(e), rules=rname or "none")
                    continue
                except Hang:
                    ctx.diverge("eqsat pipeline did not return within 60 s", rules=rname or "none", program=text)
                    continue
                except Exception as e:  # noqa: BLE001   the property promises a program: a pipeline that raises on a valid pure function with sound rules breaks it
                    stats["pipeline_raised"] += 1
                    ctx.violate(f"eqsat pipeline [{rname or 'no rules'}] raised {type(e).__name__}: {str(e)[:200]} after {len(snaps)} stage(s)\n--- source\n{text}",
                                {"clause": "PipelineYieldsAProgram", "rules": rname or "none", "width": w, "program": text, "error_type": type(e).__name__,
                                 "stage": len(snaps)}, clause="PipelineYieldsAProgram")
                    continue
                if ubd.endswith("(cyclic)"):
                    ctx.violate(f"eqsat-extract [{rname or 'no rules'}] returns a function body in which a value depends on itself ({ubd}): not an executable program\n--- source\n{text}\n--- extracted\n{m}",
                                {"clause": "ExtractedProgramIsAcyclic", "rules": rname or "none", "width": w, "program": text}, clause="ExtractedProgramIsAcyclic")
                    continue
                if ubd:
                    stats["extracted_use_before_def"] += 1
                    ctx.violate(f"eqsat-extract [{rname or 'no rules'}] leaves an operation before the definition of its operand ({ubd}) in the function body\n--- source\n{text}",
                                {"clause": "ExtractedProgramDefinesBeforeUse", "rules": rname or "none", "width": w, "program": text, "extracted_use_before_def": True},
                                clause="ExtractedProgramDefinesBeforeUse")
                meta = {"rules": rname or "none", "width": w, "text": text, "after": str(m)}
                eg_cases.append({"g0": snaps[0]["g"], "rets0": snaps[0]["rets"], "g1": snaps[1]["g"], "rets1": snaps[1]["rets"], "consts1": snaps[1]["consts"],
                                 "g2": snaps[2]["g"], "rets2": snaps[2]["rets"], "inputs": [[l for l in inp] for inp in inputs]})
                eg_metas.append(meta)
                tv_cases.append({"kind": "pair", "A": progA, "B": progB, "inputs": inputs})
                tv_metas.append({"pass": f"eqsat pipeline [{rname or 'no rules'}]", "tag": f"w{w}", "text": text, "after": str(m)})
                if rname is None:
                    try:
                        if not progs.parse(text).is_structurally_equivalent(m):
                            stats["roundtrip_structure_differs"] += 1
                    except Exception:  # noqa: BLE001
                        pass
    ctx.log(f"{stats['programs']} programs, {len(eg_cases)} pipeline runs; {stats}")
    res = casecheck.run_cases("eqsat/EGraphCases.tla", eg_cases, min_per_shard=4, timeout=3300)
    seen = set()
    notes = 0
    for idx, tail in res.mismatches:
        clause, j = tail[0], int(tail[1])
        if (idx, clause) in seen:
            continue
        seen.add((idx, clause))
        m = eg_metas[idx]
        inp = [serialize.from_limbs(l) for l in eg_cases[idx]["inputs"][j - 1]]
        ctx.violate(f"e-graph after the real eqsat stages [{m['rules']}] on input {inp}: {clause}\n--- source\n{m['text']}\n--- extracted\n{m['after']}",
                    {"clause": clause, "rules": m["rules"], "width": m["width"], "input": inp, "program": m["text"]}, clause=clause)
    ctx.coverage["egraph_snapshots_judged"] = 3 * len(eg_cases)
    ctx.coverage["egraph_judge_states"] = res.states
    tv.judge(ctx, tv_cases, tv_metas, "eqsat")
    ctx.coverage.update({"evaluations": sum(len(c["inputs"]) for c in tv_cases), "distinct_nontrivial": len({m["text"] + m["pass"] for m in tv_metas}),
                         "pipeline_runs": len(eg_cases), "outcomes": stats,
                         "rule": "generated single-block pure arith functions over i8 / i32 (1-3 arguments, 2-8 ops biased towards rule-matching shapes) x {no rules, 2 (thorough: 4) of 7 sound "
                                 "rule sets}; inputs: exhaustive when small, boundary/random tuples otherwise; distinct = (program, rule set)"})
    ctx.sample({"program": tv_metas[0]["text"], "rules": tv_metas[0]["pass"], "extracted": tv_metas[0]["after"]} if tv_metas else {})
    ctx.assumptions += ["BV.tla / Machine.tla are the semantics of the arith ops; the rule sets are sound for wrapping integer arithmetic (TLC would report an unsound rule as a violation)",
                        "e-nodes that are not a member of any class are ignored; a pipeline stage that raises on a valid pure function is a violation (PipelineYieldsAProgram)",
                        "PDL rules are converted by the repository's own convert-pdl-to-pdl-interp (mlir-opt is not available offline, so apply-eqsat-pdl itself cannot run)"]
