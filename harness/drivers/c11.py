"""C11: the greedy rewrite driver reaches a fixpoint and observes every IR change.

Model: spec/rewrite/Greedy.tla - the walker transcribed (populate / process / sweeps, listener effects on
the worklist) with NONDETERMINISTIC pop order; TLC checks InvokedOpsAreLive, EveryMutationNotified,
ReturnsChanged and Fixpoint over every schedule of small IRs built from a terminating pattern menu.
Binding C2S: the real PatternRewriteWalker is run with real RewritePattern classes implementing the same
menu (plus block-argument, inline-block and use-replacement patterns) on generated test-dialect IR, in all
8 walk configurations, with the walker's worklist object substituted by one whose pop order is perturbed;
every PatternRewriter method call is logged with the listener events it owes and those delivered; TLC
(spec/rewrite/GreedyTrace.tla) monitors each run.  The repository's canonicalization patterns are traced
the same way on corpus modules.  Binding S2C: the initial IRs of the MC instances are also run for real."""

from __future__ import annotations

import functools
from typing import Any

from .. import casecheck, tlaval, tlc
from ..core import Ctx, Hang, time_limit

MC = """---- MODULE GreedyMC ----
EXTENDS Greedy
MCKinds == {kinds}
MCParent == {parents}
====
"""
CFG = """SPECIFICATION Spec
CONSTANTS
  NIds = {n}
  InitKinds <- MCKinds
  InitParent <- MCParent
  Recursive = {rec}
  FaithfulRemoval = TRUE
INVARIANT InvokedOpsAreLive
INVARIANT EveryMutationNotified
INVARIANT ReturnsChanged
INVARIANT Fixpoint
"""

KINDS = ["a", "b", "c", "p", "x", "e", "d", "f", "g", "h", "j"]


def kind_of(op) -> str:
    from xdsl.dialects.builtin import StringAttr

    k = op.attributes.get("k")
    return k.data if isinstance(k, StringAttr) else ""


def set_kind(op, k: str):
    from xdsl.dialects.builtin import StringAttr

    op.attributes["k"] = StringAttr(k)


def make_patterns():
    from xdsl.dialects import test
    from xdsl.dialects.builtin import i32
    from xdsl.ir import Operation
    from xdsl.pattern_rewriter import PatternRewriter, RewritePattern
    from xdsl.rewriter import InsertPoint

    def unused(op) -> bool:
        return all(r.first_use is None for r in op.results)

    def tree_unused_outside(op) -> bool:
        inside = {id(x) for x in op.walk()}
        for x in op.walk():
            for r in x.results:
                if any(id(u.operation) not in inside for u in r.uses):
                    return False
            for reg in x.regions:
                for b in reg.blocks:
                    for a in b.args:
                        if any(id(u.operation) not in inside for u in a.uses):
                            return False
        return True

    class EraseA(RewritePattern):
        def match_and_rewrite(self, op: Operation, rewriter: PatternRewriter):
            if kind_of(op) == "a" and unused(op) and not op.regions:
                rewriter.erase(op)

    class ReplaceB(RewritePattern):
        def match_and_rewrite(self, op: Operation, rewriter: PatternRewriter):
            if kind_of(op) == "b" and not op.regions:
                n = test.TestOp.create(operands=list(op.operands), result_types=[r.type for r in op.results])
                set_kind(n, "c")
                rewriter.replace(op, n)

    class ModifyC(RewritePattern):
        def match_and_rewrite(self, op: Operation, rewriter: PatternRewriter):
            if kind_of(op) == "c":
                set_kind(op, "d")
                rewriter.notify_op_modified(op)

    class EraseTreeP(RewritePattern):
        def match_and_rewrite(self, op: Operation, rewriter: PatternRewriter):
            if kind_of(op) == "p" and unused(op) and tree_unused_outside(op):
                rewriter.erase(op)

    class EraseOtherX(RewritePattern):
        def match_and_rewrite(self, op: Operation, rewriter: PatternRewriter):
            if kind_of(op) == "x":
                blk = op.parent
                victim = next((o for o in blk.ops if o is not op and kind_of(o) == "a" and unused(o) and not o.regions), None) if blk else None
                if victim is not None:
                    rewriter.erase(victim)
                set_kind(op, "d")
                rewriter.notify_op_modified(op)

    class InsertE(RewritePattern):
        def match_and_rewrite(self, op: Operation, rewriter: PatternRewriter):
            if kind_of(op) == "e":
                n = test.TestOp.create(result_types=[i32])
                set_kind(n, "a")
                rewriter.insert(n, InsertPoint.before(op))
                set_kind(op, "d")
                rewriter.notify_op_modified(op)

    class InlineF(RewritePattern):
        def match_and_rewrite(self, op: Operation, rewriter: PatternRewriter):
            if kind_of(op) == "f" and len(op.regions) == 1 and len(op.regions[0].blocks) == 1 and unused(op):
                blk = op.regions[0].blocks[0]
                if any(a.first_use is not None for a in blk.args):
                    return
                rewriter.inline_block(blk, InsertPoint.before(op))
                rewriter.erase(op)

    class ArgG(RewritePattern):
        def match_and_rewrite(self, op: Operation, rewriter: PatternRewriter):
            if kind_of(op) == "g" and op.regions and op.regions[0].blocks:
                blk = op.regions[0].blocks[0]
                dead = [a for a in blk.args if a.first_use is None]
                if dead:
                    rewriter.erase_block_argument(dead[0])
                else:
                    rewriter.insert_block_argument(blk, 0, i32)
                set_kind(op, "d")
                rewriter.notify_op_modified(op)

    class ForwardH(RewritePattern):
        def match_and_rewrite(self, op: Operation, rewriter: PatternRewriter):
            if kind_of(op) == "h" and len(op.results) == 1 and len(op.operands) >= 1 and not op.regions:
                rewriter.replace_all_uses_with(op.results[0], op.operands[0])
                rewriter.erase(op)

    class InsertThenForwardJ(RewritePattern):
        """mutates first (in-place + insertion), then forwards every result to an operand - also results that have no uses -
        and does nothing afterwards: the match as a whole changed the IR whatever the last call found to do"""

        def match_and_rewrite(self, op: Operation, rewriter: PatternRewriter):
            if kind_of(op) == "j" and len(op.operands) >= 1 and len(op.results) >= 1 and not op.regions:
                set_kind(op, "d")
                rewriter.notify_op_modified(op)
                n = test.TestOp.create(result_types=[i32])
                set_kind(n, "d")
                rewriter.insert(n, InsertPoint.before(op))
                for r in op.results:
                    if op.operands[0] is not r:
                        rewriter.replace_all_uses_with(r, op.operands[0])

    return [EraseA(), ReplaceB(), ModifyC(), EraseTreeP(), EraseOtherX(), InsertE(), InlineF(), ArgG(), ForwardH(), InsertThenForwardJ()]


def gen_module(rng, kinds_parents: tuple[list[str], list[int]] | None = None):
    """A builtin.module of test.op ops carrying kind attributes; nested regions; defs before uses."""
    from xdsl.dialects import test
    from xdsl.dialects.builtin import ModuleOp, i32
    from xdsl.ir import Block, Region

    if kinds_parents is not None:
        kinds, parents = kinds_parents
        ops = []
        for k in kinds:
            has_children = (len(ops) + 1) in parents
            op = test.TestOp.create(result_types=[i32] if k in ("b",) else [], regions=[Region([Block()])] if has_children else [])
            set_kind(op, k)
            ops.append(op)
        top = []
        for o, p in zip(ops, parents):
            (top if p == 0 else None)
            if p == 0:
                top.append(o)
            else:
                ops[p - 1].regions[0].blocks[0].add_op(o)
        return ModuleOp(top)

    def block_ops(depth: int, avail: list) -> list:
        out = []
        for _ in range(rng.randint(1, 5)):
            k = rng.choice(KINDS)
            regions = []
            if depth > 0 and (k in ("p", "f", "g") or rng.random() < 0.15):
                inner = Block(arg_types=[i32] * rng.randint(0, 2))
                inner.add_ops(block_ops(depth - 1, avail + list(inner.args) if k != "f" else avail))
                regions = [Region([inner])]
            nres = rng.choice([0, 1, 1])
            operands = [rng.choice(avail) for _ in range(rng.choice([0, 1, 2]))] if avail else []
            op = test.TestOp.create(operands=operands, result_types=[i32] * nres, regions=regions)
            set_kind(op, k)
            out.append(op)
            avail = avail + list(op.results)
        return out

    return ModuleOp(block_ops(2, []))


def gen_post_walk_only(rng):
    from xdsl.dialects import test
    from xdsl.dialects.builtin import ModuleOp, i32

    ops = []
    for _ in range(rng.randint(2, 5)):
        if rng.random() < 0.6:
            ops.append(test.TestPureOp.create(result_types=[i32]))      # unused pure op: removed by region_dce
        else:
            o = test.TestOp.create(result_types=[i32])
            set_kind(o, "d")
            ops.append(o)
    if not any(isinstance(o, test.TestPureOp) for o in ops):
        ops.append(test.TestPureOp.create(result_types=[i32]))
    return ModuleOp(ops)


class Recorder:
    """Logs walker events: substituted worklist, wrapped PatternRewriter methods, listener, wrapped pattern."""

    def __init__(self, root_region):
        self.events: list[dict[str, Any]] = []
        self.root = root_region
        self.ids: dict[int, int] = {}
        self.keep: list[Any] = []
        self.erased: set[int] = set()
        self.notes: list[list[Any]] | None = None
        self.depth = 0

    def oid(self, op) -> int:
        i = self.ids.get(id(op))
        if i is None:
            i = self.ids[id(op)] = len(self.ids) + 1
            self.keep.append(op)
        return i

    def attached(self, op) -> bool:
        from xdsl.ir import Region

        x = op
        for _ in range(1000):
            p = x.parent
            if p is None:
                return False
            if isinstance(p, Region) and p is self.root:
                return True
            x = p
        return False

    def listener(self):
        from xdsl.pattern_rewriter import PatternRewriterListener

        def note(kind):
            def f(op, *rest):
                if kind == "Removed":
                    for x in op.walk():
                        self.erased.add(id(x))
                if self.notes is not None:
                    self.notes.append([kind, self.oid(op)])
            return f

        return PatternRewriterListener(operation_insertion_handler=[note("Inserted")], operation_removal_handler=[note("Removed")],
                                       operation_modification_handler=[note("Modified")], operation_replacement_handler=[note("Replaced")])


def obligations(rec: Recorder, method: str, a: tuple, k: dict) -> tuple[list[list[Any]], int]:
    """Listener events a PatternRewriter call owes (DESIGN §4 C11 table), computed BEFORE the call; and whether it mutates."""
    from xdsl.ir import Operation

    def users(v):
        return [u.operation for u in v.uses]

    if method == "insert":
        ops = a[0]
        ops = [ops] if isinstance(ops, Operation) else list(ops)
        return [["Inserted", rec.oid(o)] for o in ops], 1 if ops else 0
    if method == "erase":
        return [["Removed", rec.oid(a[0])]], 1
    if method == "replace":
        op = a[0]
        new_ops = a[1] if len(a) > 1 else k.get("new_ops")
        new_ops = [new_ops] if isinstance(new_ops, Operation) else list(new_ops)
        ob = [["Inserted", rec.oid(o)] for o in new_ops] + [["Replaced", rec.oid(op)], ["Removed", rec.oid(op)]]
        new_results = a[2] if len(a) > 2 else k.get("new_results")
        if new_results is None:
            new_results = new_ops[-1].results if new_ops else []
        for r, nr in zip(op.results, new_results):
            if nr is not r:
                ob += [["Modified", rec.oid(u)] for u in users(r)]
        return ob, 1
    if method == "replace_all_uses_with":
        frm, to = a[0], a[1]
        if frm is to:
            return [], 0
        us = users(frm)
        return [["Modified", rec.oid(u)] for u in us], 1 if (us or to is None) else 0
    if method == "notify_op_modified":
        return [["Modified", rec.oid(a[0])]], 1
    if method == "replace_value_with_new_type":
        return [], 1
    if method in ("insert_block_argument", "erase_block_argument", "inline_block", "inline_region", "move_region_contents_to_new_regions"):
        return [], 1
    return [], 0


WRAPPED = ["insert", "erase", "replace", "replace_all_uses_with", "replace_uses_with_if", "notify_op_modified", "replace_value_with_new_type",
           "insert_block_argument", "erase_block_argument", "inline_block", "inline_region", "move_region_contents_to_new_regions"]


class Instrument:
    """Run-time wrappers on PatternRewriter methods (outermost call only), active while a recorder is set."""

    def __init__(self):
        self.rec: Recorder | None = None
        self.saved: list[tuple[str, Any]] = []

    def install(self):
        from xdsl.pattern_rewriter import PatternRewriter

        for name in WRAPPED:
            fn = PatternRewriter.__dict__[name]
            self.saved.append((name, fn))
            setattr(PatternRewriter, name, self._wrap(name, fn))

    def uninstall(self):
        from xdsl.pattern_rewriter import PatternRewriter

        for name, fn in self.saved:
            setattr(PatternRewriter, name, fn)
        self.saved.clear()

    def _wrap(self, name, fn):
        inst = self

        @functools.wraps(fn)
        def w(rw, *a, **k):
            rec = inst.rec
            if rec is None or rec.depth > 0:
                return fn(rw, *a, **k)
            ob, mutating = obligations(rec, name, a, k)
            rec.notes = []
            rec.depth += 1
            try:
                return fn(rw, *a, **k)
            finally:
                rec.depth -= 1
                notes, rec.notes = rec.notes, None
                rec.events.append({"ev": "call", "m": name, "mutating": mutating, "oblig": ob, "notes": notes, "flag": 1 if rw.has_done_action else 0})

        return w


def run_walker(rng, module, patterns, recursive: bool, reverse: bool, regions_first: bool, perturb: bool, inst: Instrument,
               post_walk: bool = False) -> list[dict[str, Any]]:
    from xdsl.pattern_rewriter import GreedyRewritePatternApplier, PatternRewriter, PatternRewriteWalker, RewritePattern
    from xdsl.utils.worklist import Worklist

    rec = Recorder(module.body)

    class Traced(RewritePattern):
        def __init__(self, inner):
            self.inner = inner

        def match_and_rewrite(self, op, rewriter):
            rec.events.append({"ev": "invoke", "op": rec.oid(op), "attached": 1 if rec.attached(op) else 0, "erased": 1 if id(op) in rec.erased else 0})
            before = str(module)
            try:
                self.inner.match_and_rewrite(op, rewriter)
            finally:
                rec.events.append({"ev": "end", "op": rec.oid(op), "acted": 1 if rewriter.has_done_action else 0,
                                   "changed": 1 if str(module) != before else 0})

    class Perturbed(Worklist):
        """Same contract as Worklist, but pop returns a pseudo-random present item."""

        def pop(self):
            present = [x for x in self._stack if x in self._map]   # _MISSING tombstones are not in the map
            if not present:
                return super().pop()
            item = rng.choice(present)
            self.remove(item)
            return item

    applier = GreedyRewritePatternApplier(list(patterns), dce_enabled=False)
    post = None
    if post_walk:
        from xdsl.transforms.dead_code_elimination import region_dce

        post = region_dce
    walker = PatternRewriteWalker(Traced(applier), walk_regions_first=regions_first, apply_recursively=recursive, walk_reverse=reverse,
                                  listener=rec.listener(), post_walk_func=post)
    if perturb:
        walker._worklist = Perturbed()  # pyright: ignore
    rec.events.append({"ev": "start", "recursive": 1 if recursive else 0})
    start = str(module)
    inst.rec = rec
    try:
        v = walker.rewrite_module(module)
    except Exception as e:  # noqa: BLE001  the menu patterns never raise: this is the walker's own failure
        rec.events.append({"ev": "raised", "error": type(e).__name__})
        return rec.events
    finally:
        inst.rec = None
    rec.events.append({"ev": "return", "v": 1 if v else 0, "everchanged": 1 if str(module) != start else 0})
    # post-condition: would any pattern still change any op of the final IR?  (asked on a clone)
    still = 0
    if recursive:
        probe = module.clone()
        for op in list(probe.walk()):
            if op is probe or op.parent is None:
                continue
            before = str(probe)
            rw = PatternRewriter(op)
            try:
                applier.match_and_rewrite(op, rw)
            except Exception:  # noqa: BLE001
                continue
            if rw.has_done_action or str(probe) != before:
                still = 1
                break
    rec.events.append({"ev": "post", "stillfires": still})
    return rec.events


def run(ctx: Ctx):
    ctx.level = "model_checking"
    q = ctx.quick
    rng = ctx.rng("c11")
    # --- the design: every pop order on small IRs
    shapes = [(["p", "a", "b", "x", "e", "c"], [0, 1, 1, 0, 0, 3]), (["p", "p", "a", "x", "e", "c"], [0, 1, 2, 0, 0, 0]),
              (["x", "a", "a", "b", "e"], [0, 0, 0, 0, 0]), (["e", "x", "p", "c", "a"], [0, 0, 0, 3, 3])]
    if not q:
        for _ in range(12):
            n = rng.randint(4, 6)
            kinds = [rng.choice(["a", "b", "c", "p", "x", "e"]) for _ in range(n)]
            parents = [0] + [rng.choice([0] + [j + 1 for j in range(i) if kinds[j] == "p"]) for i in range(1, n)]
            shapes.append((kinds, parents))
    for kinds, parents in shapes:
        for rec_flag in ("TRUE", "FALSE"):
            r = tlc.run("GreedyMC.tla", module_text=MC.format(kinds=tlaval.to_tla(tuple(kinds)), parents=tlaval.to_tla(tuple(parents))),
                        cfg_text=CFG.format(n=len(kinds) + 3, rec=rec_flag), coverage=True, timeout=1200)
            if r.violated:
                raise tlc.TLCMachineryError(f"Greedy.tla (transcription of the current walker) violates {r.violated} on {kinds} {parents}")
            ctx.cov_add("states", r.distinct)
            ctx.cov_add("transitions", r.generated)
    ctx.log(f"Greedy.tla: {len(shapes)} initial IRs x 2 modes, every pop order: {ctx.coverage['states']} states, ok")
    # --- the real walker
    inst = Instrument()
    inst.install()
    cases: list[list[dict[str, Any]]] = []
    metas: list[dict[str, Any]] = []
    try:
        patterns = make_patterns()
        configs = [(r, v, f) for r in (True, False) for v in (False, True) for f in (False, True)]
        n_mod = 50 if q else 700
        for m in range(n_mod + len(shapes)):
            for (recursive, reverse, regions_first) in configs:
                for perturb in ((False, True) if m % 2 == 0 else (True,)):
                    mrng = ctx.rng(f"module-{m}")
                    module = gen_module(mrng, shapes[m - n_mod] if m >= n_mod else None)
                    subset = patterns if mrng.random() < 0.6 else mrng.sample(patterns, mrng.randint(2, 6))
                    post_walk = mrng.random() < 0.15
                    if m < n_mod and m % 10 == 9:
                        # only the post-walk function (region_dce) can change this IR: no pattern matches kind "d"
                        module = gen_post_walk_only(mrng)
                        post_walk = True
                    try:
                        with time_limit(30.0):
                            ev = run_walker(rng, module, subset, recursive, reverse, regions_first, perturb, inst, post_walk)
                    except Hang:
                        ctx.diverge("walker run did not return within 30 s", module=m)
                        continue
                    except Exception as e:  # noqa: BLE001  a walker that escapes with an internal error: keep the log so far
                        rec = inst.rec
                        inst.rec = None
                        ctx.diverge("walker raised", error=f"{type(e).__name__}: {str(e)[:160]}", module=m,
                                    config=[recursive, reverse, regions_first, perturb])
                        ctx.cov_add("walker_runs_raised")
                        if rec is not None:
                            rec.events.append({"ev": "raised", "error": type(e).__name__})
                            cases.append(rec.events)
                            metas.append({"module": m, "recursive": recursive, "reverse": reverse, "regions_first": regions_first,
                                          "perturbed": perturb, "raised": type(e).__name__, "patterns": [type(p).__name__ for p in subset]})
                        continue
                    if ev and ev[-1]["ev"] == "raised":
                        ctx.cov_add("walker_runs_raised")
                    cases.append(ev)
                    metas.append({"module": m, "recursive": recursive, "reverse": reverse, "regions_first": regions_first, "perturbed": perturb,
                                  "post_walk": post_walk, "patterns": [type(p).__name__ for p in subset]})
        n_menu = len(cases)
        # the repository's own canonicalization patterns on corpus modules
        n_canon = canon_runs(ctx, inst, cases, metas, 15 if q else 200)
    finally:
        inst.uninstall()
    ctx.log(f"{n_menu} walker runs with the pattern menu, {n_canon} canonicalize runs on corpus modules; {sum(len(c) for c in cases)} events")
    res = casecheck.run_cases("rewrite/GreedyTrace.tla", cases, min_per_shard=20)
    for idx, tail in res.mismatches:
        clause = tail[0]
        m = metas[idx]
        first = next((e for e in cases[idx] if e["ev"] == "call" and e["oblig"] and any(o not in e["notes"] for o in e["oblig"])), None)
        ctx.violate(f"walker run {m}: {clause}" + (f" (call {first['m']} owed {first['oblig']} delivered {first['notes']})" if first and "Reported" in clause else ""),
                    {"clause": clause, "source": m.get("source", "menu"), "config": {k: m.get(k) for k in ("recursive", "reverse", "regions_first", "perturbed", "post_walk")},
                     "patterns": m.get("patterns"), "events": cases[idx][:80]}, clause=clause)
    ev_kinds: dict[str, int] = {}
    for c in cases:
        for e in c:
            key = e["ev"] + (":" + e["m"] if e["ev"] == "call" else "")
            ev_kinds[key] = ev_kinds.get(key, 0) + 1
    ctx.coverage.update({"traces_validated_against_impl": len(cases), "walker_runs_menu": n_menu, "walker_runs_canonicalize": n_canon,
                         "events": sum(len(c) for c in cases), "event_kinds": ev_kinds, "monitor_states": res.states,
                         "rule": "generated modules x pattern subsets x 8 walk configurations x (LIFO | perturbed pop order); plus canonicalize on corpus modules"})
    ctx.sample({"meta": metas[0], "events": cases[0][:12]})
    ctx.assumptions += ["notification obligations per rewriter call as tabulated in DESIGN §4 C11 (structural block/region moves owe none)",
                        "IR change is detected by comparing the printed module before/after each match"]


def canon_runs(ctx: Ctx, inst: Instrument, cases, metas, limit: int) -> int:
    from xdsl.pattern_rewriter import GreedyRewritePatternApplier, PatternRewriteWalker, RewritePattern
    from xdsl.traits import HasCanonicalizationPatternsTrait
    from xdsl.transforms.canonicalize import CanonicalizationRewritePattern
    from xdsl.transforms.dead_code_elimination import region_dce

    from .c01_c2s import corpus_modules

    rng = ctx.rng("canon")
    n = 0
    for name, module, xctx in corpus_modules(rng, limit, max_ops=40):
        if not any(o.has_trait(HasCanonicalizationPatternsTrait) for o in module.walk()):
            continue
        rec = Recorder(module.body)
        inner = CanonicalizationRewritePattern()

        class Traced(RewritePattern):
            def match_and_rewrite(self, op, rewriter):
                rec.events.append({"ev": "invoke", "op": rec.oid(op), "attached": 1 if rec.attached(op) else 0, "erased": 1 if id(op) in rec.erased else 0})
                try:
                    inner.match_and_rewrite(op, rewriter)
                finally:
                    # repository patterns may write operands directly before calling the rewriter: only the call-based clauses apply
                    rec.events.append({"ev": "end", "op": rec.oid(op), "acted": 1 if rewriter.has_done_action else 0, "changed": 0})

        walker = PatternRewriteWalker(Traced(), listener=rec.listener(), post_walk_func=region_dce)
        rec.events.append({"ev": "start", "recursive": 1})
        start = str(module)
        inst.rec = rec
        try:
            with time_limit(60.0):
                v = walker.rewrite_module(module)
        except (Hang, Exception):  # noqa: BLE001
            inst.rec = None
            continue
        inst.rec = None
        rec.events.append({"ev": "return", "v": 1 if v else 0, "everchanged": 1 if str(module) != start else 0})
        cases.append(rec.events)
        metas.append({"source": f"canonicalize on {name}", "recursive": True})
        n += 1
    return n
