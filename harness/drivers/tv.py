"""Translation validation under spec/sem/Machine.tla (shared by C13, C14, C16): a generated program is run
through a REAL pass; the programs before and after are serialised and TLC executes both on every input
of a small domain (MachineCases.tla, kind "pair") checking AgreeClause: if the source completes, the target
completes with the same results and the same effects in the same order."""

from __future__ import annotations

from typing import Any

from .. import casecheck, serialize
from ..core import Ctx, Hang, time_limit
from . import progs


def apply_pass(module, name: str):
    from xdsl.context import Context
    from xdsl.dialects import get_all_dialects
    from xdsl.transforms import get_all_passes

    ctx = Context()
    for dname, factory in get_all_dialects().items():
        ctx.register_dialect(dname, factory)
    get_all_passes()[name]()().apply(ctx, module)


def tv_cases(ctx: Ctx, passes: list[str], programs, inputs_cap: int, extra_meta=None):
    """programs: iterable of (text, arg widths, result widths, tag).  Returns (cases, metas)."""
    cases: list[dict[str, Any]] = []
    metas: list[dict[str, Any]] = []
    stats = {"unchanged": 0, "pass_raised": 0, "unsupported_after": 0, "invalid_after": 0}
    for k, (text, widths, _rws, tag) in enumerate(programs):
        try:
            src = progs.parse(text)
            src.verify()
            progA = serialize.serialize_module(src, "main")
        except Exception as e:  # noqa: BLE001
            ctx.diverge("generated program rejected", error=f"{type(e).__name__}: {str(e)[:120]}", tag=tag)
            continue
        prng = ctx.rng(f"inputs-{tag}-{k}")
        inputs = serialize.input_tuples(widths, prng, inputs_cap)
        for pname in passes:
            m = progs.parse(text)
            try:
                with time_limit(30.0):
                    apply_pass(m, pname)
            except Hang:
                ctx.diverge("pass did not return within 30 s", pass_name=pname, program=text)
                stats["pass_raised"] += 1
                continue
            except Exception as e:  # noqa: BLE001   "a pass that cannot fold an operation leaves it in place instead of failing"
                stats["pass_raised"] += 1
                cases.append({"kind": "pair", "A": progA, "B": progA, "inputs": inputs[:1]})
                metas.append({"pass": pname, "tag": tag, "text": text, "raised": f"{type(e).__name__}: {str(e)[:160]}"})
                continue
            try:
                m.verify()
            except Exception as e:  # noqa: BLE001
                stats["invalid_after"] += 1
                ctx.diverge("pass output does not verify", pass_name=pname, error=str(e)[:120])
                continue
            after = str(m)
            if after == str(progs.parse(text)):
                stats["unchanged"] += 1
                continue
            try:
                progB = serialize.serialize_module(m, "main")
            except serialize.Unsupported as e:
                stats["unsupported_after"] += 1
                ctx.diverge("pass output not expressible in Machine.tla", pass_name=pname, reason=str(e))
                continue
            cases.append({"kind": "pair", "A": progA, "B": progB, "inputs": inputs})
            metas.append({"pass": pname, "tag": tag, "text": text, "after": after})
    return cases, metas, stats


def _nest_uneven(text: str) -> bool:
    """Loop-nest programs of progs.nest_family: is the inner range empty/negative or not a multiple of its step, or the outer step > 1?"""
    import re

    def c(name):
        m = re.search(rf"%{name} = arith.constant (-?\d+) : index", text)
        return int(m.group(1)) if m else None

    ilb, iub, ist, ost = c("ilb"), c("iub"), c("ist"), c("ost")
    if None in (ilb, iub, ist, ost):
        return False
    return not (iub > ilb and (iub - ilb) % ist == 0 and ost == 1)


def judge(ctx: Ctx, cases, metas, what: str):
    res = casecheck.run_cases("sem/MachineCases.tla", cases, min_per_shard=4, timeout=3300, count_ends=lambda c: len(c["inputs"]))
    st: dict[str, int] = {}
    for (_i, _j, sa, sb) in getattr(res, "ends", []):
        st[f"{sa}/{sb}"] = st.get(f"{sa}/{sb}", 0) + 1
    seen = set()
    for idx, m in enumerate(metas):
        if m.get("raised"):
            ctx.violate(f"pass {m['pass']} raised {m['raised']} on a valid program instead of leaving it in place\n{m['text']}",
                        {"clause": "PassDoesNotFail", "pass": m["pass"], "program": m["text"], "error": m["raised"], "tag": m["tag"]}, clause="PassDoesNotFail")
    for idx, tail in res.mismatches:
        clause, j = tail
        m = metas[idx]
        if m.get("raised") or (idx, clause) in seen:
            continue
        seen.add((idx, clause))
        c = cases[idx]
        inp = [serialize.from_limbs(l) for l in c["inputs"][j - 1]]
        ctx.violate(f"pass {m['pass']} changes behaviour on input {inp}: {clause}\n--- before\n{m['text']}\n--- after\n{m.get('after', '')}",
                    {"clause": clause, "pass": m["pass"], "input": inp, "program": m["text"], "after": m.get("after", ""), "tag": m["tag"],
                     "nest_trip_counts_uneven": _nest_uneven(m["text"]),
                     "step_scaled_by_multiplication": "arith.muli %st, " in m.get("after", "") or "arith.muli %ost, " in m.get("after", ""),
                     "affine_mod": " mod " in m["text"],
                     "unsigned_cmpi": any(f"cmpi {p}," in m["text"] for p in ("ult", "ule", "ugt", "uge"))}, clause=clause)
    ctx.coverage.update({"programs": len(cases), "disagreements_checked": sum(len(c["inputs"]) for c in cases), "machine_states": res.states,
                         "run_status_source/target": st})
    return res
