"""C22: RISC-V backend output computes the source results and keeps callee state.

Model: spec/riscv/RV.tla (RV32IM instruction semantics on byte-limb registers, word stack, RISC-V division rules) next
to spec/sem/Machine.tla (source semantics).  Binding (translation validation): (1) generated func/arith/scf programs over
i32 are lowered by the REAL documented pipeline (convert-func-to-riscv-func, convert-scf-to-riscv-scf,
convert-arith-to-riscv, reconcile-unrealized-casts, canonicalize, riscv-allocate-registers, riscv-lower-parallel-mov,
canonicalize, riscv-prologue-epilogue-insertion, convert-riscv-scf-to-riscv-cf, canonicalize) and printed as assembly; the
assembly text is parsed into RV.tla instruction records and TLC runs source and target on the same inputs: same results in
a0/a1, callee-saved registers and sp restored at `ret` (RVCases.tla, kind "compile").  (2) RISC-V snippets with constant
operands at boundary values are printed before and after `canonicalize` alone and both run under RV.tla (kind "canon")."""

from __future__ import annotations

import re
from typing import Any

from .. import casecheck, serialize
from ..core import Ctx, Hang, time_limit
from . import progs

PIPELINE = ["convert-func-to-riscv-func", "convert-scf-to-riscv-scf", "convert-arith-to-riscv", "reconcile-unrealized-casts", "canonicalize",
            "riscv-allocate-registers", "riscv-lower-parallel-mov", "canonicalize", "riscv-prologue-epilogue-insertion",
            "convert-riscv-scf-to-riscv-cf", "canonicalize"]
REGS = {"zero", "ra", "sp", "gp", "tp", "t0", "t1", "t2", "s0", "s1", "a0", "a1", "a2", "a3", "a4", "a5", "a6", "a7",
        "s2", "s3", "s4", "s5", "s6", "s7", "s8", "s9", "s10", "s11", "t3", "t4", "t5", "t6"}
ALIAS = {"fp": "s0"}
CALLEE = ["sp", "s0", "s1", "s2", "s3", "s4", "s5", "s6", "s7", "s8", "s9", "s10", "s11"]


class AsmUnsupported(Exception):
    pass


def limbs32(v: int) -> list[int]:
    return serialize.limbs(v, 32)


def parse_asm(text: str, entry: str = "main") -> list[dict[str, Any]]:
    """Assembly text -> RV.tla instruction records (only the function `entry`)."""
    lines = []
    for ln in text.splitlines():
        ln = ln.split("#")[0].strip()
        if ln:
            lines.append(ln)
    labels: dict[str, int] = {}
    raw: list[tuple[str, list[str]]] = []
    for ln in lines:
        if ln.startswith("."):
            continue
        m = re.fullmatch(r"([\w.$]+):", ln)
        if m:
            labels[m.group(1)] = len(raw) + 1
            continue
        parts = ln.split(None, 1)
        ops = [x.strip() for x in parts[1].split(",")] if len(parts) > 1 else []
        raw.append((parts[0], ops))
    start = labels.get(entry, 1)
    code: list[dict[str, Any]] = []

    def reg(x: str) -> str:
        x = ALIAS.get(x, x)
        if x not in REGS:
            raise AsmUnsupported(f"register {x}")
        return x

    def imm(x: str) -> list[int]:
        try:
            return limbs32(int(x, 0))
        except ValueError as e:
            raise AsmUnsupported(f"immediate {x}") from e

    def tgt(x: str) -> int:
        if x not in labels:
            raise AsmUnsupported(f"label {x}")
        return labels[x] - start + 1

    for op, a in raw[start - 1:]:
        d = {"op": op, "rd": "zero", "rs1": "zero", "rs2": "zero", "imm": [0, 0, 0, 0], "tgt": 0}
        if op in ("add", "sub", "mul", "mulh", "mulhu", "div", "divu", "rem", "remu", "and", "or", "xor", "sll", "srl", "sra", "slt", "sltu"):
            d.update(rd=reg(a[0]), rs1=reg(a[1]), rs2=reg(a[2]))
        elif op in ("addi", "andi", "ori", "xori", "slli", "srli", "srai", "slti", "sltiu"):
            d.update(rd=reg(a[0]), rs1=reg(a[1]), imm=imm(a[2]))
        elif op in ("li", "lui"):
            d.update(rd=reg(a[0]), imm=imm(a[1]))
        elif op in ("mv", "neg", "not", "seqz", "snez"):
            d.update(rd=reg(a[0]), rs1=reg(a[1]))
        elif op in ("beq", "bne", "blt", "bge", "bltu", "bgeu"):
            d.update(rs1=reg(a[0]), rs2=reg(a[1]), tgt=tgt(a[2]))
        elif op == "j":
            d.update(tgt=tgt(a[0]))
        elif op in ("sw", "lw"):
            m = re.fullmatch(r"(-?\w+)\((\w+)\)", a[1])
            if m:
                off, base = m.group(1), m.group(2)
            elif len(a) == 3:      # `sw rs2, rs1, imm` form
                base, off = a[1], a[2]
            else:
                raise AsmUnsupported(f"memory operand {a}")
            if op == "sw":
                d.update(rs2=reg(a[0]), rs1=reg(base), imm=imm(off))
            else:
                d.update(rd=reg(a[0]), rs1=reg(base), imm=imm(off))
        elif op in ("ret", "nop"):
            pass
        else:
            raise AsmUnsupported(f"instruction {op}")
        code.append(d)
        if op == "ret" and not any(t > len(code) for t in [x["tgt"] for x in code]):
            # the function ends at its last `ret` (later labels belong to other functions)
            pass
    # cut at the end of the entry function: the next global label after the last ret reachable is not known; keep everything
    return code


def full_ctx():
    from xdsl.context import Context
    from xdsl.dialects import get_all_dialects

    c = Context()
    for n, f in get_all_dialects().items():
        c.register_dialect(n, f)
    return c


def compile_riscv(text: str) -> str:
    from xdsl.dialects.riscv import riscv_code
    from xdsl.transforms import get_all_passes

    m = progs.parse(text)
    m.verify()
    c = full_ctx()
    allp = get_all_passes()
    for p in PIPELINE:
        allp[p]()().apply(c, m)
    return riscv_code(m)


def gen_i32(rng, big: bool) -> tuple[str, list[int], list[int]]:
    """Programs over i32: arithmetic chains, comparisons feeding scf.if, scf.for with iter_args; `big` = many live values."""
    nargs = rng.randint(1, 4)
    vals = [f"%a{i}" for i in range(nargs)]
    lines: list[str] = []
    n = [0]

    def fresh(p="v"):
        n[0] += 1
        return f"%{p}{n[0]}"

    def const(c):
        v = fresh("c")
        lines.append(f"  {v} = arith.constant {c} : i32")
        return v

    bools: list[str] = []
    ops = ["addi", "subi", "muli", "andi", "ori", "xori", "addi", "subi", "shli", "shrsi", "shrui", "divsi", "divui", "remsi", "remui"]
    if rng.random() < 0.04:      # ops the lowering refuses (NotImplementedError = reported failure)
        ops = ops + ["minsi", "maxui", "floordivsi", "ceildivui"]
    preds = ["eq", "ne", "slt", "sle", "sgt", "sge", "ult", "ule"] + (["ugt", "uge"] if rng.random() < 0.04 else [])

    def stmt(ind: str, pool: list[str], depth: int):
        r = rng.random()
        if r < 0.55 or depth >= 2:
            op = rng.choice(ops)
            a = rng.choice(pool)
            if op in ("shli", "shrsi", "shrui"):
                b = const(rng.choice([0, 1, 5, 31]))
            elif rng.random() < 0.3:
                b = const(rng.choice([0, 1, -1, 2, 7, 2047, 2048, -2048, -2049, 65536, 2147483647, -2147483648]))
            else:
                b = rng.choice(pool)
            v = fresh()
            lines.append(f"{ind}{v} = arith.{op} {a}, {b} : i32")
            pool.append(v)
        elif r < 0.8:
            # the RISC-V lowering has no scf.if / select and refuses i1 results: a comparison is observed through
            # index_cast (i1 -> index -> i32) masked with 1 (the mask makes the value independent of how i1 is extended)
            p = rng.choice(preds)
            c, ci, cw, cm = fresh("b"), fresh("bi"), fresh("bw"), fresh("bm")
            lines.append(f"{ind}{c} = arith.cmpi {p}, {rng.choice(pool)}, {rng.choice(pool + [const(rng.choice([0, 1, -1, 5]))])} : i32")
            lines.append(f"{ind}{ci} = arith.index_cast {c} : i1 to index")
            lines.append(f"{ind}{cw} = arith.index_cast {ci} : index to i32")
            lines.append(f"{ind}{cm} = arith.andi {cw}, {const(1)} : i32")
            pool.append(cm)
        else:
            lb, ub, st = fresh("lb"), fresh("ub"), fresh("st")
            read_bounds = rng.random() < 0.4      # the body also reads the loop bounds / the induction variable
            if read_bounds and depth == 0 and rng.random() < 0.5:
                m3, c3, c1 = fresh(), const(3), const(1)
                lines.append(f"{ind}{m3} = arith.andi {rng.choice(vals)}, {c3} : i32")
                lb1 = fresh()
                lines.append(f"{ind}{lb1} = arith.addi {m3}, {c1} : i32")
                lines.append(f"{ind}{lb} = arith.index_cast {lb1} : i32 to index")
            else:
                lines.append(f"{ind}{lb} = arith.constant {rng.choice([0, 1, 1, 2])} : index")
            if rng.random() < 0.3 and depth == 0:
                m7, cc = fresh(), const(7)
                lines.append(f"{ind}{m7} = arith.andi {rng.choice(vals)}, {cc} : i32")
                lines.append(f"{ind}{ub} = arith.index_cast {m7} : i32 to index")
            else:
                lines.append(f"{ind}{ub} = arith.constant {rng.choice([0, 1, 3, 4])} : index")
            lines.append(f"{ind}{st} = arith.constant {rng.choice([1, 2])} : index")
            v, acc, iv = fresh(), fresh("acc"), fresh("i")
            lines.append(f"{ind}{v} = scf.for {iv} = {lb} to {ub} step {st} iter_args({acc} = {rng.choice(pool)}) -> (i32) {{")
            p1 = list(pool) + [acc]
            if read_bounds:
                for src in rng.sample([lb, iv, ub], rng.choice([1, 2])):
                    bi = fresh()
                    lines.append(f"{ind}  {bi} = arith.index_cast {src} : index to i32")
                    s2 = fresh()
                    lines.append(f"{ind}  {s2} = arith.addi {p1[-1]}, {bi} : i32")
                    p1.append(s2)
            stmt(ind + "  ", p1, depth + 1)
            if read_bounds:       # a temporary defined after the reads of the bounds
                t2 = fresh()
                lines.append(f"{ind}  {t2} = arith.xori {p1[-1]}, {acc} : i32")
                p1.append(t2)
            lines.append(f"{ind}  scf.yield {p1[-1]} : i32")
            lines.append(f"{ind}}}")
            pool.append(v)

    pool = list(vals)
    for _ in range(rng.randint(8, 16) if big else rng.randint(2, 7)):
        stmt("  ", pool, 0)
    if big:
        # keep many values alive to the end: sum of everything
        acc = pool[0]
        for v in pool[1:]:
            s = fresh()
            lines.append(f"  {s} = arith.addi {acc}, {v} : i32")
            acc = s
        pool.append(acc)
    rets, rtys, rws = [pool[-1]], ["i32"], [32]
    if rng.random() < 0.4:
        rets.append(rng.choice(pool)), rtys.append("i32"), rws.append(32)
    sig = ", ".join(f"{v} : i32" for v in vals)
    text = f"func.func @main({sig}) -> ({', '.join(rtys)}) {{\n" + "\n".join(lines) + f"\n  func.return {', '.join(rets)} : {', '.join(rtys)}\n}}\n"
    return text, [32] * nargs, rws


def bound_reading_loops() -> list[tuple[str, list[int], list[int]]]:
    """Directed family: loops (also nested) whose body reads the lower bound / upper bound / induction variable and defines
    temporaries after those reads; bounds are constants or computed, at least two iterations."""
    out = []
    bodies = [("%iv - %lbv", ["%t = arith.subi %ivv, %lbv : i32", "%u = arith.muli %t, %t : i32", "%y = arith.addi %acc, %u : i32"]),
              ("%ub - %iv", ["%t = arith.subi %ubv, %ivv : i32", "%u = arith.muli %t, %ivv : i32", "%y = arith.addi %acc, %u : i32"]),
              ("lb then ub", ["%t = arith.addi %acc, %lbv : i32", "%u = arith.xori %t, %ubv : i32", "%w = arith.muli %u, %ivv : i32", "%y = arith.addi %w, %lbv : i32"]),
              ("acc only", ["%t = arith.addi %acc, %acc : i32", "%y = arith.addi %t, %x : i32"])]
    for lb_src in ("const1", "const2", "arg"):
        for ub in (4, 6):
            for st in (1, 2):
                for _name, body in bodies:
                    pre = []
                    if lb_src == "arg":
                        pre = ["%c3 = arith.constant 3 : i32", "%m = arith.andi %x, %c3 : i32", "%c1 = arith.constant 1 : i32", "%lb32 = arith.addi %m, %c1 : i32",
                               "%lb = arith.index_cast %lb32 : i32 to index"]
                    else:
                        pre = [f"%lb = arith.constant {1 if lb_src == 'const1' else 2} : index"]
                    text = ("func.func @main(%x : i32, %z : i32) -> i32 {\n  " + "\n  ".join(pre) + f"\n  %ub = arith.constant {ub} : index\n  %st = arith.constant {st} : index\n"
                            "  %r = scf.for %i = %lb to %ub step %st iter_args(%acc = %z) -> (i32) {\n"
                            "    %ivv = arith.index_cast %i : index to i32\n    %lbv = arith.index_cast %lb : index to i32\n    %ubv = arith.index_cast %ub : index to i32\n    "
                            + "\n    ".join(body) + "\n    scf.yield %y : i32\n  }\n  func.return %r : i32\n}\n")
                    out.append((text, [32, 32], [32]))
    # nested: the inner lower bound is computed in the outer body and read in the inner body
    for ub2 in (5, 7):
        text = ("func.func @main(%x : i32, %z : i32) -> i32 {\n  %one = arith.constant 1 : index\n  %n = arith.constant 4 : index\n"
                f"  %m = arith.constant {ub2} : index\n"
                "  %r = scf.for %i = %one to %n step %one iter_args(%a = %z) -> (i32) {\n    %c = arith.addi %i, %one : index\n"
                "    %a2 = scf.for %j = %c to %m step %one iter_args(%b = %a) -> (i32) {\n      %jv = arith.index_cast %j : index to i32\n      %cv = arith.index_cast %c : index to i32\n"
                "      %t = arith.subi %jv, %cv : i32\n      %u = arith.muli %t, %jv : i32\n      %y = arith.addi %b, %u : i32\n      scf.yield %y : i32\n    }\n"
                "    scf.yield %a2 : i32\n  }\n  func.return %r : i32\n}\n")
        out.append((text, [32, 32], [32]))
    return out


def carried_overlap_loops() -> list[tuple[str, list[int], list[int]]]:
    """Directed family: two carried variables, the value yielded for the first is computed before the last read of the first
    block argument (the allocator shares one register between a block argument and the value yielded for it)."""
    out = []
    for op1, op2 in (("addi", "muli"), ("subi", "addi"), ("xori", "subi")):
        for n in (2, 3):
            for order in (0, 1):
                body = [f"%y = arith.{op1} %acc, %k : i32", f"%w = arith.{op2} %x, %acc : i32"]
                if order:
                    body = [f"%y = arith.{op1} %x, %acc : i32", f"%w = arith.{op2} %y, %k : i32"]   # control: both arguments are dead before anything is defined
                text = ("func.func @main(%x0 : i32, %k : i32) -> (i32, i32) {\n  %c0 = arith.constant 0 : index\n  %c1 = arith.constant 1 : index\n"
                        f"  %n = arith.constant {n} : index\n"
                        "  %r:2 = scf.for %i = %c0 to %n step %c1 iter_args(%x = %x0, %acc = %k) -> (i32, i32) {\n    "
                        + "\n    ".join(body) + "\n    scf.yield %y, %w : i32, i32\n  }\n  func.return %r#0, %r#1 : i32, i32\n}\n")
                out.append((text, [32, 32], [32, 32]))
    return out


def nested_bound_loops() -> list[tuple[str, list[int], list[int]]]:
    """Directed family: nested loops whose inner bound / step is computed outside the outer loop and used nowhere else in
    the outer body, followed in the outer body by a chain of simultaneously live temporaries (register pressure after
    the inner loop, at least two outer iterations)."""
    out = []
    for which in ("ub", "lb", "step"):
        for ntemps in (3, 5, 8):
            for outer_n in (2, 3):
                lb, ub, st = "%c0", "%k", "%c1"
                if which == "lb":
                    lb, ub = "%k", "%c6"
                elif which == "step":
                    lb, ub, st = "%c0", "%c6", "%k"
                temps = ["%iv = arith.index_cast %i : index to i32", "%t0 = arith.muli %b, %iv : i32", "%t1 = arith.addi %t0, %b : i32"]
                live = ["%t0", "%t1"]
                for t in range(2, ntemps):
                    a, b2 = live[-1], live[-2]
                    temps.append(f"%t{t} = arith.{'xori' if t % 2 else 'addi'} {a}, {b2} : i32")
                    live.append(f"%t{t}")
                acc = live[0]
                fold = []
                for k, v in enumerate(live[1:]):
                    fold.append(f"%s{k} = arith.addi {acc}, {v} : i32")
                    acc = f"%s{k}"
                text = ("func.func @main(%x : i32, %z : i32) -> i32 {\n  %c0 = arith.constant 0 : index\n  %c1 = arith.constant 1 : index\n  %c6 = arith.constant 6 : index\n"
                        f"  %n = arith.constant {outer_n} : index\n  %c3 = arith.constant 3 : i32\n  %one = arith.constant 1 : i32\n"
                        "  %m0 = arith.andi %z, %c3 : i32\n  %m1 = arith.addi %m0, %one : i32\n  %k = arith.index_cast %m1 : i32 to index\n"
                        "  %r = scf.for %i = %c0 to %n step %c1 iter_args(%a = %x) -> (i32) {\n"
                        f"    %b = scf.for %j = {lb} to {ub} step {st} iter_args(%q = %a) -> (i32) {{\n      %jv = arith.index_cast %j : index to i32\n"
                        "      %u = arith.addi %q, %jv : i32\n      scf.yield %u : i32\n    }\n    "
                        + "\n    ".join(temps + fold) + f"\n    scf.yield {acc} : i32\n  }}\n  func.return %r : i32\n}}\n")
                out.append((text, [32, 32], [32]))
    return out


def signed_bound_loops() -> list[tuple[str, list[int], list[int]]]:
    """Directed family: loops whose constant bounds have opposite or negative signs (the loop-entry guard and the back
    edge compare signed), also empty ranges."""
    out = []
    for lb, ub in ((-3, 4), (2, -1), (-5, -2), (-2, -5), (0, 3), (-1, 0), (-2147483648, -2147483646), (2147483645, 2147483647)):
        for st in (1, 2):
            text = (f"func.func @main(%x : i32, %z : i32) -> i32 {{\n  %lb = arith.constant {lb} : index\n  %ub = arith.constant {ub} : index\n  %st = arith.constant {st} : index\n"
                    "  %r = scf.for %i = %lb to %ub step %st iter_args(%acc = %z) -> (i32) {\n    %iv = arith.index_cast %i : index to i32\n"
                    "    %t = arith.muli %acc, %x : i32\n    %y = arith.addi %t, %iv : i32\n    scf.yield %y : i32\n  }\n  func.return %r : i32\n}\n")
            out.append((text, [32, 32], [32]))
    return out


def carried_arg_read_after_next_value_defined(module) -> bool:
    """Does some scf.for read a carried block argument after the operation that defines the value yielded for it?"""
    from xdsl.dialects import scf

    for op in module.walk():
        if not isinstance(op, scf.ForOp):
            continue
        body = op.body.block
        ops = list(body.ops)
        y = ops[-1]
        for j, arg in enumerate(body.args[1:]):
            if j >= len(y.operands):
                break
            d = y.operands[j].owner
            while d is not None and d.parent is not body and not isinstance(d, type(body)):
                d = d.parent_op()
            if d is None or isinstance(d, type(body)) or d not in ops:
                continue
            p = ops.index(d)
            for later in ops[p + 1:]:
                for o in later.walk():
                    if any(v is arg for v in o.operands):
                        return True
    return False


def canon_snippets(rng, n: int) -> list[tuple[str, int]]:
    """riscv_func functions with constants at boundary values for `canonicalize` alone: (text, nargs)."""
    out = []
    consts = [0, 1, -1, 2, -2, 5, 31, 32, 2047, 2048, -2048, -2049, 4095, 65535, 2147483647, -2147483648, 1431655765]
    rr = ["add", "sub", "mul", "and", "or", "xor", "sll", "srl", "sra", "slt", "sltu", "div", "divu", "rem", "remu"]
    ri = ["addi", "andi", "ori", "xori", "slli", "srli", "srai", "slti", "sltiu"]
    for _ in range(n):
        lines = []
        vals = ["%x", "%y"]
        k = 0
        for _s in range(rng.randint(1, 5)):
            k += 1
            r = rng.random()
            if r < 0.35:
                lines.append(f"    %v{k} = rv32.li {rng.choice(consts)} : !riscv.reg")
            elif r < 0.7:
                op = rng.choice(rr)
                lines.append(f"    %v{k} = riscv.{op} {rng.choice(vals)}, {rng.choice(vals)} : (!riscv.reg, !riscv.reg) -> !riscv.reg")
            else:
                op = rng.choice(ri)
                im = rng.choice([0, 1, 5, 31]) if op in ("slli", "srli", "srai") else rng.choice([0, 1, -1, 7, 2047, -2048])
                dialect = "rv32" if op in ("slli", "srli", "srai") else "riscv"
                lines.append(f"    %v{k} = {dialect}.{op} {rng.choice(vals)}, {im} : (!riscv.reg) -> !riscv.reg")
            vals.append(f"%v{k}")
        text = ("riscv_func.func @main(%x0 : !riscv.reg<a0>, %y0 : !riscv.reg<a1>) -> !riscv.reg<a0> {\n"
                "    %x = riscv.mv %x0 : (!riscv.reg<a0>) -> !riscv.reg\n    %y = riscv.mv %y0 : (!riscv.reg<a1>) -> !riscv.reg\n"
                + "\n".join(lines) + f"\n    %r = riscv.mv {vals[-1]} : (!riscv.reg) -> !riscv.reg<a0>\n    riscv_func.return %r : !riscv.reg<a0>\n}}\n")
        out.append((text, 2))
    return out


CONSTS = [0, 1, -1, 2, -2, 5, 31, 32, 2047, 2048, -2048, -2049, 4095, 65535, 2147483647, -2147483648, 1431655765]


def canon_grid() -> list[tuple[str, int]]:
    """Constant-foldable snippets: every R-/I-type op on every pair of boundary constants / constant x immediate."""
    out = []
    head = "riscv_func.func @main(%x0 : !riscv.reg<a0>, %y0 : !riscv.reg<a1>) -> !riscv.reg<a0> {\n"
    tail = "    %r = riscv.mv %v : (!riscv.reg) -> !riscv.reg<a0>\n    riscv_func.return %r : !riscv.reg<a0>\n}\n"
    for op in ["addi", "andi", "ori", "xori", "slli", "srli", "srai", "slti", "sltiu"]:
        shift = op in ("slli", "srli", "srai")
        for c in CONSTS:
            for im in ([0, 1, 5, 31] if shift else [0, 1, -1, 7, 2047, -2048]):
                out.append((head + f"    %c = rv32.li {c} : !riscv.reg\n    %v = {'rv32' if shift else 'riscv'}.{op} %c, {im} : (!riscv.reg) -> !riscv.reg\n" + tail, 2))
    for op in ["add", "sub", "mul", "and", "or", "xor", "sll", "srl", "sra", "slt", "sltu", "div", "divu", "rem", "remu"]:
        for c1 in CONSTS:
            for c2 in CONSTS:
                out.append((head + f"    %c = rv32.li {c1} : !riscv.reg\n    %d = rv32.li {c2} : !riscv.reg\n    %v = riscv.{op} %c, %d : (!riscv.reg, !riscv.reg) -> !riscv.reg\n" + tail, 2))
    return out


def abi_text(rng) -> str:
    sregs = rng.sample(["s0", "s1", "s2", "s3", "s5", "s7", "s10", "s11"], rng.randint(1, 4))
    vals = [("%x", "!riscv.reg"), ("%y", "!riscv.reg")]
    lines = []
    live_s: dict[str, str] = {}
    for k in range(1, rng.randint(3, 8)):
        # an s-register holds one live value at a time here (valid pre-assignment): reuse only after the previous holder's last use
        use_s = rng.random() < 0.55
        rd = "!riscv.reg"
        if use_s:
            free = [r for r in sregs if r not in live_s]
            if free:
                reg = rng.choice(free)
                rd = f"!riscv.reg<{reg}>"
                live_s[reg] = f"%v{k}"
        if rng.random() < 0.25:
            lines.append(f"    %v{k} = rv32.li {rng.choice(CONSTS)} : {rd}")
        else:
            a, b = rng.choice(vals), rng.choice(vals)
            op = rng.choice(["add", "sub", "mul", "xor", "and", "or"])
            lines.append(f"    %v{k} = riscv.{op} {a[0]}, {b[0]} : ({a[1]}, {b[1]}) -> {rd}")
        vals.append((f"%v{k}", rd))
    # fold everything into the result so that all values stay live to the end
    acc = vals[-1]
    n = len(vals)
    for v in vals[2:-1]:
        n += 1
        lines.append(f"    %v{n} = riscv.add {acc[0]}, {v[0]} : ({acc[1]}, {v[1]}) -> !riscv.reg")
        acc = (f"%v{n}", "!riscv.reg")
    return ("riscv_func.func @main(%x0 : !riscv.reg<a0>, %y0 : !riscv.reg<a1>) -> !riscv.reg<a0> {\n"
            "    %x = riscv.mv %x0 : (!riscv.reg<a0>) -> !riscv.reg\n    %y = riscv.mv %y0 : (!riscv.reg<a1>) -> !riscv.reg\n"
            + "\n".join(lines) + f"\n    %r = riscv.mv {acc[0]} : ({acc[1]}) -> !riscv.reg<a0>\n    riscv_func.return %r : !riscv.reg<a0>\n}}\n")


def asm_of_riscv_abi(text: str, prologue: bool) -> str:
    from xdsl.dialects.riscv import riscv_code
    from xdsl.parser import Parser
    from xdsl.transforms import get_all_passes

    c = full_ctx()
    m = Parser(c, text).parse_module()
    m.verify()
    allp = get_all_passes()
    for p in ("riscv-allocate-registers", "riscv-lower-parallel-mov") + (("riscv-prologue-epilogue-insertion",) if prologue else ()):
        allp[p]()().apply(c, m)
    return riscv_code(m)


def asm_of_riscv(text: str, canonicalize: bool) -> str:
    from xdsl.dialects.riscv import riscv_code
    from xdsl.parser import Parser
    from xdsl.transforms import get_all_passes

    c = full_ctx()
    m = Parser(c, text).parse_module()
    m.verify()
    allp = get_all_passes()
    if canonicalize:
        allp["canonicalize"]()().apply(c, m)
        m.verify()
    for p in ("riscv-allocate-registers", "riscv-lower-parallel-mov"):
        allp[p]()().apply(c, m)
    return riscv_code(m)


def run(ctx: Ctx):
    ctx.level = "translation_validation"
    q = ctx.quick
    cases: list[dict[str, Any]] = []
    metas: list[dict[str, Any]] = []
    stats = {"pipeline_raised": 0, "asm_unsupported": 0, "source_unsupported": 0, "canon_raised": 0}
    raised_kinds: dict[str, int] = {}
    directed = bound_reading_loops() + carried_overlap_loops() + nested_bound_loops() + signed_bound_loops()
    for k in range((140 if q else 3000) + len(directed)):
        rng = ctx.rng(f"prog{k}")
        if k < len(directed):
            text, widths, rws = directed[k]
        else:
            text, widths, rws = gen_i32(rng, big=rng.random() < 0.25)
        try:
            src = progs.parse(text)
            src.verify()
            progA = serialize.serialize_module(src, "main")
        except Exception as e:  # noqa: BLE001
            stats["source_unsupported"] += 1
            ctx.diverge("generated program rejected", error=f"{type(e).__name__}: {str(e)[:120]}")
            continue
        try:
            with time_limit(60.0):
                asm = compile_riscv(text)
        except Hang:
            ctx.diverge("pipeline did not return within 60 s", program=text)
            continue
        except Exception as e:  # noqa: BLE001   the property is about programs the pipeline compiles
            stats["pipeline_raised"] += 1
            key = f"{type(e).__name__}: {str(e)[:60]}"
            raised_kinds[key] = raised_kinds.get(key, 0) + 1
            continue
        try:
            code = parse_asm(asm)
        except AsmUnsupported as e:
            stats["asm_unsupported"] += 1
            ctx.diverge("emitted assembly not expressible in RV.tla", reason=str(e))
            continue
        inputs = serialize.input_tuples(widths, rng, 10 if q else 24)
        regs0 = {r: limbs32(0x51000000 + 77 * i) for i, r in enumerate(CALLEE)}
        cases.append({"kind": "compile", "A": progA, "codeA": [], "code": code, "nargs": len(widths), "nres": len(rws), "inputs": inputs, "regs0": regs0})
        metas.append({"kind": "compile", "text": text, "asm": asm, "carried_overlap": carried_arg_read_after_next_value_defined(src),
                      "cmpi_preds": sorted(set(re.findall(r"arith.cmpi (\w+),", text))),
                      "uses_minmax_or_rounding_div": bool(re.search(r"arith\.(minsi|maxsi|minui|maxui|floordivsi|ceildivsi|ceildivui)", text))})
    n_compile = len(cases)
    # (2) canonicalization alone
    crng = ctx.rng("canon")
    grid = canon_grid()
    if q:
        grid = crng.sample(grid, 700)
    for text, nargs in canon_snippets(crng, 150 if q else 3000) + grid:
        try:
            with time_limit(30.0):
                before = asm_of_riscv(text, False)
                after = asm_of_riscv(text, True)
            codeA, codeB = parse_asm(before), parse_asm(after)
        except Hang:
            ctx.diverge("canonicalize did not return within 30 s", program=text)
            continue
        except AsmUnsupported as e:
            stats["asm_unsupported"] += 1
            ctx.diverge("emitted assembly not expressible in RV.tla", reason=str(e))
            continue
        except Exception as e:  # noqa: BLE001
            stats["canon_raised"] += 1
            key = f"canonicalize: {type(e).__name__}: {str(e)[:60]}"
            raised_kinds[key] = raised_kinds.get(key, 0) + 1
            continue
        vals = [0, 1, 0xFFFFFFFF, 0x80000000, 0x7FFFFFFF, 5, 31, 32, 0xFFFFF800]
        inputs = [[limbs32(crng.choice(vals)), limbs32(crng.choice(vals))] for _ in range(6)] + [[limbs32(crng.randrange(1 << 32)), limbs32(crng.randrange(1 << 32))] for _ in range(3)]
        if "%x" not in text.split("{", 1)[1].replace("%x0", ""):
            inputs = inputs[:1]      # constant snippet: the arguments are not read
        regs0 = {r: limbs32(0x51000000 + 77 * i) for i, r in enumerate(CALLEE)}
        cases.append({"kind": "canon", "A": {"funcs": []}, "codeA": codeA, "code": codeB, "nargs": nargs, "nres": 1, "inputs": inputs, "regs0": regs0})
        metas.append({"kind": "canon", "text": text, "asm": after, "asm_before": before, "cmpi_preds": [], "uses_minmax_or_rounding_div": False})
    # (3) prologue / epilogue: riscv-level functions that write callee-saved registers
    n_before_abi = len(cases)
    arng = ctx.rng("abi")
    for k in range(120 if q else 2500):
        text = abi_text(arng)
        try:
            with time_limit(30.0):
                before = asm_of_riscv_abi(text, False)
                after = asm_of_riscv_abi(text, True)
            codeA, codeB = parse_asm(before), parse_asm(after)
        except Hang:
            ctx.diverge("prologue/epilogue pipeline did not return within 30 s", program=text)
            continue
        except AsmUnsupported as e:
            stats["asm_unsupported"] += 1
            ctx.diverge("emitted assembly not expressible in RV.tla", reason=str(e))
            continue
        except Exception as e:  # noqa: BLE001
            key = f"abi: {type(e).__name__}: {str(e)[:60]}"
            raised_kinds[key] = raised_kinds.get(key, 0) + 1
            continue
        vals = [0, 1, 0xFFFFFFFF, 0x80000000, 0x7FFFFFFF, 5]
        inputs = [[limbs32(arng.choice(vals)), limbs32(arng.choice(vals))] for _ in range(3)] + [[limbs32(arng.randrange(1 << 32)), limbs32(arng.randrange(1 << 32))]]
        regs0 = {r: limbs32(0x51000000 + 77 * i) for i, r in enumerate(CALLEE)}
        cases.append({"kind": "abi", "A": {"funcs": []}, "codeA": codeA, "code": codeB, "nargs": 2, "nres": 1, "inputs": inputs, "regs0": regs0})
        metas.append({"kind": "abi", "text": text, "asm": after, "asm_before": before, "cmpi_preds": [], "uses_minmax_or_rounding_div": False})
    n_abi = len(cases) - n_before_abi
    ctx.log(f"{n_compile} compiled programs, {n_before_abi - n_compile} canonicalization snippets, {n_abi} prologue/epilogue functions; {stats}")
    ctx.coverage["pipeline_or_canonicalize_raised_kinds"] = dict(sorted(raised_kinds.items(), key=lambda x: -x[1])[:12])
    res = casecheck.run_cases("riscv/RVCases.tla", cases, min_per_shard=4, timeout=3300, count_ends=lambda c: len(c["inputs"]))
    st: dict[str, int] = {}
    for (_i, _j, sa, sb) in getattr(res, "ends", []):
        st[f"{sa}/{sb}"] = st.get(f"{sa}/{sb}", 0) + 1
    seen = set()
    for idx, tail in res.mismatches:
        clause, j = tail[0], int(tail[1])
        if (idx, clause) in seen:
            continue
        seen.add((idx, clause))
        m = metas[idx]
        inp = [serialize.from_limbs(l) for l in cases[idx]["inputs"][j - 1]]
        if m["kind"] == "abi":
            what = f"riscv-prologue-epilogue-insertion on a0/a1 = {inp}: {clause}\n--- function\n{m['text']}\n--- assembly before\n{m['asm_before']}\n--- after\n{m['asm']}"
        elif m["kind"] == "compile":
            what = f"RISC-V pipeline output differs from the source on input {inp}: {clause}\n--- source\n{m['text']}\n--- assembly\n{m['asm']}"
        else:
            what = f"riscv canonicalize changes the code's result on a0/a1 = {inp}: {clause}\n--- snippet\n{m['text']}\n--- assembly before\n{m['asm_before']}\n--- after\n{m['asm']}"
        bad_preds = sorted(set(m["cmpi_preds"]) & {"sle", "sgt", "sge", "ult", "ugt", "uge"})
        ctx.violate(what, {"clause": clause.split(":")[0], "kind": m["kind"], "input": inp, "program": m["text"], "asm": m["asm"],
                           "uses_mislowered_cmpi_predicate": bool(bad_preds), "cmpi_preds": m["cmpi_preds"],
                           "uses_minmax_or_rounding_div": m["uses_minmax_or_rounding_div"],
                           "carried_arg_read_after_next_value_defined": bool(m.get("carried_overlap"))}, clause=clause.split(":")[0])
    ctx.coverage["compiled_programs_using_callee_saved_registers"] = sum(1 for m in metas if m["kind"] == "compile" and re.search(r"\bs(\d|1[01])\b", m["asm"]))
    ctx.coverage["compiled_programs_with_stack_frame"] = sum(1 for m in metas if m["kind"] == "compile" and re.search(r"\b(sw|lw)\b", m["asm"]))
    ctx.coverage["compiled_programs_with_loops"] = sum(1 for m in metas if m["kind"] == "compile" and re.search(r"\bb(lt|ge|ne|eq)\b", m["asm"]))
    ctx.coverage.update({"evaluations": sum(len(c["inputs"]) for c in cases), "distinct_nontrivial": len(cases), "compiled_programs": n_compile,
                         "canonicalization_snippets": n_before_abi - n_compile, "prologue_epilogue_functions": n_abi,
                         "prologue_epilogue_functions_with_stack_frame": sum(1 for m in metas if m["kind"] == "abi" and re.search(r"\bsw\b", m["asm"])), "outcomes": stats, "run_status_source/target": st, "machine_states": res.states,
                         "rule": "generated i32 programs (1-4 arguments; arith incl. division/shift/min/max with boundary constants, all ten cmpi predicates feeding scf.if, scf.for with "
                                 "iter_args; a quarter with >= 10 simultaneously live values) through the documented pipeline; generated riscv snippets (li with 12-/32-bit boundary constants, "
                                 "R- and I-type ops) before/after canonicalize; inputs: boundary and random 32-bit tuples"})
    if metas:
        ctx.sample({"program": metas[0]["text"], "assembly": metas[0]["asm"]})
    ctx.assumptions += ["RV.tla is the RV32IM semantics; Machine.tla the source semantics (index is 64-bit there: loop bounds are small constants)",
                        "integer only; programs the pipeline refuses (exception) are outside the property ('a program that the pipeline compiles')",
                        "source runs that are undefined (division by zero, INT_MIN/-1, shift >= 32) put no obligation on the target"]
