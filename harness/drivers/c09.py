"""C09: IRDL attribute constraints accept exactly what they describe.

Model: spec/irdl/Constraints.tla - set semantics with variable contexts.  Binding: abstract constraint trees
are generated; each is built for real several ways (raw dataclasses, the simplifying constructors AnyOf.get /
`|` / `&` / ParamAttrConstraint.get / AttrSetConstraint.get, and - where expressible - as a type hint through
irdl_to_attr_constraint, compared with isa()); verifies() is evaluated on a universe of builtin attributes and
TLC compares every verdict with Accepts; wherever can_infer() says yes the inferred attribute must satisfy
the constraint (TLC: AcceptsIn)."""

from __future__ import annotations

from typing import Any

from .. import casecheck
from ..core import Ctx

UNBOUND = {"cls": "<unbound>", "bases": [], "ps": [], "val": ""}


def universe():
    from xdsl.dialects.builtin import (ArrayAttr, Float32Type, FunctionType, IndexType, IntAttr, IntegerAttr, IntegerType, Signedness, SignednessAttr, StringAttr,
                                       i32, i64)

    u = [IntAttr(0), IntAttr(1), IntAttr(32), StringAttr("x"), StringAttr(""), i32, i64, IntegerType(1), IndexType(), Float32Type(),
         IntegerAttr(0, i32), IntegerAttr(1, i32), IntegerAttr(0, i64), IntegerAttr(0, IndexType()), IntegerAttr(-1, i32),
         ArrayAttr([]), ArrayAttr([i32]), SignednessAttr(Signedness.SIGNLESS),
         FunctionType.from_lists([], []), FunctionType.from_lists([], [i32]), FunctionType.from_lists([i32], [i32]), FunctionType.from_lists([i32], [])]
    return u


def ser(a) -> dict[str, Any]:
    from xdsl.ir import Data, ParametrizedAttribute

    bases = [k.__name__ for k in type(a).__mro__ if k.__name__ not in ("object", "ABC", "Generic")]
    if isinstance(a, ParametrizedAttribute):
        return {"cls": type(a).__name__, "bases": bases, "ps": [ser(p) for p in a.parameters], "val": ""}
    return {"cls": type(a).__name__, "bases": bases, "ps": [], "val": repr(getattr(a, "data", a))}


def gen_tree(rng, depth: int, U, allow_var: bool = True):
    from xdsl.dialects.builtin import IndexType, IntAttr, IntegerAttr, IntegerType, StringAttr

    r = rng.random()
    if depth == 0 or r < 0.3:
        k = rng.choice(["any", "base", "base", "eq", "eq", "set"])
        if k == "any":
            return ["any"]
        if k == "base":
            return ["base", rng.choice(["IntAttr", "StringAttr", "IntegerType", "IndexType", "IntegerAttr", "ArrayAttr", "FunctionType", "TypeAttribute", "ParametrizedAttribute", "Data"])]
        if k == "eq":
            return ["eq", rng.randrange(len(U))]
        return ["set", sorted(rng.sample(range(len(U)), rng.randint(1, 3)))]
    k = rng.choice(["anyof", "anyof", "anyof_params", "allof", "param", "param", "var" if allow_var else "anyof"])
    if k == "anyof_params":
        # alternatives over ONE parametrized class: exercises the merging of unions (relax_constraint)
        cls = rng.choice(["IntegerAttr", "IntegerAttr", "FunctionType"])
        def leaf():
            kk = rng.choice(["any", "any", "eq", "base", "set"])
            if kk == "any":
                return ["any"]
            if kk == "eq":
                return ["eq", rng.randrange(len(U))]
            if kk == "base":
                return ["base", rng.choice(["IntAttr", "IntegerType", "IndexType", "ArrayAttr", "TypeAttribute"])]
            return ["set", sorted(rng.sample(range(len(U)), 2))]
        return ["anyof", [["param", cls, [leaf(), leaf()]] for _ in range(rng.randint(2, 3))]]
    if k == "anyof":
        return ["anyof", [gen_tree(rng, depth - 1, U, allow_var) for _ in range(rng.randint(2, 3))]]
    if k == "allof":
        return ["allof", [gen_tree(rng, depth - 1, U, allow_var) for _ in range(2)]]
    if k == "param":
        cls = rng.choice(["IntegerAttr", "IntegerAttr", "IntegerType", "FunctionType", "FunctionType"])
        if cls == "FunctionType" and allow_var and rng.random() < 0.5:
            # the same variable on both parameters: all occurrences must be equal
            v = rng.choice(["T", "U"])
            return ["param", cls, [["var", v, gen_tree(rng, max(0, depth - 2), U, False)], ["var", v, ["any"]]]]
        return ["param", cls, [gen_tree(rng, depth - 1, U, allow_var) for _ in range(2)]]
    return ["var", rng.choice(["T", "T", "U"]), gen_tree(rng, depth - 1, U, allow_var)]


CLASSES: dict[str, Any] = {}


def classes():
    if not CLASSES:
        from xdsl.dialects import builtin as B
        from xdsl.ir import Data, ParametrizedAttribute, TypeAttribute

        CLASSES.update({"IntAttr": B.IntAttr, "StringAttr": B.StringAttr, "IntegerType": B.IntegerType, "IndexType": B.IndexType, "IntegerAttr": B.IntegerAttr,
                        "ArrayAttr": B.ArrayAttr, "FunctionType": B.FunctionType, "TypeAttribute": TypeAttribute, "ParametrizedAttribute": ParametrizedAttribute, "Data": Data})
    return CLASSES


def build(t, U, mode: str):
    """mode 'raw': dataclass constructors; 'get': simplifying constructors; 'ops': | and & operators."""
    from xdsl.irdl import AllOf, AnyAttr, AnyOf, AttrSetConstraint, BaseAttr, EqAttrConstraint, ParamAttrConstraint, VarConstraint

    C = classes()
    k = t[0]
    if k == "any":
        return AnyAttr()
    if k == "base":
        return BaseAttr(C[t[1]])
    if k == "eq":
        return EqAttrConstraint(U[t[1]])
    if k == "set":
        vals = [U[i] for i in t[1]]
        return AttrSetConstraint(frozenset(vals)) if mode == "raw" else AttrSetConstraint.get(*vals)
    if k in ("anyof", "allof"):
        subs = [build(s, U, mode) for s in t[1]]
        if k == "anyof":
            if mode == "raw":
                return AnyOf(tuple(subs))
            if mode == "get":
                return AnyOf.get(*subs)
            acc = subs[0]
            for s in subs[1:]:
                acc = acc | s
            return acc
        if mode == "ops":
            acc = subs[0]
            for s in subs[1:]:
                acc = acc & s
            return acc
        return AllOf(tuple(subs))
    if k == "param":
        subs = [build(s, U, mode) for s in t[2]]
        return ParamAttrConstraint(C[t[1]], tuple(subs)) if mode == "raw" else ParamAttrConstraint.get(C[t[1]], *subs)
    if k == "var":
        inner = build(t[2], U, mode)
        return VarConstraint(t[1], inner)
    raise ValueError(k)


def tree_json(t, U):
    k = t[0]
    if k == "eq":
        return ["eq", ser(U[t[1]])]
    if k == "set":
        return ["set", [ser(U[i]) for i in t[1]]]
    if k in ("anyof", "allof"):
        return [k, [tree_json(s, U) for s in t[1]]]
    if k == "param":
        return ["param", t[1], [tree_json(s, U) for s in t[2]]]
    if k == "var":
        return ["var", t[1], tree_json(t[2], U)]
    return list(t)


def run(ctx: Ctx):
    from xdsl.irdl import ConstraintContext
    from xdsl.utils.exceptions import PyRDLError, VerifyException

    ctx.level = "exploration"
    rng = ctx.rng("trees")
    U = universe()
    US = [ser(a) for a in U]
    cases: list[dict[str, Any]] = []
    metas: list[dict[str, Any]] = []
    n = 600 if ctx.quick else 12000
    nforms = ninfer = refused = 0
    while len(cases) < n:
        t = gen_tree(rng, rng.choice([1, 2, 2, 3]), U)
        forms = []
        built: dict[str, Any] = {}
        for mode in ("raw", "get", "ops"):
            try:
                c = build(t, U, mode)
            except (PyRDLError, TypeError, ValueError, VerifyException):
                refused += 1
                continue
            got = []
            ok = True
            for a in U:
                try:
                    c.verify(a, ConstraintContext())
                    got.append(1)
                except VerifyException:
                    got.append(0)
                except Exception as e:  # noqa: BLE001
                    ctx.diverge("verify escaped with an internal error", error=f"{type(e).__name__}: {str(e)[:80]}", tree=t)
                    ok = False
                    break
            if ok:
                forms.append({"name": mode, "got": got})
                built[mode] = c
        if not forms:
            continue
        infers = []
        for mode, c in built.items():
            for bound in ([], ["T"], ["T", "U"]):
                try:
                    if not c.can_infer(set(bound)):
                        continue
                    cctx = ConstraintContext()
                    cj = {"T": UNBOUND, "U": UNBOUND}
                    for v in bound:
                        val = rng.choice(U)
                        cctx.set_attr_variable(v, val)
                        cj[v] = ser(val)
                    a = c.infer(cctx)
                    infers.append({"ctx": cj, "a": ser(a), "form": mode})
                    ninfer += 1
                except Exception as e:  # noqa: BLE001  can_infer said yes but infer raised
                    ctx.diverge("can_infer() is True but infer() raised", error=f"{type(e).__name__}: {str(e)[:80]}", tree=t, bound=bound)
        nforms += len(forms)
        cases.append({"c": tree_json(t, U), "attrs": US, "forms": forms, "infers": [{"ctx": i["ctx"], "a": i["a"]} for i in infers]})
        metas.append({"tree": t, "forms": [f["name"] for f in forms], "infer_forms": [i["form"] for i in infers]})
    n_hint = hint_cases(ctx, rng, U, US, cases, metas)
    ctx.log(f"{len(cases)} constraint trees, {nforms} real constructions ({refused} refused by the library), {ninfer} inferences, {n_hint} type hints")
    res = casecheck.run_cases("irdl/ConstraintCases.tla", cases, min_per_shard=30)
    seen = set()
    for idx, tail in res.mismatches:
        clause, f, j = tail
        m = metas[idx]
        key = (idx, clause, f)
        if key in seen:
            continue
        seen.add(key)
        form = m["forms"][f - 1] if clause != "InferredAttributeSatisfiesConstraint" else m["infer_forms"][f - 1]
        attr = repr(U[j - 1]) if j else ""
        ctx.violate(f"{clause}: constraint {m['tree']} built as '{form}' on attribute {attr}",
                    {"clause": clause, "form": form, "tree": m["tree"], "attr": attr, "hint": m.get("hint", ""),
                     "contains_allof": "'allof'" in repr(m["tree"])}, clause=clause)
    ctx.coverage.update({"evaluations": nforms * len(U) + ninfer, "distinct_nontrivial": nforms, "trees": len(cases), "universe": len(U), "inferences": ninfer,
                         "type_hints": n_hint, "constructions_refused_by_library": refused, "judge_states": res.states,
                         "rule": "seeded constraint trees of depth <=3 over any/base/eq/set/anyof/allof/param/var x 3 constructions (raw, .get, operators) x "
                                 "18 builtin attributes; infer() wherever can_infer(); type hints vs isa(); non-trivial = each (tree, construction)"})
    ctx.sample({"tree": metas[0]["tree"], "forms": metas[0]["forms"]})
    ctx.assumptions += ["Constraints.tla is the property's set semantics; attribute equality is Python ==, serialised structurally (class, parameters, payload)"]


def hint_cases(ctx: Ctx, rng, U, US, cases, metas) -> int:
    """A constraint derived from a type hint agrees with isa() and with the model of the hint."""
    from xdsl.dialects.builtin import IndexType, IntAttr, IntegerAttr, IntegerType, StringAttr
    from xdsl.irdl import ConstraintContext, irdl_to_attr_constraint
    from xdsl.utils.exceptions import VerifyException
    from xdsl.utils.hints import isa

    hints = [
        (IntAttr, ["base", "IntAttr"]), (StringAttr, ["base", "StringAttr"]), (IntegerType, ["base", "IntegerType"]),
        (IntAttr | StringAttr, ["anyof", [["base", "IntAttr"], ["base", "StringAttr"]]]),
        (IntegerType | IndexType, ["anyof", [["base", "IntegerType"], ["base", "IndexType"]]]),
        (IntegerAttr[IntegerType], ["param", "IntegerAttr", [["any"], ["base", "IntegerType"]]]),
        (IntegerAttr[IndexType], ["param", "IntegerAttr", [["any"], ["base", "IndexType"]]]),
        (IntegerAttr[IntegerType | IndexType], ["param", "IntegerAttr", [["any"], ["anyof", [["base", "IntegerType"], ["base", "IndexType"]]]]]),
        (IntegerAttr[IntegerType] | StringAttr, ["anyof", [["param", "IntegerAttr", [["any"], ["base", "IntegerType"]]], ["base", "StringAttr"]]]),
    ]
    n = 0
    for hint, tree in hints:
        try:
            c = irdl_to_attr_constraint(hint)
        except Exception as e:  # noqa: BLE001
            ctx.diverge("irdl_to_attr_constraint raised on a type hint", hint=str(hint), error=str(e)[:80])
            continue
        got_c, got_isa = [], []
        for a in U:
            try:
                c.verify(a, ConstraintContext())
                got_c.append(1)
            except VerifyException:
                got_c.append(0)
            got_isa.append(1 if isa(a, hint) else 0)
        cases.append({"c": tree, "attrs": US, "forms": [{"name": "irdl_to_attr_constraint(hint)", "got": got_c}, {"name": "isa(hint)", "got": got_isa}], "infers": []})
        metas.append({"tree": tree, "forms": ["irdl_to_attr_constraint(hint)", "isa(hint)"], "infer_forms": [], "hint": str(hint)})
        n += 1
    return n
