"""C23: the LLVM backend emits valid LLVM IR with the source semantics.

Model: spec/sem/Machine.tla extended with the llvm dialect (LLVMEval: integer binary ops with nsw / nuw / exact / disjoint
flags as poison = no obligation, icmp, casts with nneg / nsw / nuw, select, br / cond_br with block arguments, alloca / load /
store on a cell heap).  Binding C2S: generated llvm-dialect functions are translated by the REAL xdsl.backend.llvm
convert_module, the IR text is parsed and verified by LLVM (llvmlite; a rejection is a violation), JIT-compiled (MCJIT) and
called natively on boundary / random inputs; TLC runs the same function under Machine.tla on the same inputs and judges
the native results (MachineCases.tla, kind "run")."""

from __future__ import annotations

import ctypes
from typing import Any

from .. import casecheck, serialize
from ..core import Ctx, Hang, time_limit

WIDTHS = [8, 16, 32, 64]
BIN = ["add", "sub", "mul", "udiv", "sdiv", "urem", "srem", "shl", "lshr", "ashr", "and", "or", "xor"]
PREDS = ["eq", "ne", "slt", "sle", "sgt", "sge", "ult", "ule", "ugt", "uge"]
FLAG_BITS = {"nsw": 1, "nuw": 2, "exact": 4, "disjoint": 8, "nneg": 16}


class Gen:
    def __init__(self, rng):
        self.rng = rng
        self.lines: list[str] = []
        self.n = 0

    def fresh(self, p="v"):
        self.n += 1
        return f"%{p}{self.n}"

    def emit(self, ln):
        self.lines.append("    " + ln)

    def const(self, w, c=None):
        v = self.fresh("c")
        if c is None:
            c = self.rng.choice([0, 1, -1, 2, 3, 7, (1 << (w - 1)) - 1, -(1 << (w - 1)), self.rng.randrange(-(1 << (w - 1)), 1 << (w - 1))])
        if w == 1:
            c = c & 1
        self.emit(f"{v} = llvm.mlir.constant({c} : i{w}) : i{w}")
        return v

    def value(self, pool: dict[int, list[str]], w: int) -> str:
        """a value of width w: existing, constant, or a cast of another width"""
        cands = pool.get(w, [])
        r = self.rng.random()
        if cands and r < 0.7:
            return self.rng.choice(cands)
        others = [x for x in pool if x != w and pool[x]]
        if others and r < 0.85:
            ow = self.rng.choice(others)
            src = self.rng.choice(pool[ow])
            v = self.fresh()
            if ow < w:
                kind = self.rng.choice(["zext", "sext", "zext", "sext", "zext nneg"]) if ow > 1 else self.rng.choice(["zext", "sext"])
                self.emit(f"{v} = llvm.{kind} {src} : i{ow} to i{w}")
            else:
                fl = self.rng.choice(["", "", "", "", "", " overflow<nsw>", " overflow<nuw>", " overflow<nsw, nuw>"])
                self.emit(f"{v} = llvm.trunc {src}{fl} : i{ow} to i{w}")
            pool.setdefault(w, []).append(v)
            return v
        return self.const(w)

    def stmt(self, pool: dict[int, list[str]]):
        rng = self.rng
        w = rng.choice(WIDTHS)
        r = rng.random()
        if r < 0.55:
            op = rng.choice(BIN)
            a, b = self.value(pool, w), self.value(pool, w)
            if op in ("shl", "lshr", "ashr") and rng.random() < 0.8:
                b = self.const(w, rng.choice([0, 1, 2, w - 1, w // 2]))
            if op in ("udiv", "sdiv", "urem", "srem") and rng.random() < 0.75:
                b = self.const(w, rng.choice([1, 2, 3, -1, 7, (1 << (w - 1)) - 1, -(1 << (w - 1))]))
            v = self.fresh()
            pre = suf = ""
            if op in ("add", "sub", "mul", "shl") and rng.random() < 0.2:
                suf = " overflow<" + rng.choice(["nsw", "nuw", "nsw, nuw"]) + ">"
            elif op in ("udiv", "sdiv", "lshr", "ashr") and rng.random() < 0.15:
                pre = " exact"
            elif op == "or" and rng.random() < 0.2:
                pre = " disjoint"
            self.emit(f"{v} = llvm.{op}{pre} {a}, {b}{suf} : i{w}")
            pool.setdefault(w, []).append(v)
        elif r < 0.75:
            a, b = self.value(pool, w), self.value(pool, w)
            v = self.fresh("b")
            self.emit(f'{v} = llvm.icmp "{rng.choice(PREDS)}" {a}, {b} : i{w}')
            pool.setdefault(1, []).append(v)
        elif r < 0.88:
            c = self.value(pool, 1)
            a, b = self.value(pool, w), self.value(pool, w)
            v = self.fresh()
            self.emit(f"{v} = llvm.select {c}, {a}, {b} : i1, i{w}")
            pool.setdefault(w, []).append(v)
        else:
            # a stack slot written and read back (sometimes overwritten first)
            one = self.const(32, 1)
            if rng.random() < 0.5:      # the element count is computed in the current block (not a constant, not an argument)
                z = self.const(32, 0)
                cnt = self.fresh("n")
                self.emit(f"{cnt} = llvm.add {z}, {one} : i32")
                one = cnt
            p = self.fresh("p")
            self.emit(f"{p} = llvm.alloca {one} x i{w} : (i32) -> !llvm.ptr")
            self.emit(f"llvm.store {self.value(pool, w)}, {p} : i{w}, !llvm.ptr")
            if rng.random() < 0.4:
                self.emit(f"llvm.store {self.value(pool, w)}, {p} : i{w}, !llvm.ptr")
            v = self.fresh()
            self.emit(f"{v} = llvm.load {p} : !llvm.ptr -> i{w}")
            pool.setdefault(w, []).append(v)


def gen_function(rng) -> tuple[str, list[int], int]:
    """-> (module text, argument widths, result width).  Straight-line, diamond (cond_br + block arguments) or loop shape."""
    g = Gen(rng)
    nargs = rng.randint(1, 3)
    aw = [rng.choice(WIDTHS) for _ in range(nargs)]
    pool: dict[int, list[str]] = {}
    for i, w in enumerate(aw):
        pool.setdefault(w, []).append(f"%a{i}")
    rw = rng.choice(WIDTHS)
    shape = rng.choice(["straight", "straight", "diamond", "diamond", "loop"])
    for _ in range(rng.randint(1, 5)):
        g.stmt(pool)
    if shape == "straight":
        ret = g.value(pool, rw)
        g.emit(f"llvm.return {ret} : i{rw}")
    elif shape == "diamond":
        c = g.value(pool, 1)
        w1 = rng.choice(WIDTHS)
        x, y = g.value(pool, w1), g.value(pool, w1)
        # the join block takes 1-3 arguments; only %j is certainly used, the others may stay unused, in any position
        extra = [rng.choice(WIDTHS) for _ in range(rng.choice([0, 0, 1, 2]))]
        jpos = rng.randint(0, len(extra))
        jtypes = extra[:jpos] + [rw] + extra[jpos:]
        jnames = [f"%e{k}" for k in range(len(extra))]
        jnames = jnames[:jpos] + ["%j"] + jnames[jpos:]

        def jargs(p):
            vals = [g.value(p, w) for w in jtypes]
            return "(" + ", ".join(vals) + " : " + ", ".join(f"i{w}" for w in jtypes) + ")"

        if rng.random() < 0.5:
            g.emit(f"llvm.cond_br {c}, ^bb1({x} : i{w1}), ^bb2({y} : i{w1})")
            g.lines.append(f"  ^bb1(%t1: i{w1}):")
            p1 = {k: list(v) for k, v in pool.items()}
            p1.setdefault(w1, []).append("%t1")
            for _ in range(rng.randint(0, 2)):
                g.stmt(p1)
            g.emit(f"llvm.br ^bb3{jargs(p1)}")
            g.lines.append(f"  ^bb2(%t2: i{w1}):")
            p2 = {k: list(v) for k, v in pool.items()}
            p2.setdefault(w1, []).append("%t2")
            for _ in range(rng.randint(0, 2)):
                g.stmt(p2)
            g.emit(f"llvm.br ^bb3{jargs(p2)}")
        else:   # both edges go to the same join block with different arguments
            g.emit(f"llvm.cond_br {c}, ^bb3{jargs(pool)}, ^bb3{jargs(pool)}")
        g.lines.append("  ^bb3(" + ", ".join(f"{n}: i{w}" for n, w in zip(jnames, jtypes)) + "):")
        pj = {k: list(v) for k, v in pool.items()}
        pj.setdefault(rw, []).append("%j")
        for n, w in zip(jnames, jtypes):
            if n != "%j" and rng.random() < 0.5:
                pj.setdefault(w, []).append(n)
        for _ in range(rng.randint(0, 2)):
            g.stmt(pj)
        g.emit(f"llvm.return {g.value(pj, rw)} : i{rw}")
    else:
        # counted loop: header with two block arguments (counter, accumulator)
        n = g.const(8, rng.choice([0, 1, 3, 5]))
        zero, one = g.const(8, 0), g.const(8, 1)
        acc0 = g.value(pool, rw)
        slots = rng.random() < 0.4        # each iteration gets its own stack slot; the previous one is still read
        if slots:
            c1 = g.const(32, 1)
            g.emit(f"%slot0 = llvm.alloca {c1} x i{rw} : (i32) -> !llvm.ptr")
            g.emit(f"llvm.store {acc0}, %slot0 : i{rw}, !llvm.ptr")
            g.emit(f"llvm.br ^hdr({zero}, {acc0}, %slot0 : i8, i{rw}, !llvm.ptr)")
            g.lines.append(f"  ^hdr(%i: i8, %acc: i{rw}, %prev: !llvm.ptr):")
        else:
            g.emit(f"llvm.br ^hdr({zero}, {acc0} : i8, i{rw})")
            g.lines.append(f"  ^hdr(%i: i8, %acc: i{rw}):")
        g.emit(f'%more = llvm.icmp "ult" %i, {n} : i8')
        g.emit(f"llvm.cond_br %more, ^body, ^exit(%acc : i{rw})")
        g.lines.append("  ^body:")
        pb = {k: list(v) for k, v in pool.items()}
        pb.setdefault(rw, []).append("%acc")
        pb.setdefault(8, []).append("%i")
        if slots:
            c1b = g.const(32, 1)
            g.emit(f"%slot = llvm.alloca {c1b} x i{rw} : (i32) -> !llvm.ptr")
        for _ in range(rng.randint(1, 3)):
            g.stmt(pb)
        g.emit(f"%inext = llvm.add %i, {one} : i8")
        if slots:
            g.emit(f"llvm.store {g.value(pb, rw)}, %slot : i{rw}, !llvm.ptr")
            g.emit(f"%old = llvm.load %prev : !llvm.ptr -> i{rw}")
            g.emit(f"%mix = llvm.{rng.choice(['add', 'xor', 'sub'])} %old, {g.value(pb, rw)} : i{rw}")
            g.emit(f"llvm.br ^hdr(%inext, %mix, %slot : i8, i{rw}, !llvm.ptr)")
        else:
            g.emit(f"llvm.br ^hdr(%inext, {g.value(pb, rw)} : i8, i{rw})")
        g.lines.append(f"  ^exit(%res: i{rw}):")
        g.emit(f"llvm.return %res : i{rw}")
    sig = ", ".join(f"%a{i}: i{w}" for i, w in enumerate(aw))
    text = f"builtin.module {{\n  llvm.func @main({sig}) -> i{rw} {{\n" + "\n".join(g.lines) + "\n  }\n}\n"
    return text, aw, rw


def parse_llvm(text: str):
    from xdsl.context import Context
    from xdsl.dialects import builtin, llvm
    from xdsl.parser import Parser

    c = Context()
    c.load_dialect(builtin.Builtin)
    c.load_dialect(llvm.LLVM)
    m = Parser(c, text).parse_module()
    m.verify()
    return m


def serialize_llvm(module) -> dict[str, Any]:
    """llvm.func @main -> Machine.tla program."""
    from xdsl.dialects import llvm
    from xdsl.dialects.builtin import IntegerAttr, IntegerType

    f = next(o for o in module.body.block.ops if isinstance(o, llvm.FuncOp))
    vid: dict[int, int] = {}
    bid: dict[int, int] = {}

    def V(v) -> int:
        return vid.setdefault(id(v), len(vid) + 1)

    blocks = list(f.body.blocks)
    for k, b in enumerate(blocks):
        bid[id(b)] = k + 1
        for a in b.args:
            V(a)

    def width(t) -> int:
        if isinstance(t, IntegerType):
            return t.width.data
        raise serialize.Unsupported(f"type {t}")

    def base(o, **kw):
        d = {"op": o.name, "a": [V(x) for x in o.operands], "r": [V(x) for x in o.results], "w": 0, "sw": 0, "p": 0, "k": [], "succ": [],
             "regs": [], "callee": 0, "name": ""}
        d.update(kw)
        return d

    def flags(o) -> int:
        p = 0
        of = getattr(o, "overflowFlags", None)
        if of is not None:
            fls = llvm.OverflowAttr.from_int(of.value.data).data if hasattr(of, "value") else of.data
            for fl in fls:
                p |= FLAG_BITS[fl.value]
        if getattr(o, "is_exact", None) is not None:
            p |= 4
        if getattr(o, "is_disjoint", None) is not None:
            p |= 8
        if getattr(o, "non_neg", None) is not None:
            p |= 16
        return p

    def ser(o):
        n = o.name
        if n == "llvm.mlir.constant":
            if not isinstance(o.value, IntegerAttr):
                raise serialize.Unsupported("constant")
            w = width(o.results[0].type)
            return base(o, w=w, k=serialize.limbs(o.value.value.data, w))
        if n in ("llvm.add", "llvm.sub", "llvm.mul", "llvm.udiv", "llvm.sdiv", "llvm.urem", "llvm.srem", "llvm.shl", "llvm.lshr", "llvm.ashr",
                 "llvm.and", "llvm.or", "llvm.xor"):
            w = width(o.results[0].type)
            return base(o, w=w, sw=w, p=flags(o))
        if n == "llvm.icmp":
            return base(o, w=1, sw=width(o.operands[0].type), p=o.predicate.value.data)
        if n == "llvm.select":
            return base(o, w=width(o.results[0].type), sw=1)
        if n in ("llvm.zext", "llvm.sext", "llvm.trunc"):
            return base(o, w=width(o.results[0].type), sw=width(o.operands[0].type), p=flags(o))
        if n == "llvm.br":
            return base(o, op="cf.br", a=[], succ=[{"b": bid[id(o.successor)], "args": [V(x) for x in o.arguments]}])
        if n == "llvm.cond_br":
            return base(o, op="cf.cond_br", a=[V(o.cond)], succ=[{"b": bid[id(o.then_block)], "args": [V(x) for x in o.then_arguments]},
                                                                 {"b": bid[id(o.else_block)], "args": [V(x) for x in o.else_arguments]}])
        if n == "llvm.return":
            return base(o, op="func.return")
        if n == "llvm.alloca":
            return base(o, a=[])
        if n == "llvm.store":
            return base(o)
        if n == "llvm.load":
            return base(o, w=width(o.results[0].type))
        raise serialize.Unsupported(n)

    fn = {"args": [V(a) for a in blocks[0].args], "blocks": [{"args": [V(a) for a in b.args], "ops": [ser(o) for o in b.ops]} for b in blocks], "nvals": 1}
    fn["nvals"] = max(1, len(vid))
    return {"funcs": [fn]}


_CT = {1: ctypes.c_bool, 8: ctypes.c_uint8, 16: ctypes.c_uint16, 32: ctypes.c_uint32, 64: ctypes.c_uint64}


def compile_and_run(module, aw: list[int], rw: int, inputs) -> tuple[str, Any]:
    """-> ("rejected", msg) | ("raised", msg) | ("ok", [results as ints])"""
    import llvmlite.binding as llvm

    from xdsl.backend.llvm.convert import convert_module

    try:
        ir_text = str(convert_module(module, fallback_target_triple=None))
    except Exception as e:  # noqa: BLE001   "every valid module that the backend translates": a refusal is outside the property
        return "raised", f"{type(e).__name__}: {str(e)[:160]}"
    try:
        mod = llvm.parse_assembly(ir_text)
        mod.verify()
    except Exception as e:  # noqa: BLE001
        return "rejected", f"{str(e)[:300]}\n{ir_text[:1500]}"
    tm = llvm.Target.from_default_triple().create_target_machine()
    engine = llvm.create_mcjit_compiler(mod, tm)
    engine.finalize_object()
    addr = engine.get_function_address("main")
    fn = ctypes.CFUNCTYPE(_CT[rw], *[_CT[w] for w in aw])(addr)
    return "ok", (run_native(fn, inputs, rw), ir_text, engine)


def run_native(fn, inputs, rw: int) -> list[int | None]:
    """Call the JIT-compiled function on every input in a forked child (a source with undefined behaviour may trap, e.g. SIGFPE
    on division by zero); None = the call did not return normally."""
    import os

    out: list[int | None] = []
    k = 0
    while k < len(inputs):
        rfd, wfd = os.pipe()
        pid = os.fork()
        if pid == 0:
            os.close(rfd)
            try:
                with os.fdopen(wfd, "w") as w:
                    for inp in inputs[k:]:
                        args = [serialize.from_limbs(l) for l in inp]
                        w.write(f"{int(fn(*args)) & ((1 << rw) - 1)}\n")
                        w.flush()
            finally:
                os._exit(0)
        os.close(wfd)
        with os.fdopen(rfd) as r:
            got = [int(x) for x in r.read().split()]
        os.waitpid(pid, 0)
        out.extend(got)
        k += len(got)
        if k < len(inputs):      # the child died on input k
            out.append(None)
            k += 1
    return out


_LLVM_READY = [False]


def run(ctx: Ctx):
    import llvmlite.binding as llvm

    ctx.level = "exploration"
    q = ctx.quick
    if not _LLVM_READY[0]:
        try:
            llvm.initialize()
        except Exception:  # noqa: BLE001   newer llvmlite initialises itself
            pass
        llvm.initialize_native_target()
        llvm.initialize_native_asmprinter()
        _LLVM_READY[0] = True
    cases: list[dict[str, Any]] = []
    metas: list[dict[str, Any]] = []
    keep = []
    stats = {"generated_rejected_by_xdsl": 0, "backend_refused": 0, "unsupported_by_model": 0}
    for k in range(250 if q else 6000):
        rng = ctx.rng(f"fn{k}")
        text, aw, rw = gen_function(rng)
        try:
            m = parse_llvm(text)
            prog = serialize_llvm(m)
        except serialize.Unsupported as e:
            stats["unsupported_by_model"] += 1
            ctx.diverge("function not expressible in Machine.tla", reason=str(e))
            continue
        except Exception as e:  # noqa: BLE001
            stats["generated_rejected_by_xdsl"] += 1
            ctx.diverge("generated llvm-dialect function rejected by xDSL", error=f"{type(e).__name__}: {str(e)[:160]}", program=text)
            continue
        inputs = serialize.input_tuples(aw, rng, 16 if q else 40)
        try:
            with time_limit(60.0):
                st, res = compile_and_run(m, aw, rw, inputs)
        except Hang:
            ctx.diverge("translation / JIT did not return within 60 s", program=text)
            continue
        if st == "raised":
            stats["backend_refused"] += 1
            ctx.cov_add("backend_refused:" + res.split(":")[0], 1)
            continue
        if st == "rejected":
            import re as _re

            same = any(mm.group(1) == mm.group(2) for mm in _re.finditer(r"llvm\.cond_br [^,]+, \^(\w+)\([^)]*\), \^(\w+)\(", text))
            ctx.violate(f"LLVM rejects the IR the backend emitted: {res}\n--- source\n{text}",
                        {"clause": "LLVMAcceptsTheEmittedIR", "program": text, "error": res[:300], "error_class": res.split("!")[0].split("\n")[0][:90],
                         "cond_br_both_edges_to_one_block_with_arguments": same}, clause="LLVMAcceptsTheEmittedIR")
            continue
        outs, ir_text, engine = res
        keep.append(engine)
        cases.append({"kind": "run", "A": prog, "inputs": inputs,
                      "got": [{"st": "done", "rets": [serialize.limbs(v, rw)]} if v is not None else {"st": "trap", "rets": []} for v in outs]})
        metas.append({"text": text, "ir": ir_text, "rw": rw})
    ctx.log(f"{len(cases)} functions translated, verified by LLVM, JIT-compiled and run; {stats}")
    # negative control: one recorded result is corrupted; the judge must reject exactly that case (else the binding is vacuous)
    import copy

    ctrl = None
    for c in cases:     # a straight-line function without division: defined on every input
        txt = metas[cases.index(c)]["text"]
        if all(g["st"] == "done" for g in c["got"]) and "^" not in txt and "div" not in txt and "rem" not in txt and "overflow" not in txt and "sh" not in txt \
                and "exact" not in txt and "nneg" not in txt and "disjoint" not in txt:
            ctrl = copy.deepcopy(c)
            for g in ctrl["got"]:
                g["rets"][0][0] ^= 1
            break
    if ctrl is not None:
        cases.append(ctrl)
        metas.append({"text": "(negative control)", "ir": "", "rw": 0, "control": True})
    res = casecheck.run_cases("sem/MachineCases.tla", cases, min_per_shard=8, timeout=3300, count_ends=lambda c: len(c["inputs"]))
    if ctrl is not None:
        hit = [x for x in res.mismatches if x[0] == len(cases) - 1]
        src_done = any(e[0] == len(cases) - 1 and e[2] == "done" for e in getattr(res, "ends", []))
        if src_done and not hit:
            from .. import tlc

            raise tlc.TLCMachineryError("negative control: a corrupted native result was accepted by the judge")
        res.mismatches = [x for x in res.mismatches if x[0] != len(cases) - 1]
        ctx.coverage["negative_control_corrupted_result_rejected"] = bool(hit)
        cases.pop()
        metas.pop()
    st: dict[str, int] = {}
    for (_i, _j, sa, _sb) in getattr(res, "ends", []):
        st[sa] = st.get(sa, 0) + 1
    seen = set()
    for idx, tail in res.mismatches:
        clause, j = tail[0], int(tail[1])
        if (idx, clause) in seen:
            continue
        seen.add((idx, clause))
        m = metas[idx]
        c = cases[idx]
        inp = [serialize.from_limbs(l) for l in c["inputs"][j - 1]]
        got = serialize.from_limbs(c["got"][j - 1]["rets"][0]) if c["got"][j - 1]["rets"] else "a trap"
        cl = "CompiledCodeComputesTheLLVMSemantics"
        ctx.violate(f"on arguments {inp} the JIT-compiled code returned {got} ({clause})\n--- source\n{m['text']}\n--- emitted LLVM IR\n{m['ir'][:2500]}",
                    {"clause": cl, "input": inp, "got": got, "program": m["text"]}, clause=cl)
    ctx.coverage.update({"evaluations": sum(len(c["inputs"]) for c in cases), "distinct_nontrivial": len(cases), "functions": len(cases), "outcomes": stats,
                         "machine_run_status": st, "machine_states": res.states,
                         "rule": "generated llvm-dialect integer functions over i1/i8/i16/i32/i64 (binary ops with nsw/nuw/exact/disjoint, icmp with all ten predicates, zext/sext/trunc "
                                 "with nneg/nsw/nuw, select, alloca/store/load, straight-line / diamond with block arguments incl. both edges to one block / counted loop with two "
                                 "loop-carried block arguments) on boundary and random argument tuples"})
    if metas:
        ctx.sample({"program": metas[0]["text"], "llvm_ir": metas[0]["ir"][:600]})
    ctx.assumptions += ["Machine.tla's LLVMEval is the LLVM semantics of the ops; poison / undefined behaviour in the source (flag violated, division by zero, shift >= width, "
                        "uninitialised load) puts no obligation on the compiled code", "integer functions only; floating point, vectors, calls, GEP and globals are not generated",
                        "native execution through llvmlite MCJIT on the host (x86-64)"]
