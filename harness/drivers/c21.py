"""C21: x86 backend code computes the source results and honours the SysV ABI.

Model: spec/x86/X86.tla (the x86-64 subset the backend emits: mov/add/sub/imul/logic/push/pop/ret on 8-limb registers and
a stack) next to spec/sem/Machine.tla (source semantics).  Binding: generated i64 functions (constants, add / mul chains,
argument reuse, many live values) are compiled by the REAL documented pipeline and printed as assembly; (a) the text is
parsed into X86.tla instruction records and TLC runs source and instructions on the same inputs: rax = the source's result,
rbx/rbp/r12-r15 and rsp restored at `ret`; (b) the same text is assembled by the system assembler and called natively
through a trampoline that plants sentinels in the callee-saved registers and records them, rax and the stack-pointer drift;
the native observations must be what X86.tla predicts (this binds the model to the CPU; a disagreement is a machinery
error, not a verdict)."""

from __future__ import annotations

import ctypes
import os
import re
import subprocess
import tempfile
from pathlib import Path
from typing import Any

from .. import casecheck, serialize, tlc
from ..core import Ctx, Hang, time_limit
from . import progs

PIPELINE = ["convert-func-to-x86-func", "convert-arith-to-x86", "reconcile-unrealized-casts", "canonicalize", "dce", "x86-allocate-registers",
            "x86-prologue-epilogue-insertion", "canonicalize"]
REGS = {"rax", "rbx", "rcx", "rdx", "rsi", "rdi", "rbp", "rsp", "r8", "r9", "r10", "r11", "r12", "r13", "r14", "r15"}
SAVED = ["rbx", "rbp", "r12", "r13", "r14", "r15"]
SENT = {r: 0x5100000000000000 + 0x0101010101 * (k + 3) for k, r in enumerate(SAVED)}

TRAMPOLINE = """
.intel_syntax noprefix
.data
verif_saved_rsp: .quad 0
.text
.globl verif_tramp
# long verif_tramp(long *args /* 8: six in registers, two on the stack */, long *out /* rax, rbx, rbp, r12, r13, r14, r15, rsp drift */)
verif_tramp:
    push rbx
    push rbp
    push r12
    push r13
    push r14
    push r15
    push rsi
    sub rsp, 8
    mov r11, rdi
    movabs rbx, {rbx}
    movabs rbp, {rbp}
    movabs r12, {r12}
    movabs r13, {r13}
    movabs r14, {r14}
    movabs r15, {r15}
    mov rdi, [r11]
    mov rsi, [r11+8]
    mov rdx, [r11+16]
    mov rcx, [r11+24]
    mov r8, [r11+32]
    mov r9, [r11+40]
    push QWORD PTR [r11+56]
    push QWORD PTR [r11+48]
    mov QWORD PTR verif_saved_rsp[rip], rsp
    call main
    mov r11, rsp
    sub r11, QWORD PTR verif_saved_rsp[rip]
    mov rsp, QWORD PTR verif_saved_rsp[rip]
    add rsp, 24
    pop rsi
    mov [rsi], rax
    mov [rsi+8], rbx
    mov [rsi+16], rbp
    mov [rsi+24], r12
    mov [rsi+32], r13
    mov [rsi+40], r14
    mov [rsi+48], r15
    mov [rsi+56], r11
    pop r15
    pop r14
    pop r13
    pop r12
    pop rbp
    pop rbx
    ret
"""


class AsmUnsupported(Exception):
    pass


def limbs64(v: int) -> list[int]:
    return serialize.limbs(v, 64)


def parse_asm(text: str) -> list[dict[str, Any]]:
    raw: list[tuple[str, list[str]]] = []
    labels: dict[str, int] = {}
    for ln in text.splitlines():
        ln = ln.split("#")[0].strip()
        if not ln or ln.startswith("."):
            continue
        m = re.fullmatch(r"([\w.$]+):", ln)
        if m:
            labels[m.group(1)] = len(raw) + 1
            continue
        parts = ln.split(None, 1)
        raw.append((parts[0], [x.strip() for x in parts[1].split(",")] if len(parts) > 1 else []))
    start = labels.get("main", 1)
    code = []
    for op, a in raw[start - 1:]:
        d = {"op": op, "dst": "", "src": "", "imm": [0] * 8, "tgt": 0}

        def operand(x: str, d=d):
            if x in REGS:
                d["src"] = x
            else:
                try:
                    d["imm"] = limbs64(int(x, 0))
                except ValueError as e:
                    raise AsmUnsupported(f"operand {x}") from e

        if op in ("mov", "add", "sub", "imul", "and", "or", "xor"):
            if len(a) != 2 or a[0] not in REGS:
                raise AsmUnsupported(f"{op} {a}")
            d["dst"] = a[0]
            m = re.fullmatch(r"\[(\w+)(?:\+(\d+))?\]", a[1].replace(" ", ""))
            if m:
                if op != "mov" or m.group(1) not in REGS:
                    raise AsmUnsupported(f"{op} {a}")
                d["op"], d["src"], d["imm"] = "load", m.group(1), limbs64(int(m.group(2) or 0))
            else:
                operand(a[1])
        elif op in ("neg", "not", "pop"):
            if a[0] not in REGS:
                raise AsmUnsupported(f"{op} {a}")
            d["dst"] = a[0]
        elif op == "push":
            operand(a[0])
        elif op == "jmp":
            if a[0] not in labels:
                raise AsmUnsupported(f"label {a[0]}")
            d["tgt"] = labels[a[0]] - start + 1
        elif op in ("ret", "nop"):
            pass
        else:
            raise AsmUnsupported(f"instruction {op}")
        code.append(d)
    return code


def full_ctx():
    from xdsl.context import Context
    from xdsl.dialects import get_all_dialects

    c = Context()
    for n, f in get_all_dialects().items():
        c.register_dialect(n, f)
    return c


def compile_x86(text: str) -> str:
    import io

    from xdsl.targets import get_all_targets
    from xdsl.transforms import get_all_passes

    m = progs.parse(text)
    m.verify()
    c = full_ctx()
    allp = get_all_passes()
    for p in PIPELINE:
        allp[p]()().apply(c, m)
    out = io.StringIO()
    get_all_targets()["x86-asm"]()().emit(c, m, out)
    return out.getvalue()


def gen_i64(rng) -> tuple[str, list[int]]:
    nargs = rng.randint(1, 6) if rng.random() < 0.8 else rng.randint(7, 8)      # the 7th and 8th argument travel on the stack
    vals = [f"%a{i}" for i in range(nargs)]
    lines = []
    k = 0
    big = rng.random() < 0.35 and nargs <= 6                                   # (the allocator runs out of registers quickly there)
    for _ in range(rng.randint(8, 18) if big else rng.randint(1, 7)):
        k += 1
        r = rng.random()
        if r < 0.2:
            # constants outside si32 are refused by the lowering (VerifyException = reported failure): rare on purpose
            c = rng.choice([0, 0, 1, -1, 2, 5, 255, 65536, 2147483647, -2147483648, rng.randrange(-(1 << 31), 1 << 31)]
                           + ([2147483648, 4294967296, 9223372036854775807] if rng.random() < 0.05 else []))
            lines.append(f"  %v{k} = arith.constant {c} : i64")
        else:
            op = rng.choice(["addi", "muli", "addi"])
            pool = vals if not big or rng.random() < 0.5 else vals[:max(2, len(vals) // 2)]     # early values stay live for long
            lines.append(f"  %v{k} = arith.{op} {rng.choice(pool)}, {rng.choice(vals)} : i64")
        vals.append(f"%v{k}")
    ret = vals[-1]
    if big:      # use many values at the end so that they are simultaneously live
        for v in rng.sample(vals, min(len(vals), rng.randint(4, 9))):
            k += 1
            lines.append(f"  %v{k} = arith.addi {ret}, {v} : i64")
            ret = f"%v{k}"
    sig = ", ".join(f"%a{i} : i64" for i in range(nargs))
    return f"func.func @main({sig}) -> i64 {{\n" + "\n".join(lines) + f"\n  func.return {ret} : i64\n}}\n", [64] * nargs


def build_native(asm: str, tmp: Path, k: int):
    src = tmp / f"f{k}.s"
    lib = tmp / f"f{k}.so"
    src.write_text(asm + TRAMPOLINE.format(**{r: hex(v) for r, v in SENT.items()}))
    p = subprocess.run(["gcc", "-shared", "-fPIC", "-nostdlib", "-o", str(lib), str(src)], capture_output=True, text=True, timeout=60)
    if p.returncode != 0:
        return None, p.stderr[:400]
    return ctypes.CDLL(str(lib)), ""


def run_native(lib, inputs) -> list[dict[str, Any]]:
    fn = lib.verif_tramp
    fn.restype = ctypes.c_long
    fn.argtypes = [ctypes.POINTER(ctypes.c_uint64), ctypes.POINTER(ctypes.c_uint64)]
    out: list[dict[str, Any]] = []
    k = 0
    while k < len(inputs):
        rfd, wfd = os.pipe()
        pid = os.fork()
        if pid == 0:
            os.close(rfd)
            try:
                with os.fdopen(wfd, "w") as w:
                    for inp in inputs[k:]:
                        args = (ctypes.c_uint64 * 8)(*([serialize.from_limbs(l) for l in inp] + [0] * (8 - len(inp))))
                        res = (ctypes.c_uint64 * 8)()
                        fn(args, res)
                        w.write(" ".join(str(int(x)) for x in res) + "\n")
                        w.flush()
            finally:
                os._exit(0)
        os.close(wfd)
        with os.fdopen(rfd) as r:
            rows = [[int(x) for x in ln.split()] for ln in r.read().splitlines() if ln.strip()]
        os.waitpid(pid, 0)
        for row in rows:
            out.append({"st": "done", "rax": limbs64(row[0]), "saved": [limbs64(x) for x in row[1:7]], "rspdelta": 0 if row[7] == 0 else 1})
        k += len(rows)
        if k < len(inputs):
            out.append({"st": "trap", "rax": [0] * 8, "saved": [[0] * 8] * 6, "rspdelta": 1})
            k += 1
    return out


def run(ctx: Ctx):
    ctx.level = "translation_validation"
    q = ctx.quick
    cases: list[dict[str, Any]] = []
    metas: list[dict[str, Any]] = []
    stats = {"pipeline_raised": 0, "asm_unsupported": 0, "assembler_rejected": 0}
    raised: dict[str, int] = {}
    libs = []
    regs0 = {r: limbs64(v) for r, v in SENT.items()}
    with tempfile.TemporaryDirectory(prefix="verif-c21-") as tmpd:
        tmp = Path(tmpd)
        for k in range(150 if q else 4000):
            rng = ctx.rng(f"fn{k}")
            text, widths = gen_i64(rng)
            try:
                src = progs.parse(text)
                src.verify()
                progA = serialize.serialize_module(src, "main")
            except Exception as e:  # noqa: BLE001
                ctx.diverge("generated program rejected", error=f"{type(e).__name__}: {str(e)[:120]}")
                continue
            try:
                with time_limit(60.0):
                    asm = compile_x86(text)
            except Hang:
                ctx.diverge("pipeline did not return within 60 s", program=text)
                continue
            except Exception as e:  # noqa: BLE001   the property is about programs the pipeline compiles
                stats["pipeline_raised"] += 1
                key = f"{type(e).__name__}: {str(e)[:60]}"
                raised[key] = raised.get(key, 0) + 1
                continue
            inputs = serialize.input_tuples(widths, rng, 8 if q else 20)
            lib, err = build_native(asm, tmp, k)
            if lib is None:
                stats["assembler_rejected"] += 1
                ctx.violate(f"the system assembler rejects the emitted assembly: {err}\n--- source\n{text}\n--- assembly\n{asm}",
                            {"clause": "EmittedAssemblyAssembles", "program": text, "asm": asm[:2000]}, clause="EmittedAssemblyAssembles")
                continue
            libs.append(lib)
            native = run_native(lib, inputs)
            try:
                code = parse_asm(asm)
            except AsmUnsupported as e:
                stats["asm_unsupported"] += 1
                ctx.diverge("emitted assembly not expressible in X86.tla", reason=str(e))
                continue
            cases.append({"A": progA, "code": code, "nargs": len(widths), "inputs": inputs, "regs0": regs0, "native": native})
            metas.append({"text": text, "asm": asm})
    ctx.log(f"{len(cases)} functions compiled, assembled and run natively; {stats}")
    ctx.coverage["pipeline_raised_kinds"] = dict(sorted(raised.items(), key=lambda x: -x[1])[:10])
    res = casecheck.run_cases("x86/X86Cases.tla", cases, min_per_shard=4, timeout=3300, count_ends=lambda c: len(c["inputs"]))
    st: dict[str, int] = {}
    for (_i, _j, sa, sb) in getattr(res, "ends", []):
        st[f"{sa}/{sb}"] = st.get(f"{sa}/{sb}", 0) + 1
    seen = set()
    model_vs_cpu = []
    for idx, tail in res.mismatches:
        clause, j = tail[0], int(tail[1])
        if clause.startswith("ModelDisagreesWithCPU"):
            model_vs_cpu.append((idx, clause, j))
            continue
        if (idx, clause) in seen:
            continue
        seen.add((idx, clause))
        m = metas[idx]
        inp = [serialize.from_limbs(l) for l in cases[idx]["inputs"][j - 1]]
        nat = cases[idx]["native"][j - 1]
        ctx.violate(f"x86 pipeline output on arguments {inp}: {clause} (natively: rax = {serialize.from_limbs(nat['rax'])}, callee-saved "
                    f"{['kept' if serialize.from_limbs(s) == SENT[r] else 'CLOBBERED' for s, r in zip(nat['saved'], SAVED)]}, rsp drift {nat['rspdelta']})\n--- source\n{m['text']}\n--- assembly\n{m['asm']}",
                    {"clause": clause.split(":")[0], "input": inp, "program": m["text"], "asm": m["asm"]}, clause=clause.split(":")[0])
    # a run that already violates the property under the model (e.g. it reads the return-address slot as an argument) may
    # legitimately look different on the CPU; the model is only held against the CPU on runs it judges correct
    violating = {idx for (idx, _c) in seen}
    ignored = [x for x in model_vs_cpu if x[0] in violating]
    model_vs_cpu = [x for x in model_vs_cpu if x[0] not in violating]
    ctx.coverage["native_disagreements_on_violating_functions"] = len(ignored)
    if model_vs_cpu:
        idx, clause, j = model_vs_cpu[0]
        raise tlc.TLCMachineryError(f"X86.tla disagrees with the CPU on {len(model_vs_cpu)} run(s), e.g. {clause} input #{j}\n{metas[idx]['asm']}")
    ctx.coverage["functions_saving_callee_saved_registers"] = sum(1 for m in metas if "push" in m["asm"])
    ctx.coverage.update({"evaluations": sum(len(c["inputs"]) for c in cases), "distinct_nontrivial": len(cases), "functions": len(cases), "outcomes": stats,
                         "run_status_source/target": st, "machine_states": res.states, "native_runs_agreeing_with_X86_model": sum(len(c["inputs"]) for c in cases),
                         "rule": "generated i64 functions (1-8 arguments, the 7th and 8th on the stack, constants incl. 32-/64-bit boundaries, add / mul chains with argument reuse; a third with 8-18 operations and "
                                 "many simultaneously live values so that callee-saved registers are needed) through the documented pipeline; boundary / random argument vectors"})
    if metas:
        ctx.sample({"program": metas[0]["text"], "assembly": metas[0]["asm"]})
    ctx.assumptions += ["X86.tla is the semantics of the emitted instruction subset (cross-checked against the host CPU on every run); Machine.tla the source semantics",
                        "only arith.constant / addi / muli on i64 are lowered by convert-arith-to-x86; programs the pipeline refuses are outside the property",
                        "the trampoline (harness/drivers/c21.py) observes rbx, rbp, r12-r15 and the stack-pointer drift across the call"]
