"""C26: the affine expression algebra preserves values.

Model: spec/misc/Affine.tla (Eval with floor division, non-negative modulo, ceiling division; substitution).
Binding: expression trees are generated abstractly; each is built for real with the Python operators
(which simplify on construction) and with the raw constructor, then simplified, composed with maps,
has its dims/symbols replaced, and printed + re-parsed; the real eval() of every form is tabulated on a
box of points and TLC compares every entry with Eval of the ORIGINAL tree (under the substitution)."""

from __future__ import annotations

import itertools
from typing import Any

from .. import casecheck
from ..core import Ctx

LEAVES = [["d", 0], ["d", 1], ["s", 0], ["c", -2], ["c", 0], ["c", 1], ["c", 3]]


def gen_tree(rng, depth: int):
    if depth == 0 or rng.random() < 0.25:
        return list(rng.choice(LEAVES))
    k = rng.choice(["add", "add", "mul", "floordiv", "ceildiv", "mod"])
    l = gen_tree(rng, depth - 1)
    if k == "add":
        return [k, l, gen_tree(rng, depth - 1)]
    if k == "mul":
        return [k, l, ["c", rng.choice([-3, -1, 0, 1, 2, 4])]]
    return [k, l, ["c", rng.choice([1, 2, 3, 4, 7])]]


def depth1_trees():
    for l in LEAVES:
        for r in LEAVES:
            yield ["add", l, r]
        for c in (-3, -1, 0, 1, 2, 4):
            yield ["mul", l, ["c", c]]
        for k in ("floordiv", "ceildiv", "mod"):
            for c in (1, 2, 3, 4, 7):
                yield [k, l, ["c", c]]


def build(t, raw: bool = False):
    from xdsl.ir.affine import AffineBinaryOpKind, AffineExpr

    if t[0] == "c":
        return AffineExpr.constant(t[1])
    if t[0] == "d":
        return AffineExpr.dimension(t[1])
    if t[0] == "s":
        return AffineExpr.symbol(t[1])
    l, r = build(t[1], raw), build(t[2], raw)
    if raw:
        from xdsl.ir.affine import AffineBinaryOpExpr

        kind = {"add": AffineBinaryOpKind.Add, "mul": AffineBinaryOpKind.Mul, "floordiv": AffineBinaryOpKind.FloorDiv,
                "ceildiv": AffineBinaryOpKind.CeilDiv, "mod": AffineBinaryOpKind.Mod}[t[0]]
        return AffineBinaryOpExpr(kind, l, r)
    if t[0] == "add":
        return l + r
    if t[0] == "mul":
        return l * r
    if t[0] == "floordiv":
        return l // r
    if t[0] == "ceildiv":
        return l.ceil_div(r)
    return l % r


def reparse(e):
    from xdsl.context import Context
    from xdsl.dialects.builtin import AffineMapAttr, Builtin
    from xdsl.parser import Parser

    ctx = Context()
    ctx.load_dialect(Builtin)
    text = f"affine_map<(d0, d1)[s0] -> ({e})>"
    a = Parser(ctx, text).parse_attribute()
    assert isinstance(a, AffineMapAttr)
    return a.data.results[0]


def run(ctx: Ctx):
    from xdsl.ir.affine import AffineMap

    ctx.level = "exploration"
    rng = ctx.rng("trees")
    box = (-3, -1, 0, 2, 5) if ctx.quick else (-4, -3, -1, 0, 1, 2, 5)
    pts = [list(p) for p in itertools.product(box, box, (-2, 0, 3))]
    trees = list(depth1_trees()) + [gen_tree(rng, rng.choice([2, 3])) for _ in range(500 if ctx.quick else 12000)]
    cases: list[dict[str, Any]] = []
    metas: list[list[str]] = []
    nforms = 0
    for t in trees:
        forms: list[dict[str, Any]] = []
        names: list[str] = []

        def add(name: str, make, nd=(), ns=()):
            nonlocal nforms
            try:
                e = make()
                vals = [e.eval(p[:2], p[2:]) for p in pts]
            except NotImplementedError:
                return None
            except Exception as ex:  # noqa: BLE001   an internal error on a valid expression
                ctx.diverge("transformation raised", form=name, tree=t, error=f"{type(ex).__name__}: {str(ex)[:100]}")
                return None
            forms.append({"name": name, "nd": list(nd), "ns": list(ns), "vals": vals})
            names.append(name)
            nforms += 1
            return e

        built = add("operators", lambda: build(t))
        raw = add("raw constructor", lambda: build(t, raw=True))
        if built is None:
            continue
        add("simplify", lambda: built.simplify(2, 1))
        if raw is not None:
            add("simplify(raw)", lambda: raw.simplify(2, 1))
            add("print+parse(raw)", lambda: reparse(raw))
        add("print+parse", lambda: reparse(built))
        add("simplify+print+parse", lambda: reparse(built.simplify(2, 1)))
        m1, m2 = gen_tree(rng, 2), gen_tree(rng, 2)
        add("compose", lambda: built.compose(AffineMap(2, 1, (build(m1), build(m2)))), nd=[m1, m2])
        add("compose+simplify", lambda: built.compose(AffineMap(2, 1, (build(m1), build(m2)))).simplify(2, 1), nd=[m1, m2])
        s1 = gen_tree(rng, 1)
        add("replace_dims_and_symbols", lambda: built.replace_dims_and_symbols([build(m1)], [build(s1)]), nd=[m1], ns=[s1])
        add("replace_dims_and_symbols(raw)", lambda: (raw or built).replace_dims_and_symbols([build(m2), build(m1)], []), nd=[m2, m1])
        cases.append({"e": t, "pts": pts, "forms": forms})
        metas.append(names)
    ctx.log(f"{len(cases)} trees, {nforms} transformed forms, {len(pts)} points each")
    res = casecheck.run_cases("misc/AffineCases.tla", cases, min_per_shard=20)
    seen = set()
    for idx, tail in res.mismatches:
        _c, f, p, want = tail
        name = metas[idx][f - 1]
        if (idx, f) in seen:
            continue
        seen.add((idx, f))
        c = cases[idx]
        ctx.violate(f"{name} of {c['e']} evaluates to {c['forms'][f-1]['vals'][p-1]} at (d0,d1,s0)={c['pts'][p-1]}, the expression's value is {want}",
                    {"clause": "ValuePreserved", "form": name, "tree": c["e"], "point": c["pts"][p - 1], "got": c["forms"][f - 1]["vals"][p - 1], "want": want,
                     "subst": [c["forms"][f - 1]["nd"], c["forms"][f - 1]["ns"]]}, clause="ValuePreserved")
    ctx.coverage.update({"evaluations": nforms * len(pts), "distinct_nontrivial": nforms, "trees": len(cases), "points": len(pts), "judge_states": res.states,
                         "rule": "all depth-1 trees over {d0,d1,s0,-2,0,1,3} plus seeded trees of depth 2-3 (add, mul by constant, floordiv/ceildiv/mod by positive "
                                 "constants); forms: operators, raw constructor, simplify, print+parse, compose, replace_dims_and_symbols and combinations; "
                                 "non-trivial = each (tree, form) pair"})
    ctx.sample({"tree": cases[len(cases) // 2]["e"], "forms": metas[len(cases) // 2]})
    ctx.assumptions += ["Affine.tla's Eval is the value semantics (TLC integer arithmetic; values stay far below 2^31 in the generated space)"]
