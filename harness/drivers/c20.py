"""C20: riscv.parallel_mov lowering performs a simultaneous assignment.

Model: spec/backend/ParallelMov.tla (symbolic register file, XOR algebra, NaN-boxing fmv.s,
hard-wired zero, Requirement).  Binding: for every move graph of the bounded space the real
riscv-lower-parallel-mov pass is run; the emitted mv/fmv/xor sequence is executed by TLC on the
symbolic register file and judged against Requirement (ParallelMovCases.tla)."""

from __future__ import annotations

import itertools
from typing import Any

from .. import casecheck
from ..core import Ctx

HANG_SECONDS = 2.0  # CPU seconds of this process (not wall clock: machine load must not raise an alarm); the pass normally needs ~1 ms per op

INT = ["t0", "t1", "t2", "t3", "t4"]
FLT = ["ft0", "ft1", "ft2", "ft3"]


def reg_type(name: str):
    from xdsl.dialects import riscv

    if name.startswith("f"):
        return riscv.FloatRegisterType.from_name(name)
    return riscv.IntRegisterType.from_name(name)


def lower(moves: list[tuple[str, str, int]], free: list[str], distinct_ssa: bool = False) -> dict[str, Any]:
    """Build a module with one riscv.parallel_mov, run the real pass, return the emitted sequence."""
    from xdsl.context import Context
    from xdsl.dialects import builtin, riscv, rv32, test
    from xdsl.dialects.builtin import ArrayAttr, DenseArrayBase, ModuleOp, i32
    from xdsl.ir import Block, Region
    from xdsl.transforms.riscv_lower_parallel_mov import RISCVLowerParallelMovPass
    from xdsl.utils.exceptions import PassFailedException

    ops = []
    by_reg: dict[str, Any] = {}
    inputs = []
    for s, _, _ in moves:
        if distinct_ssa or s not in by_reg:
            t = reg_type(s)
            g = riscv.GetFloatRegisterOp(t) if s.startswith("f") else rv32.GetRegisterOp(t)
            ops.append(g)
            by_reg[s] = g.res
        inputs.append(by_reg[s])
    pm = riscv.ParallelMovOp(
        inputs, [reg_type(d) for _, d, _ in moves],
        DenseArrayBase.from_list(i32, [w for _, _, w in moves]),
        ArrayAttr([reg_type(f) for f in free]) if free else None)
    user = test.TestOp(operands=list(pm.results))
    module = ModuleOp([*ops, pm, user])
    module.verify()
    out: dict[str, Any] = {"failed": 0, "seq": [], "restypes": 1, "unknown": None}
    import signal

    class _Hang(BaseException):
        pass

    def _alarm(signum, frame):
        raise _Hang()

    old = signal.signal(signal.SIGVTALRM, _alarm)
    signal.setitimer(signal.ITIMER_VIRTUAL, HANG_SECONDS, 0.05)  # repeating: a raise swallowed somewhere is retried
    try:
        try:
            RISCVLowerParallelMovPass().apply(Context(), module)
        finally:
            signal.setitimer(signal.ITIMER_VIRTUAL, 0)
            signal.signal(signal.SIGVTALRM, old)
    except _Hang:
        out["failed"] = 1
        out["hang"] = True
        return out
    except PassFailedException as e:
        out["failed"] = 1
        out["msg"] = str(e)
        return out
    except Exception as e:  # noqa: BLE001  internal error: no sequence was produced
        out["failed"] = 1
        out["crash"] = type(e).__name__
        return out
    names = {"riscv.mv": "mv", "riscv.fmv.s": "fmv.s", "riscv.fmv.d": "fmv.d", "riscv.xor": "xor"}
    for op in module.body.block.ops:
        if isinstance(op, (rv32.GetRegisterOp, riscv.GetFloatRegisterOp)) or op is user:
            continue
        if op.name not in names:
            out["unknown"] = op.name
            continue
        regs = [o.type.register_name.data for o in op.operands]
        rd = op.results[0].type.register_name.data
        out["seq"].append([names[op.name], rd, regs[0], regs[1] if len(regs) > 1 else "zero"])
    want = [d for _, d, _ in moves]
    got = [getattr(getattr(o.type, "register_name", None), "data", None) for o in user.operands]
    out["restypes"] = 1 if want == got else 0
    return out


def gen_kind(regs: list[str], zero: bool, widths_enum: bool, rng, free_pool_extra: list[str]):
    """All move graphs over `regs`: every register is either not a destination or receives from any
    register of its kind (incl. itself, incl. zero for ints)."""
    srcs = regs + (["zero"] if zero else [])
    per_reg: list[list[tuple[str, int] | None]] = []
    for _ in regs:
        opts: list[tuple[str, int] | None] = [None]
        for s in srcs:
            if widths_enum:
                opts += [(s, 32), (s, 64)]
            else:
                opts.append((s, 0))
        per_reg.append(opts)
    for combo in itertools.product(*per_reg):
        moves = []
        for d, c in zip(regs, combo):
            if c is not None:
                w = c[1] or rng.choice([32, 64])
                moves.append((c[0], d, w))
        if not moves:
            continue
        used = {m[0] for m in moves} | {m[1] for m in moves}
        unused = [r for r in regs + free_pool_extra if r not in used]
        yield moves, unused


def free_subsets(unused: list[str], cap: int = 2):
    yield []
    for k in range(1, min(cap, len(unused)) + 1):
        for sub in itertools.combinations(unused, k):
            yield list(sub)


def run(ctx: Ctx):
    ctx.level = "model_checking"
    q = ctx.quick
    rng = ctx.rng("moves")
    cases: list[dict[str, Any]] = []
    metas: list[dict[str, Any]] = []

    def add(moves, free, regs, floats, distinct=False):
        r = lower(moves, free, distinct)
        if r.get("hang"):
            ctx.violate(f"moves {moves} free {free}: the pass does not terminate (still inserting ops after {HANG_SECONDS} s of CPU)",
                        {"clause": "Terminates", "shape": classify({"moves": [list(m) for m in moves], "free": free}),
                         "cause": causes({"moves": [list(m) for m in moves], "free": free}, distinct, set())[0],
                         "moves": [list(m) for m in moves], "free": free, "distinct_ssa": distinct}, clause="Terminates")
            return
        if r.get("crash"):
            ctx.cov_add("crashed_in_pass")
            ctx.diverge("pass escaped with an internal error instead of a sequence or PassFailedException",
                        error=r["crash"], moves=moves, free=free)
        if r["unknown"]:
            ctx.diverge("pass emitted an instruction the model does not know", op=r["unknown"], moves=moves)
            return
        cases.append({"regs": regs + ["zero"], "floats": floats, "moves": [list(m) for m in moves], "free": free,
                      "seq": r["seq"], "failed": r["failed"], "restypes": r["restypes"]})
        metas.append({"distinct_ssa": distinct})

    nint = 4 if q else 5
    nflt = 3 if q else 4
    ints, flts = INT[:nint], FLT[:nflt]
    # exhaustive: integer graphs (incl. zero as source), every subset (<=2) of unused registers as free set
    for moves, unused in gen_kind(ints, True, False, rng, ["t5"]):
        for free in free_subsets(unused, 1 if q else 2):
            add(moves, free, ints + ["t5"], [])
    n_int = len(cases)
    # exhaustive: float graphs with both widths
    for moves, unused in gen_kind(flts, False, True, rng, ["ft5"]):
        for free in free_subsets(unused, 1):
            add(moves, free, flts + ["ft5"], flts + ["ft5"])
    n_flt = len(cases) - n_int
    # mixed int+float graphs, shuffled operand order, zero as (repeated) destination, distinct SSA values per use
    for _ in range(3000 if q else 30000):
        ri = rng.sample(INT, rng.randint(1, 5))
        rf = rng.sample(FLT, rng.randint(0, 4))
        with_zero = rng.random() < 0.3
        wsrc = {r: rng.choice([32, 64]) for r in ri + rf + ["zero"]}  # one width per source value
        moves = []
        for d in ri:
            if rng.random() < 0.8:
                s = rng.choice(ri + (["zero"] if with_zero else []))
                moves.append((s, d, wsrc[s]))
        for d in rf:
            if rng.random() < 0.8:
                s = rng.choice(rf)
                moves.append((s, d, wsrc[s] if rng.random() < 0.9 else rng.choice([32, 64])))
        if with_zero:
            for _z in range(rng.choice([0, 0, 1, 2])):
                moves.append((rng.choice(ri), "zero", 32))
        if not moves:
            continue
        rng.shuffle(moves)
        used = {m[0] for m in moves} | {m[1] for m in moves}
        pool = [r for r in INT + FLT + ["t5", "ft5"] if r not in used]
        free = rng.sample(pool, rng.randint(0, min(2, len(pool))))
        add(moves, free, INT + FLT + ["t5", "ft5"], FLT + ["ft5"], distinct=rng.random() < 0.3)
    ctx.log(f"{len(cases)} parallel moves lowered by the real pass ({n_int} int exhaustive, {n_flt} float exhaustive)")
    res = casecheck.run_cases("backend/ParallelMovCases.tla", cases)
    gave_up = 0
    for idx, tail in res.mismatches:
        c = cases[idx]
        clause = tail[0]
        if clause == "ok-but-gave-up":
            gave_up += 1
            ctx.diverge("pass reported failure although a sequence exists", moves=c["moves"], free=c["free"])
            continue
        shape = classify(c)
        bad = set(tail[1]) if len(tail) > 1 else set()
        for cz in causes(c, metas[idx]["distinct_ssa"], bad):
            ctx.violate(f"moves {c['moves']} free {c['free']}: emitted {c['seq']} violates {clause} on {sorted(bad)} [{shape}; {cz}]",
                        {"clause": clause, "shape": shape, "cause": cz, "bad_registers": sorted(bad), "moves": c["moves"],
                         "free": c["free"], "seq": c["seq"], "distinct_ssa": metas[idx]["distinct_ssa"]}, clause=clause)
    ctx.coverage.update({
        "states": res.states, "transitions": res.generated, "traces_validated_against_impl": len(cases),
        "evaluations": len(cases), "distinct_nontrivial": len({repr((c["moves"], c["free"])) for c in cases}),
        "int_graphs_exhaustive": n_int, "float_graphs_exhaustive": n_flt, "failed_by_pass": sum(c["failed"] for c in cases),
        "gave_up_although_possible": gave_up, "exhaustive": True,
        "rule": f"every move graph over {nint} int registers (+zero as source) and every graph over {nflt} float registers x widths, "
                "with every small free-register set; plus seeded mixed graphs with shuffled operand order, zero destinations and "
                "distinct SSA values per source use; distinct = distinct (moves, free) pairs"})
    ctx.sample(cases[n_int // 2])
    ctx.sample(cases[n_int + n_flt // 2])
    ctx.sample(cases[-1])
    ctx.assumptions += ["register semantics of mv/fmv.s/fmv.d/xor as in ParallelMov.tla (fmv.s NaN-boxes; zero is hard-wired)",
                        "a reported failure is accepted; failure where a sequence exists is recorded as divergence only"]


def causes(c: dict[str, Any], distinct_ssa: bool, bad: set[str]) -> list[str]:
    """Root-cause classes of a failing case, used (with the clause) to key known findings.  Each class
    explains a set of registers; the registers that ended up wrong (`bad`, computed by TLC) are split
    among the applicable classes and whatever no class explains is reported as 'other', which no
    finding matches."""
    moves = c["moves"]
    nontriv = [(s, d) for s, d, _ in moves if s != d]
    if any(s == "zero" or d == "zero" for s, d, _ in moves):
        return ["zero-register-in-move-graph"]
    out: list[str] = []
    rest = set(bad)
    widths: dict[str, set[int]] = {}
    for s, _, w in moves:
        widths.setdefault(s, set()).add(w)
    two = {s for s, ws in widths.items() if len(ws) > 1 and s.startswith("f")}
    expl = {d for s, d, _ in moves if s in two}
    if not distinct_ssa and rest & expl:
        out.append("same-float-value-moved-with-two-widths")
        rest -= expl
    kinds_with_free = {"f" if f.startswith("f") else "i" for f in c["free"]}
    cycles = find_cycles(c)
    # registers the pass appends to its free list: tree roots (sources of a non-trivial move that receive none)
    roots = {s for s, _ in nontriv} - {d for _, d in nontriv}
    expl = {r for r in roots if ("f" if r.startswith("f") else "i") not in kinds_with_free} if cycles else set()
    if rest & expl:
        out.append("tree-root-used-as-cycle-scratch")
        rest -= expl
    expl = set().union(*[set(cy) for cy in cycles if len(cy) >= 3 and not cy[0].startswith("f")] or [set()])
    if "i" not in kinds_with_free and rest & expl and any(i[0] == "xor" for i in c.get("seq", [])):
        out.append("int-cycle-of-3-or-more-xor-swap")
        rest -= expl
    if rest or not out:
        out.append("other")
    return out


def find_cycles(c: dict[str, Any]) -> list[list[str]]:
    src_of = {d: s for s, d, _ in c["moves"] if d != "zero" and s != d}
    out, seen = [], set()
    for d in src_of:
        path, cur = [], d
        while cur in src_of and cur not in path:
            path.append(cur)
            cur = src_of[cur]
        if cur in path:
            cyc = path[path.index(cur):]
            if not (set(cyc) & seen):
                out.append(cyc)
            seen.update(cyc)
    return out


def classify(c: dict[str, Any]) -> str:
    """Shape signature used to key known findings: which structural feature the failing graph has."""
    moves = c["moves"]
    src_of = {d: s for s, d, _ in moves if d != "zero"}
    feats = []
    # cycle lengths
    seen = set()
    for d in src_of:
        if d in seen:
            continue
        path = []
        cur = d
        while cur in src_of and cur not in path and src_of[cur] != cur:
            path.append(cur)
            cur = src_of[cur]
        if cur in path:
            cyc = path[path.index(cur):]
            if not (set(cyc) & seen):
                kind = "f" if cyc[0].startswith("f") else "i"
                feats.append(f"cycle{len(cyc)}{kind}")
            seen.update(cyc)
    if any(s == d for s, d, _ in moves):
        feats.append("selfmove")
    dsts = set(src_of)
    if any(s not in dsts and s != "zero" for s, d, _ in moves):
        feats.append("srconly-root")
    if c["free"]:
        feats.append("free")
    return "+".join(sorted(set(feats))) or "acyclic"
