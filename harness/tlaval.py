"""Parser / printer for TLA+ values as TLC prints them.

Python mapping:
  integers, TRUE/FALSE -> int / bool
  "str"                -> str
  model value  a1      -> MV("a1")
  <<a, b>>             -> tuple
  {a, b}               -> frozenset
  [k |-> v, ...]       -> dict (str keys)
  (k :> v @@ k2 :> v2) -> dict (arbitrary hashable keys)
"""

from __future__ import annotations

from typing import Any


class MV(str):
    """A TLC model value (printed as a bare identifier)."""

    def __repr__(self) -> str:  # pragma: no cover
        return f"MV({str.__repr__(self)})"


class TLAParseError(Exception):
    pass


class _P:
    def __init__(self, s: str):
        self.s = s
        self.i = 0
        self.n = len(s)

    def ws(self):
        s, n = self.s, self.n
        while self.i < n and s[self.i] in " \t\r\n":
            self.i += 1

    def peek(self, k: int = 1) -> str:
        return self.s[self.i : self.i + k]

    def eat(self, tok: str) -> bool:
        self.ws()
        if self.s.startswith(tok, self.i):
            self.i += len(tok)
            return True
        return False

    def expect(self, tok: str):
        if not self.eat(tok):
            raise TLAParseError(
                f"expected {tok!r} at {self.i}: {self.s[self.i:self.i+40]!r}"
            )

    def value(self) -> Any:
        self.ws()
        v = self.atom()
        # function composition  a :> b @@ c :> d   (only inside parentheses normally)
        return v

    def fn_body(self) -> dict:
        d: dict = {}
        while True:
            k = self.atom()
            self.expect(":>")
            v = self.atom()
            d[_hashable(k)] = v
            if not self.eat("@@"):
                break
        return d

    def atom(self) -> Any:
        self.ws()
        s = self.s
        if self.i >= self.n:
            raise TLAParseError("unexpected end")
        c = s[self.i]
        if c == "<" and self.peek(2) == "<<":
            self.i += 2
            items = []
            if self.eat(">>"):
                return ()
            while True:
                items.append(self.atom())
                if self.eat(">>"):
                    return tuple(items)
                self.expect(",")
        if c == "{":
            self.i += 1
            items = []
            if self.eat("}"):
                return frozenset()
            while True:
                items.append(_hashable(self.atom()))
                if self.eat("}"):
                    return frozenset(items)
                self.expect(",")
        if c == "[":
            self.i += 1
            d = {}
            if self.eat("]"):
                return d
            while True:
                self.ws()
                j = self.i
                while self.i < self.n and (s[self.i].isalnum() or s[self.i] == "_"):
                    self.i += 1
                k = s[j : self.i]
                self.expect("|->")
                d[k] = self.atom()
                if self.eat("]"):
                    return d
                self.expect(",")
        if c == "(":
            self.i += 1
            d = self.fn_body()
            self.expect(")")
            return d
        if c == '"':
            j = self.i + 1
            out = []
            while True:
                ch = s[j]
                if ch == "\\":
                    nx = s[j + 1]
                    out.append({"n": "\n", "t": "\t", "r": "\r", "f": "\f"}.get(nx, nx))
                    j += 2
                    continue
                if ch == '"':
                    break
                out.append(ch)
                j += 1
            self.i = j + 1
            return "".join(out)
        if c == "-" or c.isdigit():
            j = self.i
            self.i += 1
            while self.i < self.n and s[self.i].isdigit():
                self.i += 1
            lo = int(s[j : self.i])
            if s.startswith("..", self.i):
                self.i += 2
                k = self.i
                if self.i < self.n and s[self.i] == "-":
                    self.i += 1
                while self.i < self.n and s[self.i].isdigit():
                    self.i += 1
                return frozenset(range(lo, int(s[k : self.i]) + 1))
            return lo
        if c.isalpha() or c == "_":
            j = self.i
            while self.i < self.n and (s[self.i].isalnum() or s[self.i] == "_"):
                self.i += 1
            w = s[j : self.i]
            if w == "TRUE":
                return True
            if w == "FALSE":
                return False
            return MV(w)
        raise TLAParseError(f"unexpected {c!r} at {self.i}: {s[self.i:self.i+40]!r}")


def _hashable(v: Any) -> Any:
    if isinstance(v, dict):
        return tuple(sorted(((_hashable(k), _hashable(x)) for k, x in v.items()), key=repr))
    if isinstance(v, (list, tuple)):
        return tuple(_hashable(x) for x in v)
    return v


def parse(s: str) -> Any:
    p = _P(s)
    v = p.atom()
    p.ws()
    # top-level function without parentheses:  a :> b @@ c :> d
    if p.peek(2) == ":>":
        p.i = 0
        v = p.fn_body()
        p.ws()
    if p.i != p.n:
        raise TLAParseError(f"trailing text at {p.i}: {s[p.i:p.i+40]!r}")
    return v


def parse_prefix(s: str, start: int = 0) -> tuple[Any, int]:
    """Parse one value starting at `start`; return (value, end index)."""
    p = _P(s)
    p.i = start
    v = p.atom()
    return v, p.i


def to_tla(v: Any) -> str:
    """Print a Python value as a TLA+ expression."""
    if isinstance(v, bool):
        return "TRUE" if v else "FALSE"
    if isinstance(v, MV):
        return str(v)
    if isinstance(v, int):
        return str(v)
    if isinstance(v, str):
        return '"' + v.replace("\\", "\\\\").replace('"', '\\"') + '"'
    if isinstance(v, (tuple, list)):
        return "<<" + ", ".join(to_tla(x) for x in v) + ">>"
    if isinstance(v, (set, frozenset)):
        return "{" + ", ".join(sorted(to_tla(x) for x in v)) + "}"
    if isinstance(v, dict):
        if not v:
            return "<<>>"
        if all(isinstance(k, str) and not isinstance(k, MV) and k.isidentifier() for k in v):
            return "[" + ", ".join(f"{k} |-> {to_tla(x)}" for k, x in v.items()) + "]"
        return "(" + " @@ ".join(f"{to_tla(k)} :> {to_tla(x)}" for k, x in v.items()) + ")"
    raise TypeError(f"cannot print {v!r} as TLA+")
