#!/bin/sh
# usage: harness/seedtest.sh <patch file> <PROP> [tier]   -- apply a seeded patch to /repo, run the check, undo.
P="$1"; ID="$2"; TIER="${3:-quick}"
cd /repo || exit 2
if ! git diff --quiet; then echo "/repo has uncommitted changes"; exit 2; fi
git apply --3way "$P" 2>/dev/null || git apply "$P" || { echo "patch does not apply"; exit 2; }
cd /verif && timeout 1500 ./check "$ID" --tier "$TIER" 2>/dev/null | grep -v "^  \.\.\." | head -8
RC=$?
cd /repo && git reset -q && git checkout -q -- . && git status --short | grep -v '^??' | head
exit 0
